"""C20 — sleeping and timed waits respect their deadlines (DESIGN.md section 4, C20).

Two tiers:
 * unit tier (build / gen_cases / oracle / judge): one worker, scripted virtual clock, attempt outcomes made
   deterministic by a helper thread; the deadline arithmetic at every boundary.
 * library tier (lib_*): generated programs with sleepers, timed lockers and timed joiners next to sibling threads on
   1-4 workers under the schedule controller (harness/lib_interp.c, case option `clocklog 1`: every clock reading is a
   scheduling point and a trace event, so other workers run between a reading and the following attempt).  For every
   timed call of every trace the observed clock readings and attempt outcomes are fed to the extracted model
   (`nanosleep` / `timed`, order of actions from `nanosleep_ev` / `timed_ev`) and the model's return value, number of
   readings, number of yields and order of actions are compared with the library's; an independent oracle states the
   property on the trace; every trace is also replayed through the scheduler-level machine (coq/Machine)."""
import os, json, re
import vlib, trace
import machine_common as mc

NS = 1000000000
VF = ["Time/TimeModel.v", "Time/TimeProofs.v"]


def build(ctx):
    lib = vlib.build_lib()
    exe = vlib.cc(os.path.join(ctx.dir, "c20_unit"), [os.path.join(vlib.VERIF, "harness", "c20_unit.c")],
                  flags=vlib.lib_cflags() + ["-O0", "-g"], libs=[lib, "-lpthread", "-ldl", "-lrt"])
    drv = vlib.build_driver("C20", "Extract_C20.v", "driver_C20.ml", VF)
    return exe, drv


def ts_norm(t):
    return (t // NS, t % NS)


def clock_script(rng, start, deadline, n_before, overshoot):
    """readings: start, then n_before readings <= deadline (non-decreasing, some exactly at the
    deadline), then a reading at deadline+overshoot"""
    rd = [start]
    cur = start
    for i in range(n_before):
        if deadline > cur:
            cur = rng.choice([cur, deadline, rng.rng(cur, deadline), deadline - 1 if deadline - 1 >= cur else cur])
        rd.append(cur)
    rd.append(max(cur, deadline + overshoot))
    rd.append(max(cur, deadline + overshoot) + 5)
    return rd


def fmt_clock(rd):
    return "%d %s" % (len(rd), " ".join("%d %d" % ts_norm(t) for t in rd))


def gen_cases(ctx, n):
    r = ctx.rng
    cases = []
    nsb = [0, 1, 2, 499999999, 500000000, 500000001, 999999998, 999999999]
    secs = [0, 1, 2, 59, 1 << 31, 10 ** 12]
    # arithmetic, valid operands: all pairs of boundary nsec values (exhaustive over the boundary set)
    for an in nsb:
        for bn in nsb:
            a_s, b_s = r.choice(secs), r.choice(secs)
            cases.append("add %d %d %d %d" % (a_s, an, b_s, bn))
            cases.append("gt %d %d %d %d" % (a_s, an, b_s, bn))
            cases.append("gt %d %d %d %d" % (a_s, an, a_s, bn))
    # malformed stream for the arithmetic (negative / too large nsec, negative sec): the C
    # operators truncate toward zero, the model says the same
    for _ in range(n // 4):
        cases.append("%s %d %d %d %d" % (r.choice(["add", "gt"]), r.rng(-5, 5), r.rng(-2 * NS, 3 * NS),
                                        r.rng(-5, 5), r.rng(-2 * NS, 3 * NS)))
    # nanosleep: valid and malformed requests
    reqs = [(0, 0), (0, 1), (0, 999999999), (1, 0), (1, 999999999), (0, 500000000), (3, 1)]
    bad = [(-1, 0), (0, -1), (0, 1000000000), (0, 1000000001), (-1, -1), (5, 2000000000), (0, -999999999),
           (-(1 << 40), 5)]
    for i in range(n):
        if r.chance(1, 4):
            rs, rn = r.choice(bad)
        elif r.chance(1, 2):
            rs, rn = r.choice(reqs)
        else:
            rs, rn = r.rng(0, 3), r.choice(nsb)
        start = r.choice([0, 999999999, NS, 5 * NS + 999999999, 1700000000 * NS + r.rng(0, NS - 1)])
        dl = start + rs * NS + rn
        rd = clock_script(r, start, dl, r.rng(0, 6), r.choice([1, 1, 2, NS, 7]))
        cases.append("nsleep %d %d %s" % (rs, rn, fmt_clock(rd)))
    # the rem argument of myth_nanosleep: NULL / a separate object / the request object itself (nanosleep(&ts, &ts)),
    # same request and same clock script for the three.  The model takes the request by value and stores nothing
    # through rem, so the three results must be identical and no object may change (C20_sleep_rem_irrelevant).
    for i in range(max(12, n // 8)):
        if i < len(bad):
            rs, rn = bad[i]
        elif i < len(bad) + len(reqs):
            rs, rn = reqs[i - len(bad)]
        else:
            rs, rn = r.rng(0, 3), r.choice(nsb)
        start = r.choice([0, 999999999, NS, 5 * NS + 999999999, 1700000000 * NS + r.rng(0, NS - 1)])
        rd = fmt_clock(clock_script(r, start, start + rs * NS + rn, r.rng(0, 6), r.choice([1, 1, 2, NS, 7])))
        ps, pn = r.choice([(-7777, 123456789), (0, 0), (5, 999999999), (-1, -1)])
        for mode in (0, 1, 2):
            cases.append("nsleepr %d %d %d %d %d %s" % (mode, rs, rn, ps, pn, rd))
    for i in range(n // 2):
        us = r.choice([0, 1, 999, 1000, 999999, 1000000, 1000001, 1999999, 2000000, 4294967295, r.rng(0, 5000000)])
        start = r.choice([0, 999999999, 7 * NS + 999999000])
        dl = start + us * 1000
        cases.append("usleep %d %s" % (us, fmt_clock(clock_script(r, start, dl, r.rng(0, 5), r.choice([1, 2, 1000])))))
        s = r.choice([0, 1, 2, 3, 4294967295])
        dl = start + s * NS
        cases.append("sleep %d %s" % (s, fmt_clock(clock_script(r, start, dl, r.rng(0, 5), r.choice([1, 2, NS])))))
    # timed lock / join
    # far-away deadlines (hundreds of years and up to the end of the representable range): arithmetic on the
    # remaining time must not wrap; the resource becomes available after a few attempts, long before the deadline
    for sec in (10 ** 10, 2 ** 40, 2 ** 62, 2 ** 63 - 1):
        for op in ("tlock", "tjoin"):
            for F in (2, 4):
                rd = [1700000000 * NS + 10 * k for k in range(F + 3)]
                cases.append("%s %d %d %d %s" % (op, sec, 999999999 if sec == 2 ** 63 - 1 else 5, F, fmt_clock(rd)))
    for i in range(n):
        op = r.choice(["tlock", "tjoin"])
        d = r.choice([0, 999999999, 3 * NS, 5 * NS + 999999999, 1700000000 * NS + 17])
        F = r.choice([-1, 0, 2, 3, 4, 6])
        kind = r.below(4)
        if kind == 0:      # deadline already past at the first reading
            rd = [d + 1, d + 2]
        elif kind == 1:    # first reading exactly at the deadline
            rd = [d] * r.rng(1, 5) + [d + 1, d + 2]
        else:
            start = max(0, d - r.rng(0, 3 * NS))
            rd = clock_script(r, start, d, r.rng(0, 6), r.choice([1, 2, NS]))
        cases.append("%s %d %d %d %s" % (op, d // NS, d % NS, F, fmt_clock(rd)))
    # malformed absolute deadlines (nanosecond field just outside the valid range, both ends): the property fixes no
    # error code for them; what must hold is that the call still terminates, succeeds when an attempt finds the
    # resource available, returns nothing but 0 or the timeout code - and agrees with the model, whose loop is the
    # transliteration of the code's lexicographic comparison
    for i in range(max(8, n // 10)):
        op = r.choice(["tlock", "tjoin"])
        sec = r.choice([0, 3, 1700000000])
        nsec = r.choice([-1, NS, NS + 1, -NS, 2 * NS - 1, -999999999])
        F = r.choice([-1, 0, 2, 3])
        base = sec * NS
        rd = [max(0, base - 2 * NS + k * (NS // 2)) for k in range(r.rng(2, 6))] + [base + 3 * NS, base + 3 * NS + 5]
        cases.append("%s %d %d %d %s" % (op, sec, nsec, F, fmt_clock(rd)))
    return cases


def oracle(case, out):
    """independent statement of the property on one implementation result; returns None if the
    property holds on this case, else a message"""
    w = case.split()
    o = out.split()
    try:
        if w[0] == "add":
            a_s, an, bs, bn = map(int, w[1:5])
            if not (0 <= an < NS and 0 <= bn < NS):
                return None
            return None   # internal helper: judged through the API-level cases below
        if w[0] == "gt":
            a_s, an, bs, bn = map(int, w[1:5])
            if not (0 <= an < NS and 0 <= bn < NS):
                return None
            return None   # internal helper (strict vs non-strict at equality is not observable as "early")
        if o[0] != "ret":
            return "call did not complete: " + out
        ret, reads, yields = int(o[1]), int(o[3]), int(o[5])
        if w[0] in ("nsleep", "usleep", "sleep", "nsleepr"):
            if w[0] == "nsleep":
                rs, rn = int(w[1]), int(w[2]); k = 3
            elif w[0] == "nsleepr":            # whatever rem is, the call is judged against the request as passed
                rs, rn = int(w[2]), int(w[3]); k = 6
            elif w[0] == "usleep":
                rs, rn = int(w[1]) // 1000000, (int(w[1]) % 1000000) * 1000; k = 2
            else:
                rs, rn = int(w[1]), 0; k = 2
            K = int(w[k]); cl = [int(w[k + 1 + 2 * i]) * NS + int(w[k + 2 + 2 * i]) for i in range(K)]
            badreq = rs < 0 or rn < 0 or rn > 999999999
            if badreq:
                return None if ret == 22 else "malformed duration not rejected with EINVAL"
            if ret != 0:
                return "valid duration rejected (%d)" % ret
            last = cl[min(reads, K) - 1] if reads >= 1 else None
            if reads < 2 or last < cl[0] + rs * NS + rn:
                return "sleep returned early: last clock reading %s, deadline %d" % (last, cl[0] + rs * NS + rn)
            if yields != reads - 2:
                return "sleeper did not yield between polls (reads %d, yields %d)" % (reads, yields)
            return None
        if w[0] in ("tlock", "tjoin"):
            d = int(w[1]) * NS + int(w[2]); F = int(w[3]); K = int(w[4])
            cl = [int(w[5 + 2 * i]) * NS + int(w[6 + 2 * i]) for i in range(K)]
            to = 110 if w[0] == "tlock" else 16
            rdg = lambda j: cl[min(j, K - 1)]
            malformed = not (0 <= int(w[2]) < NS)
            if ret == to:
                if not malformed and (reads < 1 or rdg(reads - 1) < d):
                    return "timeout reported before the deadline had passed"
                if F >= 0 and F < reads and all(rdg(j) <= d for j in range(max(0, F - 1))) and F == 0:
                    return "timeout although the resource was available at the first attempt"
                # attempts made: 0 .. reads-1 ; resource free from attempt F on
                if F >= 0 and F <= reads - 1:
                    return "timeout although attempt %d (before the deadline was seen passed) found the resource available" % F
                return None
            if ret == 0:
                if F < 0:
                    return "success although the resource was never available"
                return None
            return "unexpected return value %d" % ret
    except (IndexError, ValueError) as e:
        return "unparsable output %r (%s)" % (out, e)
    return None


def run(ctx):
    broken, log = ctx.prove("Properties_C20.v", "Properties_C20")
    exe, drv = build(ctx)
    n = 400 if not ctx.thorough else 6000
    corpus = []
    cp = os.path.join(vlib.VERIF, "corpus", "C20", "cases.txt")
    if os.path.exists(cp):
        corpus = [l.strip() for l in open(cp) if l.strip() and not l.startswith("#")]
    cases = corpus + gen_cases(ctx, n)
    judge(ctx, cases, exe, drv, broken, log)
    clock_source(ctx, exe)
    lib_tier(ctx, drv)
    return ctx.finish(assumptions=ASSUMPTIONS)


def clock_source(ctx, exe):
    """the clock the deadline logic polls (hr_gettime, real path, no virtual clock) against the system real-time
    clock: a reading never lies before a clock_gettime(CLOCK_REALTIME) reading made just before it"""
    n = 20000 if not ctx.thorough else 200000
    rc, out = vlib.sh([exe], input="clocksrc %d\n" % n, env=dict(os.environ, MYTH_NUM_WORKERS="1"), timeout=120)
    m = re.search(r"clocksrc early=(\d+) late=(\d+) worst_ns=(\d+) subus=(\d+)", out)
    ctx.cov["correspondence"]["clock_source"] = {"samples": n, "result": m.group(0) if m else out[-200:]}
    ctx.cov["trusted_base"] += ["clock source: hr_gettime's real path is compared with clock_gettime(CLOCK_REALTIME) on %d samples per run "
                                "(never earlier than a reading made just before it); the kernel clock itself is trusted" % n]
    if not m:
        ctx.violation("clock-source", "clock source probe gave no result: " + out[-300:],
                      {"theorem_or_correspondence": "clock source probe (harness/c20_unit.c clocksrc)"}, found=False)
    elif int(m.group(1)) > 1:        # one isolated sample is tolerated: the system clock may be stepped during the probe
        ctx.violation("clock-source", "the library's clock (hr_gettime) read up to %s ns BEFORE the real-time clock in %s of %d samples (%s after): "
                      "a sleep / timed wait that polls it returns before the requested time has passed on the real clock"
                      % (m.group(3), m.group(1), n, m.group(2)),
                      {"case": "clocksrc %d" % n, "observed": m.group(0), "expected": "early=0 late=0", "level": "unit"}, found=True)


def judge(ctx, cases, exe, drv, broken, log):
    impl, rc1, raw1 = vlib.run_lines([exe], cases, env=dict(os.environ, MYTH_NUM_WORKERS="1"))
    model, rc2, raw2 = vlib.run_lines([drv], cases)
    diffs = vlib.diff_lines(cases, impl, model)
    kinds = {}
    for c in cases:
        kinds[c.split()[0]] = kinds.get(c.split()[0], 0) + 1
    outs = {}
    for l in impl:
        k = l.split()[0] if l.split() and l.split()[0] in ("add",) else " ".join(l.split()[:2])
        outs[k] = outs.get(k, 0) + 1
    # property oracle on every implementation result (independent of the model)
    failing = []
    for i, c in enumerate(cases):
        msg = oracle(c, impl[i] if i < len(impl) else "<no output>")
        if msg:
            failing.append((c, impl[i] if i < len(impl) else "<no output>", msg))
    trip = {}
    for i, c in enumerate(cases):
        if c.startswith("nsleepr ") and i < len(impl):
            trip.setdefault(" ".join(c.split()[2:]), []).append(" ".join(impl[i].split()[:6]))
    rem_same = sum(1 for v in trip.values() if len(v) >= 3 and len(set(v)) == 1)
    ctx.cov["correspondence"] = {"rem_triples": len(trip), "rem_triples_identical_result": rem_same,
                                 "cases": len(cases), "disagreements": len(diffs),
                                 "input_distribution": kinds, "impl_result_distribution": outs,
                                 "oracle_failures": len(failing), "impl_exit": rc1, "model_exit": rc2}
    ctx.cov["samples"] += [{"case": cases[i], "impl": impl[i] if i < len(impl) else None,
                            "model": model[i] if i < len(model) else None} for i in (0, len(cases) // 2, len(cases) - 1)]
    ctx.cov["trusted_base"] += ["extraction: ExtrOcamlBasic only (no Extract Constant/Inductive of ours); ocaml/driver_C20.ml, ocaml/zio.ml",
                                "harness/c20_unit.c (scripted virtual clock through the MYTH_VERIF hook in hr_gettime; yield counter through the yield.enter event)",
                                "modelled, not verified: clock_gettime itself; the one-worker schedule used to make attempt outcomes deterministic"]
    if failing:
        c, o, msg = failing[0]
        ctx.violation("oracle", msg, {"case": c, "observed": o, "expected": "see property C20",
                                      "level": "library", "all_failing": failing[:20]}, found=True)
    elif diffs:
        i, c, a, b = diffs[0]
        ctx.violation("correspondence", "model and implementation disagree on %d case(s); first: %s" % (len(diffs), c),
                      {"theorem_or_correspondence": "correspondence Time/TimeModel.v <-> src/myth_sched_func.h, src/myth_sync_func.h",
                       "case": c, "observed": a, "expected": b, "all": diffs[:20]}, found=False)
    if broken:
        ctx.violation("proof", "theorem(s) no longer check: " + ", ".join(broken),
                      {"theorem_or_correspondence": ", ".join(broken), "log": getattr(ctx, "proof_log", log[-3000:])}, found=False)


ASSUMPTIONS = ["valid timespec operands without 64-bit overflow (signed overflow is UB in C and not modelled)",
               "clock oracle: the k-th reading of the call is clk k, any valid values",
               "attempt oracle: the outcome of the i-th lock / join attempt is att i, any values (= any environment acting "
               "between a clock reading and the following attempt, C20_timed_any_environment)"]


# ==================================================================================================
# library tier: controlled runs of the real library (schedule controller, virtual clock with logged readings)
# ==================================================================================================

EINVAL, EBUSY, ETIMEDOUT = 22, 16, 110
LIB_IDS = ["clock.read", "yield.enter", "yield.put", "mutex.try.read", "mutex.try.cas", "tryjoin.check"]
LIB_OUTCOMES = ["sleep=0", "sleep=22", "lock=0", "lock=110", "join=0", "join=16"]


class _Prog:
    """a program under construction: threads, objects, expected final values of the variables"""

    def __init__(self, rng, step):
        self.r, self.step = rng, step
        self.threads = {0: []}
        self.expect = {"x0": 0, "v0": 0}
        self.objs = ["mc mutex", "x0 var 0", "v0 var 0"]
        self.nxt = 1

    def new(self):
        t = self.nxt
        self.nxt += 1
        self.threads[t] = []
        self.expect["v%d" % t] = 0
        self.objs.append("v%d var 0" % t)
        return t

    def work(self, T, n, lock=True):
        """n pieces of sibling work: private adds, yields, a mutex-protected shared counter"""
        r, ops = self.r, []
        for _ in range(n):
            k = r.below(7)
            if k <= 1:
                ops.append("add v%d 1" % T)
                self.expect["v%d" % T] += 1
            elif k == 2:
                ops.append("yield")
            elif k == 3:
                ops.append("yield %d" % r.below(5))
            elif k <= 5 and lock:
                d = r.rng(1, 9)
                ops += ["lock mc", "add x0 %d" % d, "unlock mc"]
                self.expect["x0"] += d
            else:
                ops.append("nop")
        return ops

    def sleep_op(self, malformed_ok=True):
        r, st = self.r, self.step
        # the rem argument: NULL (no flag), a separate object, the request object itself (nanosleep(&ts, &ts))
        rem = r.choice(["", "", " remsep", " remalias", " remalias"])
        if malformed_ok and r.chance(1, 5):
            return r.choice(["sleep -1", "sleep -%d" % NS, "sleep 0 %d" % NS, "sleep 0 -1", "sleep -1 5", "sleep 3 1999999999",
                             "sleep 0 %d" % (NS + 1), "sleep -2 999999999"]) + rem
        if st >= 100000000 and r.chance(1, 6):
            return "sleep 0 999999999" + rem        # largest valid nanosecond field (a few readings with a coarse clock)
        return "sleep %d" % r.choice([0, 1, st - 1, st, st + 1, 2 * st, 3 * st, 5 * st, 8 * st, 12 * st, 25 * st, 40 * st]) + rem

    def deadline(self):
        """<ns> [abs]: past, now, a few readings ahead, far ahead"""
        r, st = self.r, self.step
        k = r.below(11)
        if k == 0:
            return "0 abs"
        if k <= 3:
            return "%d abs" % (NS + r.rng(0, 14) * st)
        if k <= 7:
            return "%d" % r.choice([0, 1, st, 2 * st, 3 * st, 6 * st, 15 * st])
        if k <= 8:
            return "%d" % (50 * st)
        return "%d" % (10 ** 12)

    def finish_main(self, main, to_join):
        r = self.r
        r.shuffle(to_join)
        for t in to_join:
            main.append("join %d" % t)
        for v in sorted(self.expect):
            main.append("get %s" % v)
        self.threads[0] = main


def lib_gen_sleepers(rng, step):
    """(a) 1-3 sleepers next to 1-4 siblings; some siblings are created (parent first) by the sleeper itself, so that
    they sit in ITS worker's run queue while it sleeps"""
    P = _Prog(rng, step)
    main, top = [], []
    roles = ["S"] * rng.rng(1, 3) + ["W"] * rng.rng(1, 4)
    rng.shuffle(roles)
    for role in roles:
        t = P.new()
        top.append(t)
        main.append("create %d%s" % (t, " pf" if rng.chance(1, 2) else ""))
        if role == "W":
            P.threads[t] = P.work(t, rng.rng(2, 6))
        else:
            ops, kids = P.work(t, rng.below(2)), []
            for _ in range(rng.below(3)):
                c = P.new()
                kids.append(c)
                ops.append("create %d%s" % (c, " pf" if rng.chance(2, 3) else ""))
                P.threads[c] = P.work(c, rng.rng(1, 4))
            for _ in range(rng.rng(1, 2)):
                ops.append(P.sleep_op())
                ops += P.work(t, rng.below(2))
            rng.shuffle(kids)
            ops += ["join %d" % c for c in kids]
            P.threads[t] = ops
        if rng.chance(1, 4):
            main += P.work(0, 1)
    if rng.chance(1, 3):
        main.append(P.sleep_op())
    main += P.work(0, rng.below(3))
    P.finish_main(main, top)
    return P


def lib_gen_lockers(rng, step):
    """(b) holders (lock; k steps; unlock) and timed lockers with deadlines in the past, now, a few readings ahead,
    far ahead; several timed lockers per mutex; blocking lockers queue up (word 2, 4 = free with lockers queued)"""
    P = _Prog(rng, step)
    nm = rng.rng(1, 2)
    P.objs += ["m%d mutex" % j for j in range(nm)]
    main, top = [], []

    def holder(t):
        ops = []
        for _ in range(rng.rng(1, 3)):
            j = rng.below(nm)
            ops.append("lock m%d" % j)
            for _ in range(rng.below(5)):
                k = rng.below(8)
                if k <= 2:
                    ops.append("add v%d 1" % t)
                    P.expect["v%d" % t] += 1
                elif k <= 4:
                    ops.append("yield" if k == 3 else "yield %d" % rng.below(5))
                elif k == 5:
                    ops.append("sleep %d" % (rng.rng(1, 3) * step))
                else:
                    ops.append("nop")
            ops.append("unlock m%d" % j)
            if rng.chance(1, 3):
                ops.append("yield")
        return ops

    def locker(t):
        ops = [rng.choice(["yield", "nop", "yield 1"]) for _ in range(rng.below(3))]
        for _ in range(rng.rng(1, 2)):
            j = rng.below(nm)
            ops.append("timedlock m%d %s" % (j, P.deadline()))
            if rng.chance(1, 2):
                k = rng.below(3)
                if k == 0:
                    ops.append("add v%d 1" % t)
                    P.expect["v%d" % t] += 1
                else:
                    ops.append("yield")
            ops.append("unlockif m%d" % j)
            if rng.chance(1, 3):
                ops += P.work(t, 1)
        return ops

    roles = ["H"] * rng.rng(1, 3) + ["L"] * rng.rng(1, 3)
    rng.shuffle(roles)
    for role in roles:
        t = P.new()
        top.append(t)
        main.append("create %d%s" % (t, " pf" if rng.chance(1, 2) else ""))
        P.threads[t] = holder(t) if role == "H" else locker(t)
    if rng.chance(1, 2):
        main += holder(0) if rng.chance(1, 2) else locker(0)
    P.finish_main(main, top)
    return P


def lib_gen_joiners(rng, step):
    """(c) targets that finish after k steps (or at once, or long before the join) and timed joiners with the same
    range of deadlines; `timedjoinj` = one timedjoin, then a blocking join if it timed out; `timedjoinw` = repeat"""
    P = _Prog(rng, step)
    main, top = [], []

    def join_op(t):
        if rng.chance(1, 4):
            return "timedjoinw %d %d" % (t, rng.choice([2, 4, 9]) * step)
        return "timedjoinj %d %s" % (t, P.deadline())

    def delay(T):
        k = rng.below(5)
        if k == 0:
            return []
        if k == 1:
            return [P.sleep_op(False)]
        return [rng.choice(["yield", "yield 1", "nop", "yield 2"]) for _ in range(rng.rng(1, 4))]

    mine = []
    for _ in range(rng.rng(1, 3)):
        t = P.new()
        main.append("create %d%s" % (t, " pf" if rng.chance(1, 2) else ""))
        P.threads[t] = P.work(t, rng.choice([0, 0, 1, 2, 4, 7]))
        if rng.chance(1, 2):
            mine.append(t)                       # main is the timed joiner of t
        else:
            j = P.new()                           # a sibling created afterwards is
            top.append(j)
            main.append("create %d%s" % (j, " pf" if rng.chance(1, 2) else ""))
            P.threads[j] = delay(j) + [join_op(t)] + P.work(j, rng.below(2))
    for _ in range(rng.below(3)):                 # bystanders
        t = P.new()
        top.append(t)
        main.append("create %d%s" % (t, " pf" if rng.chance(1, 2) else ""))
        P.threads[t] = P.work(t, rng.rng(1, 4))
    rng.shuffle(mine)
    for t in mine:
        main += delay(0) + [join_op(t)]
    P.finish_main(main, top)
    return P


def lib_gen_case(rng, family=None, pswitch=None, workers=None):
    family = family or rng.choice(["sleep", "lock", "join"])
    step = rng.choice([1000, 1000, 1000, 1000, 1000, 7, 250000000, 333333333])
    P = {"sleep": lib_gen_sleepers, "lock": lib_gen_lockers, "join": lib_gen_joiners}[family](rng, step)
    workers = workers or rng.rng(1, 4)
    pswitch = pswitch or rng.choice([20, 35, 60, 85])
    text = trace.case_text(workers, rng.rng(1, 1 << 30), P.objs, P.threads, pswitch=pswitch, maxsteps=120000,
                           extra={"msnap": "1", "clockstep": str(step), "clocklog": "1"})
    return {"text": text, "family": family, "workers": workers, "pswitch": pswitch, "step": step, "expect": P.expect}


# --------------------------------------------------------------------------------------------------
# reading the timed calls off a trace
# --------------------------------------------------------------------------------------------------

_MS = re.compile(r"M cur=\[(.*?)\] dq=\[(.*)\]$")
_ST = re.compile(r"state=(-?\d+)")
_TS = re.compile(r"\bst=(-?\d+)")


def _dq(mline, w):
    m = _MS.match(mline or "")
    if not m:
        return None
    dqs = re.findall(r"\[([^\[\]]*)\]", m.group(2))
    return dqs[w].split() if w < len(dqs) else None


def _tdiv(a, b):
    """C division / remainder (truncation toward zero)"""
    q = abs(a) // b
    q = q if a >= 0 else -q
    return q, a - q * b


def lib_calls(case, r):
    """the timed calls of one run, with everything each of them did, in trace order.  Returns (calls, facts):
    call = {kind: sleep|lock|join, T, obj, args, deadline, req, reads [(line, ns)], attempts [(line, ok, detail)],
            yields [(line, worker, run queue at that line, who ran next on the worker)], seq 'RAY..', ret, extra, anomalies,
            pre [(line of reading, line of attempt, preempted?, outcome changed in between?)]}"""
    L = mc._lines(r["trace_text"])
    nxt, last = {}, {}
    for i in range(len(L) - 1, -1, -1):
        nxt[i] = last.get(L[i][1])
        last[L[i][1]] = i
    stack, calls = {}, []
    lockbit = {}                       # mutex -> lock bit after the latest access
    fin = {}                           # thread -> line of its finish.cb.ready2 (status >= FREE_READY from there on)
    ids = {}
    gets, rets = {}, []
    for i, (k, w, actor, words, snap, ms, raw) in enumerate(L):
        T = int(actor[1:]) if actor[:1] in "tc" and actor[1:].isdigit() else None
        inm = actor[:1] == "t"
        if k in "PE":
            ids[words[0]] = ids.get(words[0], 0) + 1
        if k == "C" and T is not None:
            fr = {"op": words[0], "args": words, "T": T, "i0": i, "kind": None}
            if words[0] == "sleep":
                fr["kind"] = "sleep"
                nums = [x for x in words[1:] if x not in ("remsep", "remalias")]
                fr["rem"] = 1 if "remsep" in words else 2 if "remalias" in words else 0
                if len(nums) > 1:
                    fr["req"] = (int(nums[0]), int(nums[1]))
                else:
                    fr["req"] = _tdiv(int(nums[0]), NS)
            elif words[0] == "timedlock":
                fr["kind"], fr["obj"] = "lock", words[1]
            elif words[0] == "timedjoin":
                fr["kind"], fr["obj"] = "join", int(words[1])
                fr["fin_before"] = fin.get(int(words[1])) is not None
            if fr["kind"]:
                fr.update({"deadline": None, "reads": [], "tries": [], "yields": [], "seq": [], "ret": None, "anomalies": [],
                           "w0": w})
            stack.setdefault(T, []).append(fr)
            continue
        top = stack[T][-1] if T is not None and stack.get(T) else None
        tc = top if top and top["kind"] else None
        if k == "R" and T is not None:
            if stack.get(T):
                fr = stack[T].pop()
                ret = int(words[1]) if len(words) > 1 and re.fullmatch(r"-?\d+", words[1]) else None
                ex = dict(x.split("=", 1) for x in words[2:] if "=" in x)
                if fr["kind"]:
                    fr["ret"], fr["extra"], fr["i1"] = ret, ex, i
                    calls.append(fr)
                elif fr["op"] == "get" and T == 0:
                    gets[fr["args"][1]] = ret
                elif fr["op"] in ("lock", "unlock", "join", "create"):
                    rets.append((fr["op"], fr["args"], ret, ex, raw))
            continue
        if k == "E":
            eid = words[0]
            if eid == "clock.deadline" and tc is not None:
                tc["deadline"] = int(words[2])
            elif eid == "clock.read":
                if tc is not None and inm:
                    tc["reads"].append((i, int(words[2])))
                    tc.setdefault("read_dq", {})[i] = _dq(ms, w)
                    tc["seq"].append((i, "R"))
                else:
                    calls.append({"kind": "stray", "T": T, "i0": i, "anomalies": ["clock reading outside a timed call: " + raw]})
            elif eid == "yield.enter" and tc is not None and inm:
                # who runs next on this worker: skip the scheduler ('-') and the yielder's own callback
                j, nx = nxt.get(i), None
                while j is not None:
                    a = L[j][2]
                    if a not in ("-", "t-", "c%d" % T):
                        nx = a
                        break
                    j = nxt.get(j)
                tc["yields"].append((i, w, _dq(ms, w), nx))
                tc["seq"].append((i, "Y"))
            continue
        if k == "P":
            pid, obj = words[0], words[1]
            stm = _ST.search(snap or "")
            if pid.startswith("mutex.") and stm:
                s = int(stm.group(1))
                val = words[2]
                okcas = re.fullmatch(r"-?\d+", val) is not None and int(val) == s
                b = s & 1
                if pid in ("mutex.try.cas", "mutex.lock.cas1") and okcas:
                    b = 1
                elif (pid == "mutex.unlock.cas1" and okcas) or pid == "mutex.clearbit":
                    b = 0
                lockbit[obj] = b
                if tc is not None and tc["kind"] == "lock" and inm and obj == tc["obj"] and pid in ("mutex.try.read", "mutex.try.cas"):
                    tc["tries"].append((i, pid, s, okcas))
            elif pid == "finish.cb.ready2" and obj[:1] == "t" and obj[1:].isdigit():
                fin[int(obj[1:])] = i
            elif pid == "tryjoin.check" and tc is not None and tc["kind"] == "join" and inm and obj == "t%d" % tc["obj"]:
                m = _TS.search(snap or "")
                tc["tries"].append((i, pid, int(m.group(1)) if m else -1, None))
    # ---- attempts, order of actions, preemption between reading and attempt
    for c in calls:
        if c["kind"] not in ("lock", "join"):
            continue
        att = []
        if c["kind"] == "join":
            att = [(i, st >= 2, "st=%d" % st) for (i, _, st, _) in c["tries"]]
        else:
            start = None
            for (i, pid, s, okcas) in c["tries"]:
                if pid == "mutex.try.read":
                    if start is None:
                        start = i
                    if s & 1:
                        att.append((start, False, "word %d" % s))
                        start = None
                else:
                    if start is None:
                        c["anomalies"].append("mutex.try.cas without a preceding read")
                        start = i
                    if okcas:
                        att.append((start, True, "word %d" % s))
                        start = None
            if start is not None:
                c["anomalies"].append("attempt still open at the end of the call")
        c["attempts"] = att
        c["seq"] += [(i, "A") for (i, _, _) in att]
        pre = []
        obj = c["obj"]
        for (ia, ok, _) in att:
            rd = [ir for (ir, _) in c["reads"] if ir < ia]
            if not rd:
                continue
            ir = rd[-1]
            if any(ir < iy < ia for (iy, _, _, _) in c["yields"]):
                continue
            w = L[ia][1]
            preempted = any(L[j][1] != w for j in range(ir + 1, ia))
            if c["kind"] == "lock":
                changed = ir < bitchange_at(L, obj, ir, ia)
            else:
                changed = fin.get(obj) is not None and ir < fin[obj] < ia
            pre.append((ir, ia, preempted, changed))
        c["pre"] = pre
    for c in calls:
        if "seq" in c:
            c["seq"] = "".join(x for _, x in sorted(c["seq"]))
    return calls, {"ids": ids, "gets": gets, "rets": rets, "lines": len(L), "fin": fin, "L": L}


def bitchange_at(L, obj, lo, hi):
    """line (lo < line < hi) at which the lock bit of mutex obj changed, else -1"""
    for j in range(lo + 1, hi):
        k, w, actor, words, snap, ms, raw = L[j]
        if k != "P" or len(words) < 3 or words[1] != obj or not words[0].startswith("mutex."):
            continue
        stm = _ST.search(snap or "")
        if not stm:
            continue
        s = int(stm.group(1))
        okcas = re.fullmatch(r"-?\d+", words[2]) is not None and int(words[2]) == s
        if (words[0] in ("mutex.try.cas", "mutex.lock.cas1", "mutex.unlock.cas1") and okcas) or words[0] == "mutex.clearbit":
            return j
    return -1


# --------------------------------------------------------------------------------------------------
# independent oracle of the property on one run (plain statement on the trace; the model is not involved)
# --------------------------------------------------------------------------------------------------

def lib_oracle(case, r, calls, facts):
    """list of messages; empty = the property holds on this run"""
    bad = []
    v = r["verdict"] or ""
    L = facts["L"]
    for c in calls:
        T = c["T"]
        for a in c.get("anomalies", []):
            if c["kind"] == "stray":
                bad.append(a)
        if c["kind"] == "stray":
            continue
        name = "t%d %s" % (T, " ".join(c["args"]))
        ret, reads = c["ret"], [ns for _, ns in c["reads"]]
        # ---- other runnable threads use the worker: a yield with a non-empty own run queue hands the worker over
        for (iy, w, dq, nx) in c["yields"]:
            if dq and nx == "t%d" % T:
                bad.append("%s: yielded on worker %d whose run queue held [%s] but kept the worker (line %d)" % (
                    name, w, " ".join(dq), iy + 1))
        if c["kind"] == "sleep":
            sec, nsec = c["req"]
            malformed = sec < 0 or nsec < 0 or nsec > 999999999
            if malformed:
                if ret != EINVAL:
                    bad.append("%s: malformed duration (%d s, %d ns) not rejected with EINVAL (returned %s)" % (name, sec, nsec, ret))
                elif reads or c["yields"]:
                    bad.append("%s: malformed duration rejected only after %d clock reading(s)" % (name, len(reads)))
                continue
            if ret != 0:
                bad.append("%s: valid duration, returned %s" % (name, ret))
                continue
            req = sec * NS + nsec
            if len(reads) < 2 or not reads[-1] > reads[0] + req:
                bad.append("%s: returned 0 early: first reading %s, last reading %s, requested %d ns (the last reading must be "
                           "strictly later than first + request)" % (name, reads[:1], reads[-1:], req))
            # polls k and k+1 (k >= 1) are separated by a yield: no busy polling
            seq = c["seq"]
            pos = [j for j, x in enumerate(seq) if x == "R"]
            waiting = sorted(set(t for q in c.get("read_dq", {}).values() for t in (q or [])))
            for a, b in zip(pos[1:], pos[2:]):
                if "Y" not in seq[a:b]:
                    bad.append("%s: two consecutive clock polls without a yield in between (actions %s): the sleeper keeps the "
                               "worker to itself%s" % (name, seq, " while [%s] waited in its run queue" % " ".join(waiting) if waiting else ""))
                    break
            continue
        # ---- timed lock / timed join
        to = ETIMEDOUT if c["kind"] == "lock" else EBUSY
        what = "the mutex free" if c["kind"] == "lock" else "the target finished"
        att = c["attempts"]
        D = c["deadline"]
        if ret not in (0, to):
            bad.append("%s: returned %s (neither 0 nor %d)" % (name, ret, to))
            continue
        okat = [j for j, (_, ok, _) in enumerate(att) if ok]
        if ret == to:
            if okat:
                bad.append("%s: returned the timeout code %d although attempt %d found %s (%s)%s" % (
                    name, to, okat[0], what, att[okat[0]][2], " - and the mutex stays locked" if c["kind"] == "lock" else ""))
            if D is not None and (not reads or reads[-1] < D):
                bad.append("%s: timeout reported before the deadline: last clock reading %s, deadline %d" % (name, reads[-1:], D))
            if not att:
                avail = (c["kind"] == "join" and c.get("fin_before")) or \
                        (c["kind"] == "lock" and _free_throughout(L, c["obj"], c["i0"], c["i1"]))
                if avail:
                    bad.append("%s: timeout reported without a single attempt although %s before the call began" % (name, what))
        else:
            if not okat:
                bad.append("%s: returned 0 although no attempt found %s" % (name, what))
            elif okat[0] != len(att) - 1:
                bad.append("%s: attempt %d found %s but the call went on (%d attempts)" % (name, okat[0], what, len(att)))
            if c["kind"] == "lock" and c["extra"].get("occ") != "1":
                bad.append("%s: acquired the mutex with occupancy %s" % (name, c["extra"].get("occ")))
            if c["kind"] == "join" and c["extra"].get("val") != str(1000 + c["obj"]):
                bad.append("%s: joined value %s, the target returned %d" % (name, c["extra"].get("val"), 1000 + c["obj"]))
        # every polling iteration (the actions between two yields) that reads the clock before the deadline also makes an
        # attempt - judged only where the chance is known independently: the lock bit was clear when the poller yielded
        if c["kind"] == "lock" and D is not None:
            seq = sorted([(i, "R", ns) for i, ns in c["reads"]] + [(i, "A", None) for i, _, _ in att] +
                         [(i, "Y", None) for i, _, _, _ in c["yields"]])
            tried, rd = False, None
            for (i, x, ns) in seq:
                if x == "A":
                    tried = True
                elif x == "R" and ns <= D:
                    rd = ns
                elif x == "Y":
                    if rd is not None and not tried and _bit_at(L, c["obj"], i) == 0:
                        bad.append("%s: the polling iteration with reading %d (deadline %d) made no attempt, and the mutex was free "
                                   "when the poller yielded" % (name, rd, D))
                        break
                    tried, rd = False, None
    if r["rc"] != 0 or not v.startswith("DONE"):
        what = "step limit reached: the run does not end (a thread is starved or polls forever)" if v.startswith("LIMIT") else \
               "the run ends in a deadlock (threads blocked for ever)" if v.startswith("DEADLOCK") else "run did not complete"
        bad.append("%s (%s, rc=%s) %s" % (what, v[:120] or "no verdict", r["rc"], (r.get("out") or "")[-160:].strip()))
    for var, exp in case["expect"].items():
        if v.startswith("DONE") and facts["gets"].get(var) != exp:
            bad.append("sibling work lost: final %s = %s, the program adds %d" % (var, facts["gets"].get(var), exp))
    for op, args, ret, ex, raw in facts["rets"]:
        if ret != 0:
            bad.append("%s returned %s (%s)" % (" ".join(args), ret, raw[:60]))
        if op == "lock" and ex.get("occ") not in (None, "1"):
            bad.append("mutual exclusion broken: %s" % raw[:80])
        if op == "join" and ex.get("val") != str(1000 + int(args[1])):
            bad.append("join %s: value %s" % (args[1], ex.get("val")))
    return bad


def _bit_at(L, obj, line):
    """lock bit of mutex obj after the latest access before `line` (0 if it was never touched)"""
    for j in range(line - 1, -1, -1):
        k, w, actor, words, snap, ms, raw = L[j]
        if k == "P" and len(words) >= 3 and words[1] == obj and words[0].startswith("mutex."):
            stm = _ST.search(snap or "")
            if not stm:
                continue
            s = int(stm.group(1))
            okcas = re.fullmatch(r"-?\d+", words[2]) is not None and int(words[2]) == s
            if words[0] in ("mutex.try.cas", "mutex.lock.cas1") and okcas:
                return 1
            if (words[0] == "mutex.unlock.cas1" and okcas) or words[0] == "mutex.clearbit":
                return 0
            return s & 1
    return 0


def _free_throughout(L, obj, lo, hi):
    """the lock bit of mutex obj is clear at every line lo..hi"""
    return _bit_at(L, obj, lo + 1) == 0 and bitchange_at(L, obj, lo, hi) < 0


# --------------------------------------------------------------------------------------------------
# correspondence: the extracted model on the observed readings and attempt outcomes
# --------------------------------------------------------------------------------------------------

def lib_model_lines(calls):
    """(driver input line, implementation line) per completed timed call"""
    out = []
    for c in calls:
        if c["kind"] not in ("sleep", "lock", "join") or c["ret"] is None:
            continue
        clk = "%d %s" % (len(c["reads"]), " ".join("%d %d" % (ns // NS, ns % NS) for _, ns in c["reads"]))
        tail = ""
        if c["kind"] == "sleep" and c.get("rem"):
            # rem = separate object (preset by the interpreter to -4242, 4242) or the request object: contents after the call
            inp = "libsleepr %d %d %d -4242 4242 %s" % (c["rem"], c["req"][0], c["req"][1], clk)
            tail = " rem %s req %s" % (c["extra"].get("rem", "?").replace(",", " "), c["extra"].get("req", "?").replace(",", " "))
        elif c["kind"] == "sleep":
            inp = "libsleep %d %d %s" % (c["req"][0], c["req"][1], clk)
        else:
            if c["deadline"] is None or c["deadline"] < 0:
                continue
            att = c["attempts"]
            inp = "libtimed %s %d %d %d %s %s" % (c["kind"], c["deadline"] // NS, c["deadline"] % NS, len(att),
                                                  " ".join("1" if ok else "0" for _, ok, _ in att), clk)
        impl = "ret %d reads %d yields %d ev %s%s" % (c["ret"], len(c["reads"]), len(c["yields"]), c["seq"] or "-", tail)
        out.append((" ".join(inp.split()), impl, c))
    return out


def lib_run(ctx, exe, mdrv, drv, cases, wd, tag):
    """run the cases; returns per-run results with calls, oracle messages, model disagreements, machine verdict"""
    res, blocks, lines = [], [], []
    for i, c in enumerate(cases):
        try:
            r = trace.run_case(exe, c["text"], wd, "%s%04d" % (tag, i), timeout=60)
        except (IndexError, ValueError) as ex:
            r = {"rc": -1, "out": "trace unusable: %r" % (ex,), "events": [], "verdict": None, "trace_text": "",
                 "trace_path": os.path.join(wd, "%s%04d.trace" % (tag, i))}
        try:
            calls, facts = lib_calls(c, r)
            msgs = lib_oracle(c, r, calls, facts)
        except Exception as ex:                                    # noqa: a cut trace of a crashed library
            calls, facts = [], {"ids": {}, "gets": {}, "rets": [], "lines": 0, "fin": {}, "L": []}
            msgs = ["trace of the run cannot be analysed (%s: %s); verdict %s rc %s" % (type(ex).__name__, str(ex)[:80],
                                                                                        r["verdict"], r["rc"])]
        ml = lib_model_lines(calls)
        try:
            b = mc.machine_block(c["text"], r["trace_text"])
        except Exception as ex:                                    # noqa
            b = (["begin 1 1", "snap ?", "end"], [None, None, None], [])
        blocks.append(b)
        res.append({"case": c, "r": r, "calls": calls, "facts": facts, "oracle": msgs, "mlines": ml, "lo": len(lines)})
        lines += [x[0] for x in ml]
    model, rc, raw = vlib.run_lines([drv], lines) if lines else ([], 0, "")
    for x in res:
        x["dis"] = []
        for j, (inp, impl, c) in enumerate(x["mlines"]):
            m = model[x["lo"] + j] if x["lo"] + j < len(model) else "<no output>"
            if m != impl:
                x["dis"].append({"call": "t%d %s" % (c["T"], " ".join(c["args"])), "input": inp, "library": impl,
                                 "model": m if len(m) < 120 else m[:117] + "..."})
    mres = mc.validate(mdrv, blocks) if blocks else []
    for x, b, m in zip(res, blocks, mres):
        x["machine"] = m
        x["putbase"] = sum(1 for l in b[0] if l.endswith("PutBase"))
        if not m.startswith("ok"):
            k = int(m.split()[1]) if len(m.split()) > 1 and m.split()[1].isdigit() else 0
            x["machine_tail"] = b[0][max(0, k - 8):k + 1]
    return res


def lib_tier(ctx, drv):
    exe0 = trace.build_interp()
    exe = os.path.join(ctx.dir, "lib_interp")           # private copy: the shared cache is pruned by concurrent checks
    import shutil
    shutil.copyfile(exe0, exe + ".tmp")
    os.chmod(exe + ".tmp", 0o755)
    os.replace(exe + ".tmp", exe)
    mdrv = mc.build_driver()
    wd = os.path.join(ctx.dir, "lib_runs")
    n = 150 if not ctx.thorough else 1500
    cases = []
    corp = os.path.join(vlib.VERIF, "corpus", "C20", "lib")
    if os.path.isdir(corp):
        for f in sorted(os.listdir(corp)):
            if f.endswith(".json"):
                cases.append(json.load(open(os.path.join(corp, f))))
    ncorp = len(cases)
    fams = ["sleep", "lock", "join"]
    cases += [lib_gen_case(ctx.rng, fams[i % 3]) for i in range(n)]
    res = lib_run(ctx, exe, mdrv, drv, cases, wd, "l")
    st = lib_stats(res)
    st["corpus_cases"] = ncorp
    fails = [x for x in res if x["oracle"]]
    dis = [x for x in res if x["dis"]]
    mfail = [x for x in res if not x["machine"].startswith("ok")]
    missing = [i for i in LIB_IDS if not st["ids"].get(i)] + [o for o in LIB_OUTCOMES if not st["outcomes"].get(o)]
    if not st["attempts_preempted_after_reading"]:
        missing.append("a preemption between a clock reading and the following attempt")
    if not st["yields_with_nonempty_run_queue"]:
        missing.append("a yield of a sleeping / polling thread with a non-empty run queue")
    st["not_reached"] = missing
    ctx.cov["correspondence"]["library"] = st
    ctx.cov["evaluations"] = ctx.cov.get("evaluations", 0) + st["trace_lines"]
    for i in (0, 1, 2):
        if i < len(res):
            x = res[ncorp + i] if ncorp + i < len(res) else res[i]
            ctx.cov["samples"].append({"library_case": x["case"]["text"], "verdict": x["r"]["verdict"],
                                       "timed_calls": [{"call": " ".join(c["args"]), "ret": c["ret"], "readings": [ns for _, ns in c["reads"]],
                                                        "deadline": c.get("deadline"), "actions": c["seq"]}
                                                       for c in x["calls"] if c["kind"] != "stray"][:6],
                                       "model_disagreements": x["dis"], "machine": x["machine"]})
    ctx.cov["trusted_base"] += [
        "library tier: harness/lib_interp.c (schedule controller; virtual clock 1 s + readings * clockstep; `clocklog 1`: a reading is a "
        "scheduling point and a clock.read line; clock.deadline line), tools/trace.py, tools/machine_common.py + ocaml/driver_Machine.ml",
        "library tier, modelled not verified: what the other threads do between two actions of a timed call is arbitrary in the model "
        "(clk, att are arbitrary functions); sequential consistency of the mutex word and the descriptor status"]

    def body(x, extra=None):
        b = {"case": x["case"], "level": "library", "observed": {"verdict": x["r"]["verdict"], "oracle": x["oracle"][:6],
                                                                "model_disagreements": x["dis"][:4], "machine": x["machine"],
                                                                "trace": x["r"].get("trace_path")},
             "expected": "property C20 on every timed call of the run (lib_oracle in tools/props/c20.py)"}
        b.update(extra or {})
        return b

    if fails:
        # the most direct witnesses first
        def rank(x):
            m = x["oracle"][0]
            return 0 if ("timeout" in m or "early" in m or "EINVAL" in m) else 1 if "yield" in m else 2
        fails.sort(key=rank)
        x = fails[0]
        ctx.violation("oracle-library", x["oracle"][0], body(x, {"failing_runs": len(fails),
                                                                "others": [y["oracle"][0] for y in fails[1:8]]}), found=True)
    elif dis or mfail or missing:
        # something broke without a failing input so far: search (more seeds, heavier preemption, every family)
        extra = []
        for x in (dis + mfail)[:6]:
            for _ in range(8):
                t = re.sub(r"^seed \d+", "seed %d" % ctx.rng.rng(1, 1 << 30), x["case"]["text"], flags=re.M)
                t = re.sub(r"^pswitch \d+", "pswitch %d" % ctx.rng.choice([35, 60, 85]), t, flags=re.M)
                t = re.sub(r"^workers \d+", "workers %d" % ctx.rng.rng(1, 4), t, flags=re.M)
                extra.append(dict(x["case"], text=t))
        extra += [lib_gen_case(ctx.rng, fams[i % 3], pswitch=ctx.rng.choice([60, 85])) for i in range(150)]
        res2 = lib_run(ctx, exe, mdrv, drv, extra, wd, "s")
        st["search_runs"] = len(extra)
        f2 = [x for x in res2 if x["oracle"]]
        if f2:
            x = f2[0]
            ctx.violation("oracle-library", x["oracle"][0], body(x, {"found_by": "search after a broken obligation",
                                                                    "failing_runs": len(f2)}), found=True)
        else:
            if dis:
                x = dis[0]
                d = x["dis"][0]
                ctx.violation("correspondence-library",
                              "model and library disagree on %d timed call(s) in %d of %d controlled runs; first: %s: library `%s`, "
                              "model `%s`" % (sum(len(y["dis"]) for y in dis), len(dis), len(res), d["call"], d["library"], d["model"]),
                              body(x, {"theorem_or_correspondence": "correspondence Time/TimeModel.v (nanosleep / timed / *_ev) <-> "
                                       "myth_nanosleep_body, myth_mutex_timedlock_body, myth_timedjoin_body on the real library under "
                                       "the schedule controller", "search": "no oracle failure in %d further runs" % len(extra)}),
                              found=False)
            if mfail:
                x = mfail[0]
                ctx.violation("machine-correspondence-library", "scheduler-level machine and library disagree on a run with timed calls: "
                              + x["machine"][:200],
                              body(x, {"theorem_or_correspondence": "correspondence coq/Machine/MachineModel.v <-> scheduler, on the C20 programs",
                                       "model_input_tail": x.get("machine_tail")}), found=False)
            if missing:
                ctx.violation("coverage-library", "not reached by the controlled runs: " + "; ".join(missing),
                              {"theorem_or_correspondence": "coverage of the sleep / timed lock / timed join routines by the library tier",
                               "histogram": st["ids"], "outcomes": st["outcomes"]}, found=False)
    return st


def lib_stats(res):
    st = {"runs": len(res), "verdicts": {}, "by_family": {}, "by_workers": {}, "by_pswitch": {}, "by_clockstep": {},
          "timed_calls": 0, "outcomes": {}, "sleep_rem_argument": {}, "ids": {}, "clock_readings": 0, "attempts": 0,
          "attempts_after_a_reading": 0, "attempts_preempted_after_reading": 0,
          "attempts_whose_outcome_changed_after_the_reading": 0,
          "yields": 0, "yields_with_nonempty_run_queue": 0, "yields_handing_the_worker_over": 0,
          "deadline_already_past_at_first_reading": 0, "reading_exactly_at_deadline": 0, "success_at_first_attempt": 0,
          "success_after_polling": 0, "timeouts_after_polling": 0, "sleep_polls_max": 0,
          "model_calls_compared": 0, "disagreements": 0, "oracle_failures": 0,
          "machine_moves_replayed": 0, "machine_snapshots_compared": 0, "machine_disagreements": 0,
          "yields_replayed_as_machine_moves": 0, "trace_lines": 0}

    def inc(d, k, n=1):
        d[str(k)] = d.get(str(k), 0) + n
    for x in res:
        c = x["case"]
        inc(st["verdicts"], (x["r"]["verdict"] or "none").split()[0])
        inc(st["by_family"], c["family"])
        inc(st["by_workers"], c["workers"])
        inc(st["by_pswitch"], c["pswitch"])
        inc(st["by_clockstep"], c["step"])
        st["trace_lines"] += x["facts"]["lines"]
        for k, v in x["facts"]["ids"].items():
            if k in LIB_IDS:
                inc(st["ids"], k, v)
        for cl in x["calls"]:
            if cl["kind"] == "stray":
                continue
            st["timed_calls"] += 1
            inc(st["outcomes"], "%s=%s" % (cl["kind"], cl["ret"]))
            st["clock_readings"] += len(cl["reads"])
            st["yields"] += len(cl["yields"])
            st["yields_with_nonempty_run_queue"] += sum(1 for (_, _, dq, _) in cl["yields"] if dq)
            st["yields_handing_the_worker_over"] += sum(1 for (_, _, dq, nx) in cl["yields"] if nx and nx != "t%d" % cl["T"])
            if cl["kind"] == "sleep":
                st["sleep_polls_max"] = max(st["sleep_polls_max"], len(cl["reads"]))
                inc(st["sleep_rem_argument"], ("NULL", "separate object", "the request object")[cl.get("rem", 0)])
                continue
            att, D = cl["attempts"], cl["deadline"]
            st["attempts"] += len(att)
            st["attempts_after_a_reading"] += len(cl["pre"])
            st["attempts_preempted_after_reading"] += sum(1 for p in cl["pre"] if p[2])
            st["attempts_whose_outcome_changed_after_the_reading"] += sum(1 for p in cl["pre"] if p[3])
            rd = [ns for _, ns in cl["reads"]]
            if D is not None and rd:
                st["deadline_already_past_at_first_reading"] += int(rd[0] > D)
                st["reading_exactly_at_deadline"] += sum(1 for ns in rd if ns == D)
            if cl["ret"] == 0:
                st["success_at_first_attempt" if not rd else "success_after_polling"] += 1
            elif len(rd) > 1:
                st["timeouts_after_polling"] += 1
        st["model_calls_compared"] += len(x["mlines"])
        st["disagreements"] += len(x["dis"])
        st["oracle_failures"] += 1 if x["oracle"] else 0
        m = x["machine"].split()
        if m and m[0] == "ok":
            st["machine_moves_replayed"] += int(m[1])
            st["machine_snapshots_compared"] += int(m[2])
            st["yields_replayed_as_machine_moves"] += x["putbase"]
        else:
            st["machine_disagreements"] += 1
    return st


def replay(ctx, path):
    body = json.load(open(path))
    exe, drv = build(ctx)
    c = body.get("case")
    if isinstance(c, dict):                  # library tier: a controlled run
        lexe = trace.build_interp()
        x = lib_run(ctx, lexe, mc.build_driver(), drv, [c], os.path.join(ctx.dir, "replay"), "r")[0]
        print("case:\n" + c["text"])
        print("impl verdict:", x["r"]["verdict"], "rc", x["r"]["rc"])
        for cl in x["calls"]:
            if cl["kind"] != "stray":
                print("  t%d %-28s ret %s readings %s deadline %s actions %s" % (cl["T"], " ".join(cl["args"]), cl["ret"],
                                                                            [ns for _, ns in cl["reads"]], cl.get("deadline"), cl["seq"]))
        print("model disagreements:", x["dis"])
        print("machine replay:", x["machine"])
        print("oracle:", x["oracle"] or "property holds on this run")
        print("trace:", x["r"].get("trace_path"))
        return 1 if x["oracle"] else 0
    cases = [c] if c else []
    for c in cases:
        impl, _, _ = vlib.run_lines([exe], [c])
        model, _, _ = vlib.run_lines([drv], [c])
        print("case:  ", c)
        print("impl:  ", impl[0] if impl else None)
        print("model: ", model[0] if model else None)
        print("oracle:", oracle(c, impl[0] if impl else "<no output>"))
    return 0
