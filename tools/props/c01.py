"""C01 - every created thread runs exactly once and join delivers its result (DESIGN.md section 4, C01).

Proof side: coq/Sched/DescModel.v + DescProofs.v + TsoModel.v/TsoProofs.v, statements in Properties_C01.v.
Tie: generated fork-join programs run on the real library under the schedule controller
(harness/lib_interp.c); every trace is (1) replayed through the extracted model (labels, hook values,
descriptor words before every step, return / joined values, ledger counters) and (2) judged by an
independent oracle of the property on the trace itself."""
import os, json
import vlib, trace
from props import desc_common as dc

POINTS = ["join.check", "join.cb.set", "join.reap", "finish.readjoin", "finish.cb.detached", "finish.cb.ready2",
          "finish.cb.freedesc", "create.start=0", "create.start=1", "free.stack"]
KINDS = ("join",)
STACKS = [32768, 65536, 262144, 1048576]


# ------------------------------------------------------------------------------------------------
# generator: spawn trees; each non-detached thread has exactly one reaper, chosen so that every
# wait goes to a thread with a smaller post-order number (children before parents, earlier siblings
# before later ones): no cycle, hence no deadlock; the target exists when the reaper runs.
# ------------------------------------------------------------------------------------------------

def gen_program(rng, max_threads=10, reap_kinds=("join",), p_det=8, more_setters=False, null_share=0):
    parent, children = {0: None}, {0: []}
    n = 1
    budget = rng.rng(2, max_threads)
    frontier = [0]
    depth = {0: 0}
    while n <= budget and frontier:
        p = rng.choice(frontier)
        if len(children[p]) >= 4 or depth[p] >= 4:
            frontier.remove(p)
            continue
        c = n; n += 1
        parent[c] = p; children[c] = []; depth[c] = depth[p] + 1
        children[p].append(c)
        frontier.append(c)
        if rng.chance(1, 3) and p in frontier and p != 0:
            frontier.remove(p)
    nthreads = n
    flags, detached = {}, set()
    for c in range(1, nthreads):
        f = []
        if rng.chance(1, 3):
            f.append("pf")
        if rng.chance(1, 5):
            f.append("ss=%d" % rng.choice(STACKS))
        if rng.chance(1, 6):
            f.append("attr")
        if rng.chance(1, p_det):
            f += ["det", "nullid"] if rng.chance(2, 3) else ["det"]
            detached.add(c)
        elif rng.chance(1, 6):
            f.append("nullid")
        if more_setters:
            # the remaining public setters and the explicit child-first request (lib_interp holds 6 words per op)
            if "pf" not in f and rng.chance(1, 3):
                f.insert(0, "cf")
            if not any(x.startswith("ss=") for x in f) and rng.chance(1, 4):
                f.append("stk=%d" % rng.choice(STACKS))
            if rng.chance(1, 3):
                f.append("gs=%d" % rng.choice([0, 4096, 8192]))
            if len(f) > 4 and "attr" in f:
                f.remove("attr")
            while len(f) > 4:
                f.remove([x for x in f if x.startswith(("gs=", "stk=", "ss="))][0] if any(x.startswith(("gs=", "stk=", "ss=")) for x in f) else f[-1])
        flags[c] = f
    # items of each thread's program: ('create', c) in order, reaping ops inserted after their constraint
    prog = {t: [("create", c) for c in children[t]] for t in range(nthreads)}

    def subtree(x):
        out, todo = [], [x]
        while todo:
            y = todo.pop()
            out.append(y)
            todo += children[y]
        return out

    def insert_after(t, pred, item):
        """insert item into prog[t] at a random position after the first element satisfying pred (or anywhere if pred is None)"""
        lo = 0
        if pred is not None:
            for i, it in enumerate(prog[t]):
                if pred(it):
                    lo = i + 1
                    break
        pos = rng.rng(lo, len(prog[t]))
        prog[t].insert(pos, item)

    reaper_of, kind_of = {}, {}
    order = list(range(1, nthreads))
    # parents' own reaping is decided before their children's so that option (c) can see it
    for c in order:
        if c in detached:
            continue
        p = parent[c]
        kind = rng.choice(list(reap_kinds))
        kind_of[c] = kind
        later = [s for s in children[p] if s > c]
        opts = ["parent"]
        if later:
            opts += ["sibling", "sibling"]
        if p != 0 and reaper_of.get(p) == parent[p] and kind_of.get(p) != "detach":
            opts.append("grand")
        o = rng.choice(opts)
        if o == "parent":
            insert_after(p, lambda it, c=c: it == ("create", c), (kind, c))
            reaper_of[c] = p
        elif o == "sibling":
            s = rng.choice(later)
            d = rng.choice(subtree(s))
            insert_after(d, None, (kind, c))
            reaper_of[c] = d
        else:
            g = parent[p]
            insert_after(g, lambda it, p=p: it[0] in dc.REAP_OPS + ("tryjoinw", "timedjoinw") and it[1] == p, (kind, c))
            reaper_of[c] = g
    threads, expect = {}, {0: None}
    for t in range(nthreads):
        ops = []
        mode = rng.below(4) if t != 0 else 0
        val = rng.choice([0, 1, -1, 7, 4096, 123456789, -99, 1 << 40]) if mode else 1000 + t
        if mode in (1, 2):
            ops.append("retval %d" % val)
        for it in prog[t]:
            if rng.chance(1, 6):
                ops.append(rng.choice(["yield", "nop", "yield 1"]))
            if it[0] == "create":
                ops.append(("create %d " % it[1] + " ".join(flags[it[1]])).strip())
            elif it[0] == "timedjoinw":
                ops.append("timedjoinw %d %d%s" % (it[1], rng.choice([2500, 4500, 9000]), " null" if null_share and rng.chance(1, null_share) else ""))
            elif it[0] == "detach":
                ops.append("%s %d" % it)
            else:
                # the result pointer may be NULL: the reaper releases the record all the same
                ops.append(("%s %d" % it) + (" null" if null_share and rng.chance(1, null_share) else ""))
        if mode == 3:
            ops.append("exit %d" % val)
        if t == 0 and detached:
            # nobody waits for a detached thread: give the (possibly only) worker a chance to run them
            ops += ["yield"] * (3 * nthreads)
        expect[t] = val
        threads[t] = ops or ["nop"]
    return threads, {"expect": expect, "detached": sorted(detached), "reaper_of": reaper_of, "flags": flags}


def gen_global_order(ctx, n):
    """the GLOBAL default creation order is parent-first - set through myth_globalattr_set_child_first (case option
    `gchildfirst 0`) or through the environment variable MYTH_CHILD_FIRST=0 (`envchildfirst 0`): creations with an
    initialised attribute take the parent-first path without asking for it, attr == NULL creations stay child-first,
    `cf` asks for child-first explicitly; the remaining public setters (guard size, stack) are called too"""
    r = ctx.rng
    cases = []
    for i in range(n):
        threads, meta = gen_program(r, max_threads=r.choice([3, 5, 8]), reap_kinds=("join", "tryjoinw", "timedjoinw"), more_setters=True, null_share=3)
        route = r.choice(["gchildfirst", "envchildfirst"])
        val = r.choice([0, 0, 0, 1])
        cases.append(trace.case_text(r.choice([1, 2, 3, 4]), r.rng(1, 1 << 30), [], threads,
                                     pswitch=r.choice([20, 35, 60, 85]), extra={route: val}))
    return cases


def gen_cancel(ctx, n):
    """cancellation: (a) cancel while the target runs, acted on at its next testcancel; (b) cancel after the target has
    finished and before it is joined, then a new thread that recycles the descriptor and calls testcancel (must go on);
    (c) cancel while cancellation is disabled, enabled later; (d) testcancel without any cancel.  Every handle is used
    before the join of its thread returns; cancellers other than the creator are joined before the target is"""
    r = ctx.rng
    cases = []
    for i in range(n):
        threads, ops, t = {}, [], 1
        workers = r.choice([1, 1, 2, 3, 4])
        for _ in range(r.rng(2, 5)):
            me = t; t += 1
            kind = r.choice("aabcd")
            body = ["retval %d" % r.rng(2, 900)]
            steps = r.rng(1, 5)
            dis = kind == "c" or r.chance(1, 6)
            if dis:
                body.append("setcancel 0")
            for k in range(steps):
                body.append(r.choice(["nop", "yield", "yield 1", "nop"]))
                body.append("testcancel")
                if dis and k == steps // 2:
                    body.append("setcancel 1")
                    dis = False
            if dis:
                body.append("setcancel 1"); body.append("testcancel")
            body.append("nop")
            threads[me] = body
            flag = r.choice(["", " pf", " pf", " attr", " nullid"])
            if kind == "b":
                # one worker + child-first: finished when the creator goes on; otherwise "finished" is up to the schedule
                ops.append("create %d%s" % (me, r.choice(["", " nullid"])))
                ops += ["yield"] * r.rng(0, 2)
                ops.append("cancel %d" % me)
                ops.append("join %d" % me)
                nxt = t; t += 1
                threads[nxt] = ["retval %d" % r.rng(2, 900), "nop", "testcancel", "nop", "testcancel"]
                ops.append("create %d" % nxt)
                ops.append("join %d" % nxt)
            elif kind == "d":
                ops.append("create %d%s" % (me, flag))
                ops.append("join %d" % me)
            else:
                ops.append("create %d%s" % (me, flag))
                if r.chance(1, 3):
                    sib = t; t += 1
                    threads[sib] = [r.choice(["nop", "yield"]), "cancel %d" % me]
                    ops.append("create %d%s" % (sib, r.choice(["", " pf"])))
                    ops.append("join %d" % sib)
                else:
                    ops += ["yield"] * r.rng(0, 2)
                    ops.append("cancel %d" % me)
                    if r.chance(1, 4):
                        ops.append("cancel %d" % me)
                ops.append("join %d" % me)
        threads[0] = ops
        cases.append(trace.case_text(workers, r.rng(1, 1 << 30), [], threads, pswitch=r.choice([20, 35, 60, 85])))
    return cases


def gen_cases(ctx, n):
    r = ctx.rng
    cases = []
    for i in range(n):
        threads, meta = gen_program(r, max_threads=r.choice([3, 5, 8, 12]), reap_kinds=KINDS)
        w = r.choice([1, 1, 2, 2, 3, 4])
        ps = r.choice([20, 35, 60, 85])
        for k in range(2 if not ctx.thorough else 4):
            seed = r.rng(1, 1 << 30)
            cases.append(trace.case_text(w if k == 0 else r.choice([1, 2, 3, 4]), seed, [], threads,
                                         pswitch=ps if k == 0 else r.choice([20, 35, 60, 85])))
    return cases


# ------------------------------------------------------------------------------------------------
# oracle: the property, stated on the trace
# ------------------------------------------------------------------------------------------------

def expected_order(P, c):
    """'1' child-first / '0' parent-first, from the documented meaning of the request: an explicit request in
    the attribute wins; an initialised attribute carries the global default; attr == NULL is child-first
    whatever the global default (myth_create_ex_body: `attr ? attr->child_first : 1`)"""
    fl = P.flags.get(c, [])
    uses_attr = any(x in fl for x in ("pf", "cf", "det", "attr")) or any(x.startswith(("ss=", "gs=", "stk=")) for x in fl) or P.forced_pf
    if not uses_attr:
        return "1"
    if "pf" in fl or (P.forced_pf and "cf" not in fl):
        return "0"
    if "cf" in fl:
        return "1"
    return "1" if P.gcf != "0" else "0"


def oracle(r):
    P = r["proj"]
    bad = []
    if r["rc"] != 0 or not r["verdict"]:
        return ["the run did not complete: exit status %d, verdict %s, stderr: %s" % (r["rc"], r["verdict"], r["stderr"][-200:])]
    if not r["verdict"].startswith("DONE"):
        bad.append("verdict " + r["verdict"])
    bad += P.problems
    done = r["verdict"].startswith("DONE")
    # exactly one invocation of the start function per creation, in the requested order, with the supplied argument
    for c in range(1, P.nthreads):
        st = P.starts.get(c, [])
        must = c in P.fin_enter or any(cl["target"] == c and cl["op"] in dc.REAP_OPS and cl["op"] != "detach" and cl.get("ret") == 0 for cl in P.calls)
        if len(st) > 1 or (must and len(st) != 1):
            bad.append("thread t%d (tag %d): start function invoked %d time(s)" % (c, P.tag[c], len(st)))
        for pos, val, actor in st:
            want = expected_order(P, c)
            if val != want:
                bad.append("thread t%d started %s-first, requested %s" % (c, "child" if val == "1" else "parent", "parent-first" if want == "0" else "child-first"))
    # the interpreter prints the thread number it received as ARGUMENT on C lines; the controller resolves
    # the actor of E/P lines from the worker's current descriptor: the first call after create.start must agree
    evs = r["events"]
    for i, e in enumerate(evs):
        if e.kind == "E" and e.words[0] == "create.start":
            for f in evs[i + 1:]:
                if f.w == e.w and f.kind in "CR":
                    if "t%d" % f.actor != e.words[1]:
                        bad.append("start function of %s received the argument of t%s: %s" % (e.words[1], f.actor, f.raw))
                    break
                if f.w == e.w and f.kind == "E" and f.words[0] in ("create.start", "finish.enter"):
                    break
    # joins: value and order
    for cl in P.calls:
        if cl["op"] in dc.REAP_OPS and cl["op"] != "detach" and cl.get("ret") == 0:
            t = cl["target"]
            want = P.expected_ret.get(t)
            if not cl.get("null") and str(want) != str(cl.get("val")):
                bad.append("%s of t%d (tag %d) delivered %s, the thread returned/exited with %s" % (cl["op"], t, P.tag[t], cl.get("val"), want))
            if t not in P.ready2 or P.ready2[t] > cl["ret_pos"]:
                bad.append("%s of t%d returned before the target published FREE_READY2" % (cl["op"], t))
            if t not in P.fin_enter or (t in P.ready2 and P.fin_enter[t] > P.ready2[t]):
                bad.append("t%d published FREE_READY2 before its function returned" % t)
        if cl["op"] == "join" and "ret" in cl and cl["ret"] != 0:
            bad.append("join returned %d" % cl["ret"])
        if cl["op"] == "create" and "ret" in cl and cl["ret"] != 0:
            bad.append("create returned %d" % cl["ret"])
    bad += dc.oracle_no_free_before_ready2(r)
    bad += dc.oracle_ledger(r)
    bad += dc.oracle_cancel(r)
    return bad


# ------------------------------------------------------------------------------------------------

def load_corpus(prop):
    d = os.path.join(vlib.VERIF, "corpus", prop)
    out = []
    if os.path.isdir(d):
        for f in sorted(os.listdir(d)):
            if f.endswith(".case"):
                out.append(open(os.path.join(d, f)).read())
    return out


def search(ctx, exe, drv, case, oracle_fn, n=40):
    """a run disagreed with the model (or a proof broke) without an oracle failure: look for one on
    more controller seeds / worker counts / preemption-heavy settings of the same program"""
    objs, threads, scripts, params = trace.parse_case(case)
    th = {t: [" ".join(o) for o in ops] for t, ops in threads.items()}
    cases = []
    keep = {k: params[k] for k in ("gchildfirst", "envchildfirst", "parentfirst") if k in params}
    for i in range(n):
        cases.append(trace.case_text(ctx.rng.choice([1, 2, 3, 4]), ctx.rng.rng(1, 1 << 30), [], th,
                                     pswitch=ctx.rng.choice([60, 75, 90]), extra=keep))
    for r in dc.run_cases(ctx, exe, drv, cases, subdir="search"):
        b = oracle_fn(r)
        if b:
            return r, b
    return None, None


def judge(ctx, prop, results, oracle_fn, points, broken, log, exe, drv, assumptions, extra_trusted=(), extra_violations=()):
    for what, body in extra_violations:
        ctx.violation("oracle", what, body, found=True)
    static = dc.source_order_check()
    ctx.cov["step_table_check"] = {"functions": len(dc.STEP_TABLE), "accesses": sum(len(x[1]) for x in dc.STEP_TABLE), "problems": static}
    hist = dc.point_histogram(results)
    failing = [(r, oracle_fn(r)) for r in results]
    failing = [(r, b) for r, b in failing if b]
    disagree = [r for r in results if not r["model"].startswith("ok")]
    kinds, verdicts, sizes = {}, {}, {}
    for r in results:
        v = (r["verdict"] or "none").split()[0]
        verdicts[v] = verdicts.get(v, 0) + 1
        sizes[r["proj"].nthreads] = sizes.get(r["proj"].nthreads, 0) + 1
        for cl in r["proj"].calls:
            k = cl["op"] + ("" if "ret" not in cl else "->%d" % cl["ret"])
            kinds[k] = kinds.get(k, 0) + 1
    ctx.cov["correspondence"] = {"cases": len(results), "disagreements": len(disagree), "oracle_failures": len(failing),
                                 "model_steps_replayed": sum(int(r["model"].split()[1]) + int(r["model"].split()[2]) for r in results if r["model"].startswith("ok")),
                                 "verdicts": verdicts, "threads_per_run": sizes, "calls_by_result": kinds, "point_histogram": hist}
    ctx.cov["evaluations"] = len(results)
    ctx.cov["samples"] += [{"case": r["case"], "verdict": r["verdict"], "model": r["model"]} for r in results[:1] + results[-1:]]
    ctx.cov["trusted_base"] += ["extraction: ExtrOcamlBasic only; ocaml/driver_C01.ml (fires the silent lock-acquisition / wait-loop steps as late as possible; accepts lk=1 in a snapshot while the model's acquisition is still pending), ocaml/zio.ml",
                                "tools/props/desc_common.py STEP_TABLE: regular expressions over the preprocessed source (gcc -E) for the order of the shared accesses inside each step",
                                "harness/lib_interp.c schedule controller and interpreter; tools/props/desc_common.py projection (incarnation numbering, ledger attribution of alloc.stack to the record obtained just before on the same worker)",
                                "modelled, not verified: the run queues (who runs where; C02), the context switch itself (C03), the allocator's addresses (C12); TSO is the assumed hardware model for C01_visibility_partial"] + list(extra_trusted)
    missing = [p for p in points if not hist.get(p)]
    if failing:
        r, b = failing[0]
        ctx.violation("oracle", b[0], {"case": r["case"], "observed": b[:10], "expected": "see property " + prop, "level": "library",
                                       "verdict": r["verdict"], "model": r["model"], "failing_runs": len(failing)}, found=True)
    elif disagree:
        r = disagree[0]
        fr, fb = search(ctx, exe, drv, r["case"], oracle_fn)
        if fr is not None:
            ctx.violation("oracle", fb[0], {"case": fr["case"], "observed": fb[:10], "expected": "see property " + prop, "level": "library",
                                            "found_by": "search after a model/implementation disagreement", "first_disagreement": r["fail_context"]}, found=True)
        else:
            ctx.violation("correspondence", "trace of the library is not a run of coq/Sched/DescModel.v on %d run(s); first: %s" % (len(disagree), r["model"]),
                          {"theorem_or_correspondence": "correspondence Sched/DescModel.v <-> src/myth_sched_func.h (create/finish/join/tryjoin/detach)",
                           "case": r["case"], "observed": r["fail_context"], "expected": "every trace line is the model's next step with equal descriptor words"}, found=False)
    elif static:
        fr, fb = search(ctx, exe, drv, results[0]["case"], oracle_fn) if results else (None, None)
        if fr is not None:
            ctx.violation("oracle", fb[0], {"case": fr["case"], "observed": fb[:10], "level": "library", "found_by": "search after a step-table mismatch"}, found=True)
        else:
            ctx.violation("correspondence", "the order of shared accesses inside a step differs from the model's step table: " + "; ".join(static)[:600],
                          {"theorem_or_correspondence": "step table of Sched/DescModel.v <-> preprocessed src/myth_sched_func.h (accesses between two POINTs cannot be interleaved by the controller, so their order is checked on the text)",
                           "observed": static, "expected": [list(x) for x in dc.STEP_TABLE]}, found=False)
    elif missing:
        ctx.violation("coverage", "POINT(s) never executed by the generated programs: " + ", ".join(missing),
                      {"theorem_or_correspondence": "coverage of the correspondence", "histogram": hist}, found=False)
    if broken:
        fr, fb = (None, None)
        if not failing and results:
            fr, fb = search(ctx, exe, drv, results[0]["case"], oracle_fn, n=20)
        if fr is not None:
            ctx.violation("oracle", fb[0], {"case": fr["case"], "observed": fb[:10], "level": "library", "found_by": "search after a broken theorem"}, found=True)
        ctx.violation("proof", "theorem(s) no longer check: " + ", ".join(broken),
                      {"theorem_or_correspondence": ", ".join(broken), "log": getattr(ctx, "proof_log", log[-3000:])}, found=False)
    return ctx.finish(assumptions=assumptions)


ASSUMPTIONS = ["usage contract (encoded as enabledness of the calls): a reaping operation (join / tryjoin / timedjoin / detach) is issued on an existing thread that no other thread is reaping or has reaped; a thread created with the detached attribute is never the target of one; join is not applied to oneself",
               "sequentially consistent interleaving of the POINT-delimited steps; for the publication of results only the TSO message-passing lemma is proved (C01_visibility_partial), that x86 implements TSO is trusted",
               "the main thread does not leave through the thread exit path (myth_fini is C15's)"]


# ------------------------------------------------------------------------------------------------
# free-running family (harness/c01_free.c): no controller, the workers really run concurrently
# ------------------------------------------------------------------------------------------------

FREE_REPEAT = 5


def build_free(ctx):
    lib = vlib.build_lib()
    return vlib.cc(os.path.join(ctx.dir, "c01_free"), [os.path.join(vlib.VERIF, "harness", "c01_free.c")],
                   flags=vlib.lib_cflags() + ["-O1", "-g"], libs=[lib, "-lpthread", "-ldl", "-lrt"])


def run_free_config(exe, cfg):
    rc, out = vlib.sh([exe] + [str(x) for x in cfg], timeout=200)
    line = ([l for l in out.split("\n") if l.startswith(("ok", "BAD"))] or [out.strip()[-300:]])[0]
    return rc == 0 and line.startswith("ok"), rc, line


def run_free(ctx):
    """returns (violations, stats): every child fills a private buffer with plain stores and returns / exits (from
    nested frames) a checksum-bearing value; the joiner (parent / sibling / grandparent) checks every word, the
    value, the argument record and the start count"""
    exe = build_free(ctx)
    pairs = 25000 if not ctx.thorough else 250000
    stats, viol = [], []
    for w in (2, 3, 4, 8):
        for mode in ([], ["gpf"]):
            cfg = [w, pairs, ctx.rng.rng(1, 1 << 30)] + mode
            ok, rc, line = run_free_config(exe, cfg)
            stats.append({"config": cfg, "rc": rc, "result": line})
            if not ok:
                again = [run_free_config(exe, cfg) for _ in range(FREE_REPEAT)]
                rep = sum(1 for a in again if not a[0])
                viol.append(("free-running create/join (no controller), %d workers%s: %s [rc=%d; reproduced in %d of %d repetitions of the same configuration]"
                             % (w, ", global default parent-first" if mode else "", line, rc, rep, FREE_REPEAT),
                             {"free_config": cfg, "observed": line, "exit_status": rc, "level": "library",
                              "expected": "every word the child stored, its return/exit value, its argument record and one start per creation are what the joiner sees",
                              "repetitions": {"n": FREE_REPEAT, "failed": rep, "lines": [a[2] for a in again]}}))
                return viol, stats            # one failing configuration is enough
    return viol, stats


def run(ctx):
    broken, log = ctx.prove("Properties_C01.v", "Properties_C01")
    exe, drv = dc.build(ctx)
    n = 100 if not ctx.thorough else 1500
    cases = (load_corpus("C01") + gen_cases(ctx, n) + gen_global_order(ctx, 40 if not ctx.thorough else 600) +
             gen_cancel(ctx, 40 if not ctx.thorough else 600))
    results = dc.run_cases(ctx, exe, drv, cases)
    fviol, fstats = run_free(ctx)
    ctx.cov["free_running"] = {"configs": fstats, "pairs_total": sum(int(x["config"][1]) for x in fstats)}
    orders = {}
    for r in results:
        for c, st in r["proj"].starts.items():
            k = "%s global=%s %s" % ("attr" if expected_order(r["proj"], c) is not None and
                                     (set(r["proj"].flags.get(c, [])) - {"nullid"}) else "NULL-attr",
                                     r["proj"].gcf, "child-first" if st[0][1] == "1" else "parent-first")
            orders[k] = orders.get(k, 0) + 1
    ctx.cov["creation_orders"] = orders
    canc = {}
    for r in results:
        for cl in r["proj"].calls:
            if cl["op"] in ("cancel", "setcancel"):
                canc[cl["op"]] = canc.get(cl["op"], 0) + 1
            elif cl["op"] == "testcancel":
                k = "testcancel " + ("acted" if cl["acted"] else "went on")
                canc[k] = canc.get(k, 0) + 1
    ctx.cov["cancellation"] = canc
    return judge(ctx, "C01", results, oracle, POINTS, broken, log, exe, drv, ASSUMPTIONS,
                 extra_trusted=["harness/c01_free.c (free-running; pattern / checksum / argument bookkeeping; not deterministic: a failure is re-run %d times and the count reported)" % FREE_REPEAT],
                 extra_violations=fviol)


def replay(ctx, path):
    body = json.load(open(path))
    exe, drv = dc.build(ctx)
    if "free_config" in body:
        fexe = build_free(ctx)
        res = [run_free_config(fexe, body["free_config"]) for _ in range(FREE_REPEAT)]
        print("free-running configuration (workers pairs seed [gpf]):", body["free_config"])
        for ok, rc, line in res:
            print("impl:  rc=%d %s" % (rc, line))
        print("failed in %d of %d repetitions (recorded: %s)" % (sum(1 for x in res if not x[0]), FREE_REPEAT, body.get("observed")))
        return 0
    if "case" not in body:
        print("replay file holds no case (broken obligation): ", body.get("what"))
        return 0
    for r in dc.run_cases(ctx, exe, drv, [body["case"]], subdir="replay"):
        print(r["case"])
        print("impl:   rc=%s verdict=%s" % (r["rc"], r["verdict"]))
        print("model: ", r["model"], r["fail_context"] or "")
        print("oracle:", oracle(r))
        print("trace: ", r["trace_path"])
    return 0
