"""C16 -- pthread programs behave the same on MassiveThreads as on the system pthreads (DESIGN.md 4, C16).

prove (Properties_C16.v) -> translate the CURRENT src/myth_wrap_pthread.c, src/myth_real.c, src/myth-ld.opts
into build/C16/gen/WrapTableGen.v and run the verified checkers on it by vm_compute (table, overlaid sizes,
attribute translation, static-initialiser shape) -> unit harness for the static initialiser ->
DIFFERENTIAL run: generated determinate pthread programs (harness/c16_prog.c, pthread API only) built three
ways from the current tree (system glibc; link-time wrapping with @myth-ld.opts + the library objects;
LD_PRELOAD of a libmyth-dl.so), MYTH_WRAP_PTHREAD=1/0, MYTH_NUM_WORKERS=1..4; outputs and exit statuses must
agree with each other and with the Python oracle computed from the program."""
import os, re, json, shutil, subprocess, time
from concurrent.futures import ThreadPoolExecutor
import vlib
from props import c16_translate as T

GEN_FILES = ["Wrap/WrapSpec.v", "Wrap/WrapProofs.v", "Wrap/AttrModel.v", "Wrap/AttrProofs.v",
             "Wrap/StaticInitModel.v", "Wrap/StaticInitProofs.v", "Wrap/StaticMutexModel.v", "Wrap/StaticMutexCompose.v"]
KNOWN_NULL_DTOR = "C16-null-destructor-calls"
RUN_TIMEOUT = 40
FIRST_TIMEOUT = 12
STOP_AFTER = 2          # diverging programs after which the remaining programs are skipped


# ----------------------------------------------------------------------------------------------
# generated Coq data + checkers
# ----------------------------------------------------------------------------------------------

CHECKS = {
    "C16_table_ok": ("TableCheck", """
Theorem C16_table_ok : wrap_table_ok consts table = true.
Proof. vm_compute. reflexivity. Qed.
Theorem C16_current_forwards :
  (forall o, In o posix_subset -> forwards consts table o) /\\ (forall p, In p passthrough_subset -> passes table p).
Proof. exact (wrap_table_sound consts table C16_table_ok). Qed.
Print Assumptions C16_current_forwards.
"""),
    "C16_sizes_ok": ("SizesCheck", """
Theorem C16_sizes_ok : sizes_ok sizes = true.
Proof. vm_compute. reflexivity. Qed.
Print Assumptions C16_sizes_ok.
"""),
    "C16_attr_gen_ok": ("AttrCheck", """
Theorem C16_attr_gen_ok :
  attr_check attr_fields attr_init_writes attr_xlate_steps attr_xlate_null attr_create_reads = true.
Proof. vm_compute. reflexivity. Qed.
Theorem C16_current_attr : forall dflt pth f, In f attr_fields ->
  defined f (attr_to_myth attr_fields attr_init_writes attr_xlate_steps dflt pth).
Proof. intros dflt pth f Hf.
  exact (attr_translation_defined _ _ _ _ _ dflt pth C16_attr_gen_ok f Hf). Qed.
Print Assumptions C16_current_attr.
"""),
    "C16_shape_gen_ok": ("ShapeCheck", """
Theorem C16_shape_gen_ok : shape_ok si_shape = true.
Proof. vm_compute. reflexivity. Qed.
Theorem C16_current_static_init : forall m0 st0 q0 n, m0 <> sh_initializing si_shape ->
  forall sched, static_safe si_shape m0 st0 q0 (run (step si_shape) sched (init_state si_shape m0 st0 q0 n)).
Proof. intros. apply static_init_once_run; [exact C16_shape_gen_ok | assumption]. Qed.
Theorem C16_static_word_is_static : sh_static_word si_shape <> sh_magic_no si_shape.
Proof. vm_compute. discriminate. Qed.
Print Assumptions C16_current_static_init.
(* with the constants and statement order of the CURRENT source: a static mutex raced for by any number of
   threads is C04's mutex *)
Theorem C16_current_static_mutex : forall w0 q0 nt nc p,
  reachable (fun p => p = pinit si_shape (sh_static_word si_shape) w0 q0 nt nc) (pstep si_shape) p ->
  reachable MP.init SY.step (proj si_shape (sh_static_word si_shape) p) /\\
  (forall t1 t2, t1 <> t2 -> SY.holds (sy p) t1 = true -> SY.holds (sy p) t2 = true -> False).
Proof.
  assert (Hm : sh_static_word si_shape <> sh_initializing si_shape) by (vm_compute; discriminate).
  intros w0 q0 nt nc p Hp. split.
  - exact (static_mutex_projects si_shape C16_shape_gen_ok _ w0 q0 nt nc Hm p Hp).
  - intros t1 t2. exact (static_mutex_mutual_exclusion si_shape C16_shape_gen_ok _ w0 q0 nt nc Hm p t1 t2 Hp).
Qed.
Print Assumptions C16_current_static_mutex.
"""),
}
CHECK_HEAD = """From Coq Require Import List String ZArith Bool.
From MT Require Import Lib.Interleave Wrap.WrapSpec Wrap.WrapProofs Wrap.AttrModel Wrap.AttrProofs
                       Wrap.StaticInitModel Wrap.StaticInitProofs Wrap.StaticMutexModel Wrap.StaticMutexCompose.
From C16Gen Require Import WrapTableGen.
Import ListNotations.
"""


def scratch_tag():
    """runs against a scratch copy of the repository use their own generated-data / case directories"""
    return "" if os.path.realpath(vlib.REPO) == "/repo" else "-" + vlib.sha(os.path.realpath(vlib.REPO))[:8]


def coqc_gen(gdir, name, timeout=300):
    return vlib.sh(["coqc", "-Q", vlib.COQ, "MT", "-Q", gdir, "C16Gen", name + ".v"], cwd=gdir, timeout=timeout)


def generated_checks(ctx):
    """returns (translation, {theorem: (ok, log)}, failing_names)"""
    gdir = os.path.join(ctx.dir, "gen" + scratch_tag())
    shutil.rmtree(gdir, ignore_errors=True)
    os.makedirs(gdir)
    tr = T.translate(gdir)
    txt = T.coq_data(tr, "(** GENERATED by tools/props/c16_translate.py from %s on every run of ./check C16. *)" % vlib.REPO)
    open(os.path.join(gdir, "WrapTableGen.v"), "w").write(txt)
    res, failing = {}, []
    rc, out = coqc_gen(gdir, "WrapTableGen")
    if rc != 0:
        for th in CHECKS:
            res[th] = (False, "generated data does not compile:\n" + out[-1500:])
        return tr, res, ["<generated data does not compile>"]
    with ThreadPoolExecutor(max_workers=4) as ex:
        futs = {}
        for th, (fn, body) in CHECKS.items():
            open(os.path.join(gdir, fn + ".v"), "w").write(CHECK_HEAD + body)
            futs[th] = ex.submit(coqc_gen, gdir, fn)
        for th, f in futs.items():
            rc, out = f.result()
            res[th] = (rc == 0 and "Closed under the global context" in out, out[-1500:])
    if not res["C16_table_ok"][0]:
        open(os.path.join(gdir, "Diag.v"), "w").write(CHECK_HEAD + "Eval vm_compute in (failing consts table).\n")
        rc, out = coqc_gen(gdir, "Diag")
        failing = re.findall(r'"([\w.]+)"', out) if rc == 0 else ["<diagnosis failed>"]
    return tr, res, failing


# ----------------------------------------------------------------------------------------------
# builds
# ----------------------------------------------------------------------------------------------

def stable_lib(ctx, wrap, srcs=None, tag=""):
    """vlib.build_lib keeps only a few cached builds and other checks run concurrently: copy the objects
    into this check's own directory right away (retry when the cache entry vanished in between)"""
    last = None
    for _ in range(4):
        ar = vlib.build_lib(wrap=wrap, srcs=srcs)
        d = os.path.join(ctx.dir, "lib", os.path.basename(os.path.dirname(ar)) + tag)
        if os.path.exists(os.path.join(d, "libmyth.a")) and os.path.exists(os.path.join(d, ".complete")):
            return d
        try:
            shutil.rmtree(d, ignore_errors=True)
            shutil.copytree(os.path.dirname(ar), d)
            open(os.path.join(d, ".complete"), "w").write("ok")
            vlib.prune_cache(os.path.join(ctx.dir, "lib"), keep=8)
            return d
        except OSError as e:
            last = e
            time.sleep(0.2)
    raise vlib.BuildError("library cache entry vanished repeatedly: %s" % last)


def build_all(ctx):
    hsrc = os.path.join(vlib.VERIF, "harness", "c16_prog.c")
    opts = os.path.join(vlib.REPO, "src", "myth-ld.opts")
    ld = stable_lib(ctx, "LD")
    dl = stable_lib(ctx, "DL")
    ldnp = stable_lib(ctx, "LD", srcs=vlib.COMMON_SRCS + ["myth_wrap_malloc.c", "myth_wrap_socket.c"], tag="-np")
    # content-addressed: checks against scratch copies of the repository run concurrently with this one
    key = vlib.sha(os.path.basename(ld), os.path.basename(dl), os.path.basename(ldnp), vlib.file_sha(hsrc), vlib.file_sha(opts),
                   vlib.file_sha(os.path.join(vlib.VERIF, "harness", "c16_static_init.c")))[:14]
    bdir = os.path.join(ctx.dir, "bin", key)
    bins = {"plain": os.path.join(bdir, "prog_plain"), "ld": os.path.join(bdir, "prog_ld"),
            "so": os.path.join(bdir, "libmyth-dl.so"), "unit": os.path.join(bdir, "si_unit")}
    with vlib.Lock("c16-bin-" + key):
        if os.path.exists(os.path.join(bdir, ".complete")):
            return bins
        return build_into(bdir, bins, hsrc, opts, ld, dl, ldnp)


def build_into(bdir, bins, hsrc, opts, ld, dl, ldnp):
    shutil.rmtree(bdir, ignore_errors=True)
    os.makedirs(bdir, exist_ok=True)
    plain = vlib.cc(os.path.join(bdir, "prog_plain"), [hsrc], flags=["-O1", "-g", "-w"], libs=["-lpthread"])
    if not os.path.exists(opts):
        raise vlib.BuildError("src/myth-ld.opts is missing")
    prog_ld = vlib.cc(os.path.join(bdir, "prog_ld"), [hsrc], flags=["-O1", "-g", "-w", "@" + opts],
                      libs=[os.path.join(ld, "libmyth.a"), "-lpthread", "-ldl", "-lrt"])
    so = os.path.join(bdir, "libmyth-dl.so")
    objs = sorted(os.path.join(dl, f) for f in os.listdir(dl) if f.endswith(".o"))
    rc, out = vlib.sh(["gcc", "-shared", "-o", so] + objs + ["-lpthread", "-ldl", "-lrt"], timeout=120)
    if rc != 0:
        raise vlib.BuildError("libmyth-dl.so does not link:\n" + out[-2000:])
    unit = vlib.cc(os.path.join(bdir, "si_unit"), [os.path.join(vlib.VERIF, "harness", "c16_static_init.c")],
                   flags=vlib.lib_cflags("LD") + ["-O1", "-g", "@" + opts],
                   libs=[os.path.join(ldnp, "libmyth.a"), "-lpthread", "-ldl", "-lrt"])
    open(os.path.join(bdir, ".complete"), "w").write("ok")
    vlib.prune_cache(os.path.dirname(bdir), keep=6)
    return bins


def configs(thorough):
    """(name, which binary, env)"""
    cs = [("plain", "plain", {})]
    for w in (1, 2, 3, 4):
        cs.append(("ld-w%d" % w, "ld", {"MYTH_WRAP_PTHREAD": "1", "MYTH_NUM_WORKERS": str(w)}))
    cs.append(("ld-off", "ld", {"MYTH_WRAP_PTHREAD": "0", "MYTH_NUM_WORKERS": "2"}))
    for w in (1, 2, 3, 4):
        cs.append(("dl-w%d" % w, "dl", {"MYTH_WRAP_PTHREAD": "1", "MYTH_NUM_WORKERS": str(w)}))
    cs.append(("dl-off", "dl", {"MYTH_WRAP_PTHREAD": "0", "MYTH_NUM_WORKERS": "2"}))
    return cs


def run_one(bins, cfg, case_path, timeout=None):
    name, which, env = cfg
    e = dict(os.environ)
    for k in ("MYTH_WRAP_PTHREAD", "MYTH_NUM_WORKERS", "LD_PRELOAD", "MYTH_TRACE_WRAPPED_FUNC"):
        e.pop(k, None)
    e.update(env)
    exe = bins["plain"] if which in ("plain", "dl") else bins["ld"]
    if which == "dl":
        e["LD_PRELOAD"] = bins["so"]
    # a run takes milliseconds; no termination within FIRST_TIMEOUT is re-tried once with the long timeout
    # (the machine may be heavily loaded) before it is called a hang
    for to in ((FIRST_TIMEOUT, RUN_TIMEOUT) if timeout is None else (timeout,)):
        try:
            p = subprocess.run([exe, case_path], env=e, stdout=subprocess.PIPE, stderr=subprocess.PIPE,
                               timeout=to, text=True, errors="replace")
            return p.returncode, p.stdout, p.stderr[-400:]
        except subprocess.TimeoutExpired as ex:
            out = ex.stdout or ""
            if isinstance(out, bytes):
                out = out.decode("utf-8", "replace")
            last = ("timeout", out, "no termination within %d s (deadlock / lost wake-up / busy loop)" % to)
    return last


# ----------------------------------------------------------------------------------------------
# program generator (ctx.rng only) and the Python oracle
# ----------------------------------------------------------------------------------------------

M64 = (1 << 64) - 1


def leaf_value(i, seed):
    x = (i * 2654435761 + seed * 40503) & M64
    x ^= x >> 13
    x = (x * 0x5bd1e995) & M64
    x ^= x >> 15
    return x % 1000 + 1


def tree_value(depth, fan, seed, rev, i=0, level=0):
    """(value, nodes)"""
    if level == depth:
        return leaf_value(i, seed), 1
    vals, nodes = [], 1
    for k in range(fan):
        v, n = tree_value(depth, fan, seed, rev, i * fan + k + 1, level + 1)
        vals.append(v)
        nodes += n
    if rev:
        vals.reverse()
    s = 0
    for v in vals:
        s = (s * 7 + v) % 1000003
    return (31 * s + i) % 1000003, nodes


def gen_scene(r, noyield, big):
    kind = r.choice(["tree", "tree", "locks", "locks", "locks", "tryheld", "pc", "pc", "ring", "barrier", "barrier",
                     "once", "keys", "keys", "detach", "ids", "sleep"])
    if kind == "sleep" and noyield:
        kind = "ids"
    if kind == "tree":
        depth, fan = r.choice([(1, 2), (1, 4), (2, 2), (2, 3), (3, 2), (1, 7), (0, 1)] + ([(3, 3), (4, 2)] if big else []))
        return "tree %d %d %d %d %d %d" % (depth, fan, r.rng(0, 999), r.rng(0, 2), r.rng(0, 1), r.rng(0, 1))
    if kind == "locks":
        t = r.rng(2, 6)
        nm = r.rng(1, 4)
        kinds = [r.choice("iass") for _ in range(nm)]
        if "s" not in kinds and r.chance(2, 3):
            kinds[r.below(nm)] = "s"
        scripts = []
        for _ in range(t):
            ops = []
            for _ in range(r.rng(1, 5)):
                o = r.choice(["m", "m", "m", "t", "d", "s", "S", "y", "Y", "u", "n"])
                if noyield and o in ("t", "y", "Y", "u", "n"):
                    o = "m"
                n = r.choice([1, 3, 20, 100, 300] + ([1000] if big else []))
                if o in ("m", "t", "d"):
                    ops.append("%s%d:%d" % (o, r.below(nm), n if o != "d" else min(n, 100)))
                elif o in ("s", "S"):
                    ops.append("%s:%d" % (o, n))
                elif o in ("y", "Y"):
                    ops.append(o)
                elif o == "u":
                    ops.append("u%d" % r.choice([0, 1, 50, 300]))
                else:
                    ops.append("n%d" % r.choice([0, 1, 1000, 200000]))
            scripts.append(" ".join(ops))
        return "locks %d %d %s ; %s" % (t, nm, " ".join(kinds), " ; ".join(scripts))
    if kind == "tryheld":
        return "tryheld %d %s %s" % (r.rng(1, 4), r.choice("iass"), r.choice("lt"))
    if kind == "pc":
        return "pc %d %d %d %d %d" % (r.rng(1, 4), r.rng(1, 4), r.choice([1, 2, 3, 8]), r.choice([1, 5, 20, 60]), r.rng(0, 3))
    if kind == "ring":
        return "ring %d %d %d" % (r.rng(1, 6), r.choice([1, 3, 10, 25]), r.rng(0, 1))
    if kind == "barrier":
        return "barrier %d %d %d" % (r.rng(1, 7), r.choice([1, 2, 5, 12]), r.rng(0, 1))
    if kind == "once":
        return "once %d %d %d" % (r.rng(1, 7), r.rng(1, 4), 0 if noyield else r.rng(0, 1))
    if kind == "keys":
        k = r.choice([1, 2, 5, 17, 20, 33])
        t = r.rng(1, 5)
        dm = 0
        for j in range(k):
            if r.chance(3, 4):
                dm |= 1 << j
        ents = []
        for _ in range(r.rng(1, 10)):
            ents.append("%d %d %d" % (r.below(t), r.below(k), r.choice([0, r.rng(1, 500), r.rng(1, 500)])))
        return "keys %d %d %d ; %s" % (k, t, dm, " ; ".join(ents))
    if kind == "detach":
        t = r.rng(1, 6)
        return "detach %d %s" % (t, "".join(r.choice("acs") for _ in range(t)))
    if kind == "ids":
        return "ids %d" % r.choice([1, 2, 3, 4, 5, 6, 9, 14])
    t = r.rng(1, 4)
    specs = []
    for _ in range(t):
        us = r.choice([0, 1, 100, 700, 1500, 2300, 3700, 5100, 9300, 13700, 22100, 29900])
        rep = 1 if us > 6000 else r.choice([1, 2, 4])
        specs.append("%s%d%s" % (r.choice(["u", "n", ""]), us, "x%d" % rep if rep > 1 else ""))
    if big and r.chance(1, 6):
        specs[0] = "a%d" % r.choice([10, 20, 30])        # crosses a wall-clock second (waits for it: up to 1 s)
    return "sleep %d %s" % (t, " ".join(specs))


def gen_program(r, big=False):
    noyield = r.chance(1, 4)
    lines = ["noyield"] if noyield else []
    if r.chance(1, 3):          # the main thread alone first: possibly the very first use of the library
        ops = list("bsBSmltdpokyYui")
        if noyield:
            ops = [o for o in ops if o not in "yYu"]
        r.shuffle(ops)
        lines.append("solo " + "".join(ops[:r.rng(1, len(ops))]))
    dtors = 1
    for i in range(r.rng(2, 6)):
        sc = gen_scene(r, noyield, big)
        if sc.startswith("keys "):
            dtors += bin(int(sc.split(";")[0].split()[3])).count("1")
            if dtors > 250:      # the harness has 256 distinct destructor functions
                continue
        lines.append(sc)
    if big and r.chance(1, 150):
        lines.append("sleep 1 s1")       # sleep(1): thorough tier only, rarely
    lines.append("exit %d %d" % (r.choice([0, 0, 1, 7, 42, 255]), r.rng(0, 2)))
    return "\n".join(lines) + "\n"


def oracle(text):
    """(expected stdout, expected exit status) of a program, from its text alone"""
    out, sno, status = [], 0, 0
    for raw in text.split("\n"):
        line = raw.split("#")[0].strip()
        if not line:
            continue
        kw, _, rest = line.partition(" ")
        if kw == "noyield":
            continue
        if kw == "exit":
            status = int(rest.split()[0])
            continue
        sno += 1
        if kw == "tree":
            d, f, s, x, a, rv = map(int, rest.split())
            v, n = tree_value(d, f, s, rv)
            out.append("S%d tree value=%d nodes=%d" % (sno, v, n))
        elif kw == "locks":
            parts = rest.split(";")
            h = parts[0].split()
            t, nm = int(h[0]), int(h[1])
            c = [0] * (nm + 1)
            for sc in parts[1:1 + t]:
                for op in sc.split():
                    if op[0] in "mtd":
                        k, n = op[1:].split(":")
                        c[int(k)] += int(n)
                    elif op[0] in "sS":
                        c[nm] += int(op.split(":")[1])
            out.append("S%d locks joined=%d %s" % (sno, t * (t + 1) // 2, " ".join("c%d=%d" % (i, v) for i, v in enumerate(c))))
        elif kw == "tryheld":
            t = int(rest.split()[0])
            out.append("S%d tryheld busy=%d timedout=%d other=0 after=0" % (sno, t, t))
        elif kw == "pc":
            p, c, cap, n, m = map(int, rest.split())
            out.append("S%d pc sum=%d consumed=%d left=0" % (sno, sum(q * 1000 + i for q in range(1, p + 1) for i in range(1, n + 1)), p * n))
        elif kw == "ring":
            t, rr, m = map(int, rest.split())
            h = 0
            for _ in range(rr):
                for me in range(t):
                    h = (h * 31 + me + 1) % 1000000007
            out.append("S%d ring hash=%d turn=0" % (sno, h))
        elif kw == "barrier":
            t, p, w = map(int, rest.split())
            out.append("S%d barrier serial=%d ok=%d" % (sno, 2 * p, t * p))
        elif kw == "once":
            t, rr, y = map(int, rest.split())
            out.append("S%d once calls=%d seen=%d" % (sno, rr, t * rr))
        elif kw == "keys":
            parts = rest.split(";")
            k, t, dm = map(int, parts[0].split())
            final, nset = {}, 0
            for e in parts[1:]:
                if not e.strip():
                    continue
                th, key, v = map(int, e.split())
                final[(th, key)] = v
                nset += 1
            calls = sorted((th, key, v) for (th, key), v in final.items() if v != 0 and (dm >> key) & 1)
            out.append("S%d keys fresh=%d match=%d dtors=%s" % (sno, t * k + k, nset, ",".join("%d:%d:%d" % c for c in calls)))
            out.append("S%d keys.null_dtor_calls=" % sno)
        elif kw == "detach":
            t = int(rest.split()[0])
            out.append("S%d detach done=%d sum=%d" % (sno, t, sum((i + 1) ** 2 for i in range(t))))
        elif kw == "ids":
            t = int(rest)
            out.append("S%d ids self=%d match=%d notmain=%d distinct=%d" % (sno, t, t, t, t * (t - 1) // 2))
            out.append("S%d ids.os_threads=%d users=%d" % (sno, t + 1, t))
        elif kw == "sleep":
            w = rest.split()
            n = 0
            for i in range(int(w[0])):
                m = re.match(r"^[unsa]?\d+(?:x(\d+))?$", w[1 + i]) if 1 + i < len(w) else None
                rep = int(m.group(1)) if m and m.group(1) else 1
                n += rep if 1 <= rep <= 50 else 1
            out.append("S%d sleep ok=%d of=%d" % (sno, n, n))
        elif kw == "solo":
            out.append("S%d solo ok=%d of=%d" % (sno, len(rest.strip()), len(rest.strip())))
        else:
            raise ValueError("oracle: unknown scene " + kw)
    out.append("end")
    return "\n".join(out) + "\n", status


NULL_DTOR = re.compile(r"^S(\d+) keys\.null_dtor_calls=(.*)$")
KEY_IDS = re.compile(r"^S(\d+) keys\.ids=(.*)$")
OS_THREADS = re.compile(r"^S(\d+) ids\.os_threads=(-?\d+) users=(\d+)$")
LEAF = 16          # entries of a leaf of the MassiveThreads TLS tree (src/myth_tls.h), as in the listed finding
HELPERS = 0        # OS threads of the library besides its workers (measured on the unchanged tree: none)


def split_known(stdout):
    """(text without the configuration-specific lines, {scene: null-dtor entries}, {scene: key values},
    [(scene, os threads, user threads)])"""
    keep, nd, ids, osl = [], {}, {}, []
    for l in stdout.split("\n"):
        m = NULL_DTOR.match(l)
        if m:
            nd[int(m.group(1))] = [x for x in m.group(2).split(",") if x]
            continue
        m = KEY_IDS.match(l)
        if m:
            ids[int(m.group(1))] = [int(x) for x in m.group(2).split(",") if x]
            continue
        m = OS_THREADS.match(l)
        if m:
            osl.append((int(m.group(1)), int(m.group(2)), int(m.group(3))))
            continue
        keep.append(l)
    return "\n".join(keep), nd, ids, osl


def keys_scenes(text):
    """{scene number: (dm, {thread: set of key indices stored under (any value)}, {(thread, key): final value})}"""
    res, sno = {}, 0
    for raw in text.split("\n"):
        line = raw.split("#")[0].strip()
        if not line:
            continue
        kw, _, rest = line.partition(" ")
        if kw in ("noyield", "exit"):
            continue
        sno += 1
        if kw == "keys":
            parts = rest.split(";")
            k, t, dm = map(int, parts[0].split())
            touched, final = {}, {}
            for e in parts[1:]:
                if e.strip():
                    th, key, v = map(int, e.split())
                    touched.setdefault(th, set()).add(key)
                    final[(th, key)] = v
            res[sno] = (dm, touched, final)
    return res


def null_dtor_verdict(text, nd, ids):
    """the listed finding C16-null-destructor-calls, exactly: at thread exit MassiveThreads calls every destructor of
    a 16-entry leaf of the key space under which the thread stored something, also when the value is NULL.
    Returns (number of calls covered by the finding, [what goes beyond it])"""
    ks, covered, beyond = keys_scenes(text), 0, []
    for sno, ents in nd.items():
        if not ents:
            continue
        if sno not in ks or sno not in ids:
            beyond.append("S%d: NULL-value destructor calls in a scene without keys" % sno)
            continue
        dm, touched, final = ks[sno]
        kv = ids[sno]
        seen = set()
        for e in ents:
            w = e.split(":")
            try:
                t = int(w[0])
                old = w[1].startswith("x")
                key = int(w[1][1:]) if old else int(w[1])
            except (ValueError, IndexError):
                beyond.append("S%d: unparsable entry %s" % (sno, e))
                continue
            leaves = set(kv[k] // LEAF for k in touched.get(t, ()) if k < len(kv))
            if e in seen:
                beyond.append("S%d: destructor of key %s called twice with NULL by thread %d" % (sno, w[1], t))
            elif t < 0:
                beyond.append("S%d: NULL-value destructor call %s by an unknown thread" % (sno, e))
            elif old:
                # the destructor registered for a key that has been DELETED (an earlier scene), key value `key`
                if key // LEAF not in leaves:
                    beyond.append("S%d: thread %d: destructor of deleted key %d called though its leaf was never touched" % (sno, t, key))
                else:
                    covered += 1
            elif not (0 <= key < len(kv)) or not (dm >> key) & 1:
                beyond.append("S%d: NULL-value call attributed to key %d which has no destructor" % (sno, key))
            elif final.get((t, key), 0) != 0:
                beyond.append("S%d: thread %d key %d: destructor called with NULL although the value is %d" % (sno, t, key, final[(t, key)]))
            elif kv[key] // LEAF not in leaves:
                beyond.append("S%d: thread %d key %d (value %d): NULL-value destructor call though the thread stored nothing in that leaf"
                              % (sno, t, key, kv[key]))
            else:
                covered += 1
            seen.add(e)
    return covered, beyond


def os_threads_verdict(cfg, osl):
    """None, or why the OS-thread counts show that the calls did not go where the configuration says"""
    name, which, env = cfg
    wrapped = which != "plain" and env.get("MYTH_WRAP_PTHREAD") == "1"
    for sno, n, users in osl:
        if wrapped:
            want = int(env["MYTH_NUM_WORKERS"]) + HELPERS
            if n != want:
                if n >= users + 1 and users + 1 > want:
                    return ("redirection not in effect: %d OS threads while %d user threads are alive (S%d); with the calls "
                            "redirected to MassiveThreads the process has %d (its workers), whatever the number of user threads"
                            % (n, users, sno, want))
                return "S%d: %d OS threads with %d user threads alive, expected %d (the workers)" % (sno, n, users, want)
        elif n != users + 1:
            return "S%d: %d OS threads with %d user threads alive on the system library, expected %d" % (sno, n, users, users + 1)
    return None


class Stop:
    def __init__(self):
        self.bad = 0


def judge_program(bins, cfgs, text, path, stop=None):
    """run a program under every configuration; returns (divergences, known_hits, results)"""
    exp_out, exp_rc = oracle(text)
    exp_main = split_known(exp_out)[0]
    divs, known, results = [], [], {}
    if stop is not None and stop.bad >= STOP_AFTER:
        return divs, known, results
    hung = 0
    for cfg in cfgs:
        if hung >= 1:            # it hangs: one confirmed hang (re-tried with the long timeout) is enough
            break
        for attempt in range(3):
            rc, out, err = run_one(bins, cfg, path)
            main, nd, ids, osl = split_known(out)
            osv = os_threads_verdict(cfg, osl) if rc == exp_rc and main == exp_main else None
            if osv is None or osv.startswith("redirection"):
                break                # an exiting thread of an earlier scene may linger: sample again
        results[cfg[0]] = {"rc": rc, "stdout": out, "stderr": err}
        div = lambda why: divs.append({"config": cfg[0], "exit": rc, "expected_exit": exp_rc, "stdout": out[-3000:],
                                       "expected_stdout": exp_out[-3000:], "stderr": err, "why": why})
        if rc != exp_rc or main != exp_main:
            hung += rc == "timeout"
            div("output / exit status")
            continue
        if osv:
            div(osv)
            continue
        covered, beyond = null_dtor_verdict(text, nd, ids)
        if beyond:
            div("NULL-value destructor calls beyond the listed finding: " + "; ".join(beyond[:4]))
        elif covered:
            known.append({"config": cfg[0], "observed": ["S%d keys.null_dtor_calls=%s" % (k, ",".join(v)) for k, v in sorted(nd.items()) if v],
                          "expected": ["no NULL-value destructor call"], "calls": covered})
    if divs and stop is not None:
        stop.bad += 1
    return divs, known, results


# ----------------------------------------------------------------------------------------------
# the check
# ----------------------------------------------------------------------------------------------

def corpus_programs():
    d = os.path.join(vlib.VERIF, "corpus", "C16")
    res = []
    if os.path.isdir(d):
        for f in sorted(os.listdir(d)):
            if f.endswith(".case"):
                res.append((f[:-5], open(os.path.join(d, f)).read()))
    return res


def report_generated(ctx, tr, gres, failing, found_any):
    gbad = [th for th, (ok, _) in gres.items() if not ok]
    if gbad:
        what = "verified checker rejects the data regenerated from the current tree: " + ", ".join(gbad)
        if failing:
            what += "; rejected wrapper entries: " + ", ".join(failing[:12])
        body = {"theorem_or_correspondence": ", ".join(gbad), "rejected_entries": failing,
                "entries": [e for e in tr["entries"] if e["name"] in failing][:6],
                "attr": tr["attr"], "static_init_shape": tr["static_init"], "sizes": tr["sizes"],
                "log": "\n".join(gres[th][1] for th in gbad)[-3000:]}
        if found_any:
            body["concrete_divergence"] = "see the failing-input replay of this run"
        ctx.violation("generated-data", what, body, found=False)


def run(ctx):
    broken, log = ctx.prove("Properties_C16.v", "Properties_C16")
    tr, gres, failing = generated_checks(ctx)
    for th, (ok, glog) in gres.items():
        ctx.cov["obligations"] += 1
        ctx.cov["discharged"] += 1 if ok else 0
        ctx.cov["theorems"][th] = {"statement": "verified checker = true on the data regenerated from %s (vm_compute), "
                                   "then the soundness theorem instantiated" % vlib.REPO,
                                   "status": "checked" if ok else "FAILED",
                                   "assumptions": "Closed under the global context" if ok else None}
    try:
        bins = build_all(ctx)
    except vlib.BuildError as e:
        # the current tree no longer builds one of the three ways: report that AND what the table check says
        ctx.violation("build", "harness/library build failed: " + str(e)[:1200],
                      {"theorem_or_correspondence": "build of the three-way differential harness", "log": str(e)[-4000:]}, found=False)
        report_generated(ctx, tr, gres, failing, False)
        if broken:
            ctx.violation("proof", "theorem(s) no longer check: " + ", ".join(broken),
                          {"theorem_or_correspondence": ", ".join(broken), "log": getattr(ctx, "proof_log", log[-3000:])}, found=False)
        return ctx.finish()
    cfgs = configs(ctx.thorough)
    # unit harness of the static initialiser
    unit = []
    for nt, rounds in ((2, 2000), (4, 2000), (8, 1000)) + (((16, 4000),) if ctx.thorough else ()):
        rc, out = vlib.sh([bins["unit"], str(nt), str(rounds)], timeout=300)
        unit.append({"threads": nt, "rounds": rounds, "rc": rc, "out": out.strip()[-300:]})
    unit_bad = [u for u in unit if u["rc"] != 0 or not re.search(
        r"bad_magic=0 bad_fields=0 touched_initialised=0 bad_ret=0$", u["out"])]
    # programs: corpus first, then generated
    progs = corpus_programs()
    n = 60 if not ctx.thorough else 1500
    for i in range(n):
        progs.append(("gen%03d" % i, gen_program(ctx.rng, big=ctx.thorough)))
    cdir = os.path.join(ctx.dir, "cases" + scratch_tag())
    shutil.rmtree(cdir, ignore_errors=True)
    os.makedirs(cdir)
    jobs = []
    for name, text in progs:
        p = os.path.join(cdir, name + ".case")
        open(p, "w").write(text)
        jobs.append((name, text, p))
    t0 = time.time()
    with ThreadPoolExecutor(max_workers=max(2, min(8, vlib.NPROC // 2))) as ex:
        stop = Stop()
        verdicts = list(ex.map(lambda j: judge_program(bins, cfgs, j[1], j[2], stop), jobs))
    wall = time.time() - t0
    kinds, nruns, all_divs, all_known = {}, 0, [], []
    for (name, text, p), (divs, known, results) in zip(jobs, verdicts):
        nruns += len(results)
        for l in text.split("\n"):
            k = l.split(" ")[0]
            if k and k not in ("exit", "noyield"):
                kinds[k] = kinds.get(k, 0) + 1
        for d in divs:
            all_divs.append((name, text, d))
        for k in known:
            all_known.append((name, text, k))
    ctx.cov["correspondence"] = {
        "programs": len(progs), "runs": nruns, "cases": nruns, "configurations": [c[0] for c in cfgs],
        "disagreements": len(all_divs), "known_finding_runs": len(all_known), "scene_distribution": kinds,
        "differential_wall_s": round(wall, 1), "static_init_unit": unit,
        "wrapper_table": {"entries": len(tr["entries"]), "wrap_lines_in_opts": len(tr["opts"]),
                          "rejected_entries": failing, "constants": tr["consts"], "sizes": tr["sizes"],
                          "attr": {k: tr["attr"][k] for k in ("fields", "init_writes", "create_reads")},
                          "attr_to_myth_steps": tr["attr"]["xlate"].get("pthread_attr_to_myth"),
                          "static_init_shape": tr["static_init"]},
        "generated_checks": {th: ok for th, (ok, _) in gres.items()}}
    ctx.cov["samples"] += [{"program": jobs[i][1], "expected": oracle(jobs[i][1])[0]} for i in (0, len(jobs) // 2, len(jobs) - 1)]
    ctx.cov["samples"] += [{"wrapper": e["name"], "wrapped": e["wrapped"], "real": e["real"]} for e in tr["entries"]
                           if e["name"] in ("pthread_mutex_trylock", "pthread_barrier_wait", "pthread_create")]
    ctx.cov["trusted_base"] += [
        "translator tools/props/c16_translate.py (gcc -E of src/myth_wrap_pthread.c and src/myth_real.c with the library's flags, "
        "statement classifier, src/myth-ld.opts reader, compiled constant/sizeof probe); what it extracted is in coverage.correspondence.wrapper_table",
        "harness/c16_prog.c (program interpreter, pthread API only) and the Python oracle in tools/props/c16.py (expected output by construction)",
        "harness/c16_static_init.c (includes the current src/myth_wrap_pthread.c; real OS threads, real concurrency)",
        "modelled, not verified: glibc is taken as the POSIX reference (assumption); the bodies behind the wrappers are the other "
        "properties' subject; tracing calls enter/leave_wrapped_func are assumed to have no effect (MYTH_TRACE_WRAPPED_FUNC unset)"]
    ctx.notes.append("preload style (MYTH_WRAP_DL shared object + LD_PRELOAD) is built offline from the same objects in a few seconds and is part of every run")

    # ---- verdicts ----
    if all_divs:
        name, text, d = min(all_divs, key=lambda x: (len(x[1]), x[0]))      # the smallest diverging program
        # "redirection not in effect" is the more telling verdict when both kinds occur
        red = [x for x in all_divs if x[2]["why"].startswith("redirection")]
        if red:
            name, text, d = min(red, key=lambda x: (len(x[1]), x[0]))
        ctx.violation("redirection" if red else "differential",
                      "program %s: configuration %s diverges from the expected result (%s; exit %s, expected %s); %d diverging run(s) in all"
                      % (name, d["config"], d["why"][:260], d["exit"], d["expected_exit"], len(all_divs)),
                      {"program": text, "program_name": name, "config": d["config"], "observed": {"exit": d["exit"], "stdout": d["stdout"], "stderr": d["stderr"]},
                       "expected": {"exit": d["expected_exit"], "stdout": d["expected_stdout"]},
                       "why": d["why"],
                       "all_diverging": [(nm, dd["config"], dd["exit"], dd["why"][:80]) for nm, _, dd in all_divs[:40]], "level": "process"}, found=True)
    if unit_bad:
        ctx.violation("static-init-unit", "myth_handle_PTHREAD_MUTEX_INITIALIZER under real concurrency: " + unit_bad[0]["out"],
                      {"unit": unit_bad[0], "level": "unit"}, found=True)
    found_any = bool(all_divs or unit_bad)
    report_generated(ctx, tr, gres, failing, found_any)
    if broken:
        ctx.violation("proof", "theorem(s) no longer check: " + ", ".join(broken),
                      {"theorem_or_correspondence": ", ".join(broken), "log": getattr(ctx, "proof_log", log[-3000:])}, found=False)
    if all_known:
        listed = [f for f in vlib.known_findings("C16") if f.get("id") == KNOWN_NULL_DTOR]
        name, text, k = all_known[0]
        msg = ("%s destructors called with a NULL value at thread exit, only for keys of a 16-entry leaf the thread stored into "
               "(program %s, %s: %s; glibc and the oracle: none); %d run(s), %d such calls"
               % (KNOWN_NULL_DTOR, name, k["config"], " ".join(k["observed"])[:160], len(all_known), sum(x[2]["calls"] for x in all_known)))
        if listed:
            ctx.known(msg)
        else:
            ctx.violation("differential", msg, {"program": text, "observed": k, "level": "process"}, found=True)
    return ctx.finish(assumptions=[
        "glibc refines the POSIX specification (the reference side is not modelled): the equality of results of the two "
        "implementations is partial as a theorem and is what the differential run tests",
        "the bodies other than the mutex / condition-variable protocol (composed with C04's model in Wrap/StaticMutexCompose.v) "
        "refine the POSIX objects: subject of C01, C05, C06, C10, C11, C13, C14, C20",
        "programs do not rely on preemption (a busy-wait without sched_yield may not terminate on a non-preemptive "
        "user-level scheduler with one worker) and do not re-initialise a mutex in use (POSIX usage contract)",
        "magic word of the object is not the 'initializing' constant 987654321 before first use (a static initialiser is all zero)"])


def replay(ctx, path):
    body = json.load(open(path))
    text = body.get("program")
    if not text:
        print("replay file holds no program: ", body.get("what"))
        print(json.dumps({k: body[k] for k in ("theorem_or_correspondence", "rejected_entries", "unit") if k in body}, indent=1))
        print("on the tree at %s now:" % vlib.REPO)
        if "unit" in body:
            bins = build_all(ctx)
            u = body["unit"]
            print(vlib.sh([bins["unit"], str(u["threads"]), str(u["rounds"])], timeout=300)[1].strip())
        else:
            ok, log = vlib.coq_make(["Properties_C16.vo"])
            tr, gres, failing = generated_checks(ctx)
            for th, (good, glog) in gres.items():
                print("  %s: %s" % (th, "checked" if good else "FAILED"))
            print("  rejected wrapper entries:", failing)
            for e in tr["entries"]:
                if e["name"] in failing:
                    print("  ", e["name"], "wrapped:", e["wrapped"], "real:", e["real"], "in_opts:", e["in_opts"],
                          "real_ld:", e["real_ld"], "real_dl:", e["real_dl"])
        return 0
    bins = build_all(ctx)
    p = os.path.join(ctx.dir, "replay.case")
    open(p, "w").write(text)
    exp_out, exp_rc = oracle(text)
    print("program:\n" + text)
    print("expected (oracle): exit %d\n%s" % (exp_rc, exp_out))
    exp_main = split_known(exp_out)[0]
    for cfg in configs(True):
        rc, out, err = run_one(bins, cfg, p)
        main, nd, ids, osl = split_known(out)
        why = []
        if rc != exp_rc or main != exp_main:
            why.append("output / exit status")
        osv = os_threads_verdict(cfg, osl)
        if osv:
            why.append(osv)
        covered, beyond = null_dtor_verdict(text, nd, ids)
        why += beyond
        print("[%s] exit %s %s%s" % (cfg[0], rc, "== expected" if not why else "DIFFERS: " + "; ".join(why),
                                     " (%d NULL-value destructor calls covered by the listed finding)" % covered if covered else ""))
        if why:
            print(out + err)
    return 0
