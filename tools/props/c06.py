"""C06 - barrier: nobody passes round k before all N arrived; one serial thread per round; immediately
reusable (DESIGN.md section 4, C06).

Proof side: coq/Barrier/BarrierModel.v (+ BarrierProofs.v, Properties_C06.v).
Tie: generated barrier programs run on the real library under the schedule controller
(harness/lib_interp.c); every trace is (1) replayed through the extracted model (labels, hook values,
barrier words incl. the sleep stack's links before every step) and (2) judged by an independent oracle of
the property on the C/R lines of the trace (call/return order, return values, arrival counters)."""
import os, re, json, shutil, time
import vlib, trace

VF = ["Barrier/BarrierModel.v"]
POINTS = ["barrier.read", "barrier.cas", "barrier.reset", "sstack.pop.read", "sstack.pop.cas",
          "sstack.push.read", "sstack.push.cas", "wakemanys.push"]
# derived trace patterns that the quick tier must exercise as well
PATTERNS = ["wakemanys.spin", "push.cas.failed", "barrier.cas.failed", "pop.cas.failed", "racer.ahead"]


# participants with per-thread arrival counters (lib_interp has 128 objects: 2N+1 <= 128)
N_SMALL = (1, 2, 3, 4, 5, 8, 16, 17)
N_SMALL_WEIGHTED = [1, 2, 2, 3, 3, 3, 4, 4, 5, 5, 5, 8, 8, 16, 17]
# participants of the plain programs (no counters, nothing between rounds) of the quick tier; the sizes a
# maintainer would plausibly pick for a batch / an array / a queue (and one past them)
N_PLAIN_QUICK = (64, 256, 257, 1025, 1026, 1100)
# every N >= 3 of the quick tier must show the racer-ahead situation (with N <= 2 it cannot occur: the only
# sleeper is pushed by the last step of the release)
N_RACER_GATE = (3, 4, 5, 8, 16, 17) + N_PLAIN_QUICK


def build(ctx):
    exe = trace.build_interp()
    drv = vlib.build_driver("C06", "Extract_C06.v", "driver_C06.ml", VF)
    return exe, drv


# --------------------------------------------------------------------------------------------------
# programs
# --------------------------------------------------------------------------------------------------

def gen_program(rng, N, rounds, racer, filler):
    """N participants = threads 0..N-1 (thread 0 = main creates the others and joins them at the end).
    Round k (1-based) of participant p:   add c<p> 1 ; bwait b ; get c<q> (every q != p)
    c<p> is written by p only (no lost updates), so after p's k-th wait returned, c<q> must be k (q has
    arrived in round k) or k+1 (q already arrived in round k+1); k+2 is impossible before p arrives again.
    racer = index of the participant that does nothing between rounds (or None); the others do
    `filler` work (yield / add to a private variable) between rounds."""
    objs = ["b barrier %d" % N] + ["c%d var 0" % p for p in range(N)] + ["w%d var 0" % p for p in range(N)]
    threads = {}
    for p in range(N):
        ops = []
        if p == 0:
            ops += ["create %d" % q for q in range(1, N)]
        for k in range(1, rounds + 1):
            if p != racer:
                for _ in range(rng.below(3) if filler else 0):
                    ops.append(rng.choice(["yield", "add w%d 1" % p, "nop"]))
            if p != racer:
                ops.append("add c%d 1" % p)
            ops.append("bwait b")
            for q in range(N):
                if q != p and p != racer and q != racer:
                    ops.append("get c%d" % q)
        if p == 0:
            ops += ["join %d" % q for q in range(1, N)]
        threads[p] = ops
    return objs, threads


def gen_big_case(rng, N, rounds=2, workers=None, pswitch=85, snapmax=6):
    """a barrier with more participants than any plausible internal batch size (a release loop that works in
    chunks, a fixed-size array of sleepers, ...).  No counters (lib_interp has 128 objects): the trace-order
    oracle is exact on its own.  Threads do nothing between rounds, so every woken thread is a racer; with
    pswitch high the popper is descheduled between pushes and stolen threads re-arrive while it is still busy.
    `snapmax 6`: only the first 6 entries of the sleep stack are listed per POINT (the model compares that
    prefix); creators are spread so that no thread has more than 4096 ops."""
    workers = workers or rng.rng(2, 4)
    per = 1200
    creators = {}
    for q in range(1, N):
        creators.setdefault((q - 1) // per if (q - 1) // per < q else 0, []).append(q)
    threads = {}
    for p in range(N):
        kids = creators.get(p, [])
        threads[p] = ["create %d" % q for q in kids] + ["bwait b"] * rounds + ["join %d" % q for q in kids]
    return trace.case_text(workers, rng.rng(1, 1 << 30), ["b barrier %d" % N], threads, pswitch=pswitch,
                           extra=({"snapmax": snapmax} if snapmax else None), maxsteps=40000000)


def gen_life_case(rng, counts=None, workers=None, pswitch=None):
    """object lifecycle: barrier b lives through several incarnations.  Incarnation i: threads 0..N_i-1 do r_i rounds
    on b; after the last of them the thread that got the serial value (`ifret 1`) destroys b and re-initialises it
    for N_(i+1) (<, =, > N_i; attr == NULL or a myth_barrierattr_t) - typically while the other participants of
    that round are released (in a run queue) but have not resumed yet: with one worker always, because the serial
    thread keeps the worker until it blocks.  Then ALL threads meet at the gate barrier g (never re-initialised),
    so nobody enters the new incarnation before it exists.  Destroy right after one's own wait returned is what
    POSIX allows for pthread_barrier_destroy."""
    if counts is None:
        n0 = rng.rng(2, 7)
        counts = [n0]
        for _ in range(rng.rng(1, 3)):
            prev = counts[-1]
            kind = rng.below(4)
            nxt = rng.rng(1, prev - 1) if kind <= 1 and prev > 1 else prev if kind == 2 else rng.rng(prev + 1, prev + 3)
            counts.append(nxt)
    incs = [(n, rng.rng(1, 3), rng.below(2)) for n in counts]
    M = max(counts)
    workers = workers or rng.choice([1, 1, 2, 3, 4])
    pswitch = pswitch or rng.choice([20, 35, 60, 85])
    threads = {}
    for p in range(M):
        ops = ["create %d" % q for q in range(1, M)] if p == 0 else []
        for i, (n, rounds, _) in enumerate(incs):
            if p < n:
                ops += ["bwait b"] * rounds
                if i + 1 < len(incs):
                    ops.append("ifret 1 bdestroy b")
                    ops.append("ifret 1 binit b %d%s" % (incs[i + 1][0], " attr" if incs[i + 1][2] else ""))
            if i + 1 < len(incs):
                ops.append("bwait g")
        if p == 0:
            ops += ["join %d" % q for q in range(1, M)]
        threads[p] = ops
    txt = trace.case_text(workers, rng.rng(1, 1 << 30), ["b barrier %d" % counts[0], "g barrier %d" % M], threads,
                          pswitch=pswitch)
    return "# c06life b g %s\n" % " ".join("%d:%d:%d" % t for t in incs) + txt


def life_stats(case, events):
    """per re-initialisation of a lifecycle program: was it done while a released participant of the old round had
    not returned yet?  -> list of (relation '<' '=' '>', attr, pending returns at the time of binit)"""
    life = lifecycles(case)
    if not life:
        return []
    res = []
    for name, (gate, incs) in life.items():
        open_wait, k = set(), 0
        for e in events:
            if e.kind == "C" and e.words[0] == "bwait" and e.words[1] == name:
                open_wait.add(e.actor)
            elif e.kind == "R" and e.actor in open_wait:
                open_wait.discard(e.actor)
            elif e.kind == "C" and e.words[0] == "binit" and e.words[1] == name and k + 1 < len(incs):
                a, b = incs[k][0], incs[k + 1][0]
                res.append(("<" if b < a else "=" if b == a else ">", incs[k + 1][2], len(open_wait)))
                k += 1
    return res


def gen_case(rng, N=None, rounds=None, workers=None, pswitch=None, racer="maybe"):
    N = N or rng.choice(N_SMALL_WEIGHTED)
    rounds = rounds or rng.rng(1, 6)
    workers = workers or rng.rng(1, 4)
    pswitch = pswitch or rng.choice([20, 35, 60, 85])
    if racer == "maybe":
        racer = rng.below(N) if rng.chance(1, 2) else None
    objs, threads = gen_program(rng, N, rounds, racer, filler=True)
    seed = rng.rng(1, 1 << 30)
    return trace.case_text(workers, seed, objs, threads, pswitch=pswitch)


# --------------------------------------------------------------------------------------------------
# projection of a lib_interp trace onto Abs(barrier)
# --------------------------------------------------------------------------------------------------

def lifecycles(case):
    """{barrier name: (gate name, [(N_i, rounds_i, attr_i)])} from the header lines `# c06life b g 3:2:0 2:1:1 ..`
    of the object-lifecycle programs (gen_life_case): incarnation i of b has N_i participants (threads 0..N_i-1)
    and rounds_i rounds; it was created by myth_barrier_init with attr != NULL iff attr_i"""
    res = {}
    for line in case.split("\n"):
        w = line.split()
        if len(w) >= 5 and w[0] == "#" and w[1] == "c06life":
            res[w[2]] = (w[3], [tuple(int(x) for x in t.split(":")) for t in w[4:]])
    return res


def instances(case):
    """one entry per barrier incarnation: {name, N, parts, inc, incmap}.  inc is None for a barrier that is never
    re-initialised; else incmap[p][j] = the incarnation the j-th `bwait name` of thread p belongs to (= the number
    of gate waits before it in p's program)"""
    objs, threads, scripts, _ = trace.parse_case(case)
    life = lifecycles(case)
    res = []
    for n, (k, par) in objs.items():
        if k != "barrier":
            continue
        if n in life:
            gate, incs = life[n]
            incmap = {}
            for p, ops in threads.items():
                g, l = 0, []
                for o in ops:
                    if o[0] == "bwait" and o[1] == gate:
                        g += 1
                    elif o[0] == "bwait" and o[1] == n:
                        l.append(g)
                incmap[p] = l
            for i, inc in enumerate(incs):
                res.append({"name": n, "N": inc[0], "parts": sorted(p for p in incmap if i in incmap[p]),
                            "inc": i, "incmap": incmap})
        else:
            parts = sorted(t for t, ops in threads.items() if any(o[0] == "bwait" and o[1] == n for o in ops))
            res.append({"name": n, "N": par[0] if par else 0, "parts": parts, "inc": None, "incmap": None})
    return res


def barriers_of(case):
    """[(name, N, participants sorted by tag)], one per barrier incarnation"""
    return [(d["name"], d["N"], d["parts"]) for d in instances(case)]


_STK = re.compile(r"stk=\[([^\]]*)\]")


REPLAY_LIMIT_N = 3000        # above this N only a prefix of the trace is replayed through the model
REPLAY_LIMIT_LINES = 40000   # (unary nats make a model step O(N)); the oracle always judges the whole trace


def c06_block(name, N, parts, events, inc=None, incmap=None):
    """driver input for one barrier object (one incarnation of it): (lines, source event per line).  Thread tags
    are renamed to participant indices 0..len(parts)-1 (the model instance of the theorems is `init_state N N`).
    With inc / incmap only the calls of that incarnation are projected: a call belongs to the incarnation its
    thread's program says, all POINTs and the return of the thread belong to its open call - so the returns of
    released participants that resume AFTER the re-initialisation still belong to the old incarnation."""
    idx = {t: i for i, t in enumerate(parts)}
    ncall, cur = {}, {}

    def tg(s):           # 't7' -> participant index as text ('?' if not a participant)
        if s and s[0] == "t" and s[1:].isdigit():
            return str(idx.get(int(s[1:]), "?"))
        return None

    lines, src = ["begin %d %d" % (len(parts), N)], [None]
    open_call = {}
    for e in events:
        if e.kind == "C":
            if e.words[0] == "bwait" and e.words[1] == name:
                if incmap is not None:
                    j = ncall.get(e.actor, 0)
                    ncall[e.actor] = j + 1
                    l = incmap.get(e.actor, [])
                    cur[e.actor] = l[j] if j < len(l) else -1
                    if cur[e.actor] != inc:
                        continue
                lines.append("call %s wait" % idx.get(e.actor, "?"))
                src.append(e)
                open_call[e.actor] = True
        elif incmap is not None and cur.get(e.actor) != inc:
            continue
        elif e.kind == "R":
            if open_call.get(e.actor):
                lines.append("ret %s %s" % (idx.get(e.actor, "?"), e.words[1]))
                src.append(e)
                open_call[e.actor] = False
        elif e.kind == "P":
            pid, obj, val = e.words[0], e.words[1], e.words[2]
            if obj != name or e.actor is None:
                continue
            m1, m2, m3 = re.search(r"state=(-?\d+)", e.snap), re.search(r" n=(-?\d+)", " " + e.snap), _STK.search(e.snap)
            if not (m1 and m2 and m3):
                # truncated line (the process died while writing it): the driver reports it as unparsable
                lines.append("garbled %s" % pid)
                src.append(e)
                continue
            st, n = m1.group(1), m2.group(1)
            stk = [tg(x) or "?" for x in m3.group(1).split(",") if x]
            v = tg(val) if tg(val) is not None else ("-" if val in ("-", "big", "t?") else val)
            kind = "Bp" if " more=1" in e.snap else "B"      # Bp: the snapshot lists only a prefix (snapmax)
            lines.append("tick %s %s %s %s %s %s %s %d %s" % (idx.get(e.actor, "?"), e.ctx, pid, v, kind, st, n,
                                                             len(stk), " ".join(stk)))
            src.append(e)
    if N > REPLAY_LIMIT_N and len(lines) > REPLAY_LIMIT_LINES:
        lines, src = lines[:REPLAY_LIMIT_LINES], src[:REPLAY_LIMIT_LINES]
    lines.append("end")
    src.append(None)
    return lines, src


# --------------------------------------------------------------------------------------------------
# independent oracle of the property on one trace
# --------------------------------------------------------------------------------------------------

def oracle(case, r):
    """None if the property holds on this run, else a message.  Uses only the interpreter's C/R lines
    (call / return order, return values, counter readings) and the verdict - not the model."""
    incomplete = None
    if r["verdict"] is None or not r["verdict"].startswith("DONE") or r["rc"] != 0:
        v = r["verdict"] or "none"
        v = re.sub(r"blocked=\[([^\]]{60})[^\]]*\]", r"blocked=[\1...]", v)
        incomplete = "run did not complete: verdict %s rc %s %s" % (v, r["rc"], r["out"][-200:].strip())
    _, threads, _, _ = trace.parse_case(case)
    for inst in instances(case):
        name, N, parts, inc, incmap = inst["name"], inst["N"], inst["parts"], inst["inc"], inst["incmap"]
        if len(parts) != N:
            continue                          # not a program of the class the property quantifies over
        if inc is not None:
            name_txt = "%s (incarnation %d, initialised for %d)" % (name, inc, N)
        else:
            name_txt = name
        calls = {p: [] for p in parts}      # trace positions of the k-th call / return (of this incarnation)
        rets = {p: [] for p in parts}
        vals = {p: [] for p in parts}
        pend, ncall, mine = {}, {}, {}
        gets = []                            # (thread, rounds completed, variable, value)
        for pos, e in enumerate(r["events"]):
            if e.kind == "C":
                pend[e.actor] = e.words
                if e.words[0] == "bwait" and e.words[1] == name:
                    # a call belongs to the incarnation the thread's program says; so does its return, even when
                    # the thread resumes only after the object has been destroyed and re-initialised
                    j = ncall.get(e.actor, 0)
                    ncall[e.actor] = j + 1
                    l = incmap.get(e.actor, []) if incmap is not None else None
                    mine[e.actor] = (incmap is None) or (j < len(l) and l[j] == inc)
                    if mine[e.actor] and e.actor in calls:
                        calls[e.actor].append(pos)
            elif e.kind == "R" and e.actor in pend:
                w = pend.pop(e.actor)
                if w[0] == "bwait" and w[1] == name and e.actor in rets and mine.get(e.actor):
                    rets[e.actor].append(pos)
                    vals[e.actor].append(int(e.words[1]))
                elif w[0] == "get" and re.fullmatch(r"c\d+", w[1]) and e.actor in rets:
                    gets.append((e.actor, len(rets[e.actor]), int(w[1][1:]), int(e.words[1])))
        if incmap is not None:
            want = {p: sum(1 for x in incmap.get(p, []) if x == inc) for p in parts}
        else:
            want = {p: sum(1 for o in threads[p] if o[0] == "bwait" and o[1] == name) for p in parts}
        rounds = min(want.values()) if want else 0
        name = name_txt
        # (1) nobody returns from its k-th wait before all N have entered their k-th wait - judged on every
        #     return that happened, also in runs that did not complete
        INF = len(r["events"]) + 1
        for k in range(rounds):
            last_arrival = max(calls[p][k] if k < len(calls[p]) else INF for p in parts)
            for p in parts:
                if k < len(rets[p]) and rets[p][k] < last_arrival:
                    late = [q for q in parts if k >= len(calls[q]) or calls[q][k] > rets[p][k]]
                    arrived = N - len(late)
                    return ("t%d returned from its wait #%d on %s with only %d/%d participants arrived (t%s had not "
                            "entered their wait #%d)%s" % (p, k + 1, name, arrived, N, ",t".join(map(str, late[:6])),
                                                         k + 1, "; " + incomplete if incomplete else ""))
        if incomplete:
            return incomplete
        for p in parts:
            if len(rets[p]) != want[p]:
                return "t%d completed %d of its %d waits on %s" % (p, len(rets[p]), want[p], name)
        # (2) exactly one serial thread per round
        for k in range(rounds):
            vs = sorted(vals[p][k] for p in parts)
            if vs != [0] * (N - 1) + [1]:
                ones = [p for p in parts if vals[p][k] == 1]
                return "round %d of %s: return values are not one 1 and %d zeros: threads returning 1: %s, other values: %s" % (
                    k + 1, name, N - 1, ones[:8], sorted(set(v for v in vs if v not in (0, 1)))[:5])
        # (3) arrival counters read right after the k-th return
        for (p, k, q, v) in gets:
            if q in calls and not (k <= v <= k + 1):
                return "t%d read arrival counter c%d = %d after its wait #%d (must be %d or %d)" % (p, q, v, k, k, k + 1)
    return incomplete


# --------------------------------------------------------------------------------------------------
# running
# --------------------------------------------------------------------------------------------------

def patterns(events):
    """histogram of the barrier's POINT ids plus derived patterns (see PATTERNS)"""
    h = {}
    last = {}            # (actor, ctx) -> last point id on the barrier within the current call
    for e in events:
        if e.kind == "S" and e.words and e.words[0] == "wakemanys.spin":
            h["wakemanys.spin"] = h.get("wakemanys.spin", 0) + 1
        if e.kind == "C" and e.words[0] == "bwait":
            last[(e.actor, "m")] = None
            last[(e.actor, "c")] = None
        if e.kind != "P":
            continue
        pid = e.words[0]
        if not (pid.startswith("barrier.") or pid.startswith("sstack.") or pid.startswith("wakemanys.")):
            continue
        h[pid] = h.get(pid, 0) + 1
        key = (e.actor, e.ctx)
        prev = last.get(key)
        if pid == "sstack.push.read" and prev == "sstack.push.cas":
            h["push.cas.failed"] = h.get("push.cas.failed", 0) + 1
        if pid == "barrier.read" and prev == "barrier.cas":
            h["barrier.cas.failed"] = h.get("barrier.cas.failed", 0) + 1
        last[key] = pid
    n = pop_failures(events)
    if n:
        h["pop.cas.failed"] = n
    n = racer_ahead(events)
    if n:
        h["racer.ahead"] = n
    return h


def resumed_elsewhere(events):
    """(different, same): participants whose wait returned 0 on another worker than the one that executed their
    successful arrival CAS (they blocked there) / on the same worker"""
    blocked_on, diff, same = {}, 0, 0
    for e in events:
        if e.kind == "P" and e.words[0] == "barrier.cas" and e.ctx == "m":
            blocked_on[e.actor] = e.w                  # the last CAS before the return is the successful one
        elif e.kind == "R" and e.actor in blocked_on and e.words[0] == "ret":
            w = blocked_on.pop(e.actor)
            if e.words[1] == "0":
                if e.w != w:
                    diff += 1
                else:
                    same += 1
    return diff, same


def leader_changes(events):
    """(changed, same): consecutive rounds whose last arriver (the thread executing barrier.reset) differs / is
    the same thread"""
    last, ch, sm = {}, 0, 0
    for e in events:
        if e.kind == "P" and e.words[0] == "barrier.reset":
            b = e.words[1]
            if b in last:
                if last[b] != e.actor:
                    ch += 1
                else:
                    sm += 1
            last[b] = e.actor
    return ch, sm


def pop_failures(events):
    """number of failed pop CASes: pop.cas by t whose snapshot shows another top than its operand"""
    n = 0
    for e in events:
        if e.kind == "P" and e.words[0] == "sstack.pop.cas":
            m = _STK.search(e.snap)
            topv = m.group(1).split(",")[0] if m and m.group(1) else ""
            if topv != e.words[2]:
                n += 1
    return n


def racer_ahead(events):
    """number of arrival CASes (barrier.cas) executed while a release phase is still in progress
    (between a barrier.reset and the last wakemanys.push of that round): a participant racing ahead"""
    n, pending = 0, 0
    for e in events:
        if e.kind != "P":
            continue
        pid = e.words[0]
        if pid == "barrier.reset":
            pending = int(e.words[2]) if e.words[2].lstrip("-").isdigit() else 0
        elif pid == "wakemanys.push":
            pending -= 1
        elif pid == "barrier.cas" and pending > 0:
            n += 1
    return n


def run_cases(ctx, exe, drv, cases, tag="c", timeout=60):
    out = []
    # one directory per process: two C06 checks may run at the same time (orchestrator + agent, two seeds)
    wd = os.path.join(ctx.dir, "runs", "p%d" % os.getpid())
    blocks, owners = [], []
    for i, c in enumerate(cases):
        if not os.path.exists(exe):
            # the content-addressed binary was pruned by a concurrent build of another check: rebuild it
            exe = trace.build_interp()
        r = trace.run_case(exe, c, wd, "%s%04d" % (tag, i), timeout=timeout)
        r["case"] = c
        r["blocks"] = []
        for d in instances(c):
            b = c06_block(d["name"], d["N"], d["parts"], r["events"], inc=d["inc"], incmap=d["incmap"])
            r["blocks"].append(b)
            blocks.append(b)
            owners.append(r)
        r["model"] = []
        r["fail_context"] = []
        out.append(r)
    res = trace.validate_blocks(drv, blocks) if blocks else []
    for b, x, r in zip(blocks, res, owners):
        r["model"].append(x)
        if x.startswith("FAIL"):
            k = int(x.split()[1])
            r["fail_context"].append({"verdict": x, "model_input_tail": b[0][max(0, k - 10):k + 1],
                                      "trace_line": b[1][k].raw if k < len(b[1]) and b[1][k] is not None else None})
    return out


def clean_runs(ctx, mine=False):
    """remove this process's trace directory (mine) / directories of finished earlier runs (older than 2 h, or
    whose process no longer exists)"""
    base = os.path.join(ctx.dir, "runs")
    if not os.path.isdir(base):
        return
    for d in os.listdir(base):
        p = os.path.join(base, d)
        dead = True
        if d.startswith("p") and d[1:].isdigit():
            dead = not os.path.exists("/proc/%s" % d[1:]) or (mine and int(d[1:]) == os.getpid())
        try:
            if dead or time.time() - os.path.getmtime(p) > 7200:
                shutil.rmtree(p, ignore_errors=True) if os.path.isdir(p) else os.remove(p)
        except OSError:
            pass


def load_corpus():
    d = os.path.join(vlib.VERIF, "corpus", "C06")
    res = []
    if os.path.isdir(d):
        for f in sorted(os.listdir(d)):
            if f.endswith(".case"):
                res.append(open(os.path.join(d, f)).read())
    return res


def gen_cases(ctx, n_grid, n_racer):
    r = ctx.rng
    cases = []
    # every (N, rounds) combination at least once, with random workers / pswitch / racer
    for N in N_SMALL:
        for rounds in range(1, 7):
            cases.append(gen_case(r, N=N, rounds=rounds))
    for _ in range(n_grid):
        cases.append(gen_case(r))
    # racer-heavy stratum: a participant with no work between rounds, many workers, frequent preemption
    for _ in range(n_racer):
        N = r.choice([2, 3, 4, 5, 5, 8])
        cases.append(gen_case(r, N=N, rounds=r.rng(2, 6), workers=r.rng(2, 4), pswitch=r.choice([60, 85, 85]),
                              racer=r.below(N)))
    # plain programs for small N: every woken thread is a racer (the per-N racer gate needs them: with N = 3 only
    # ~1 run in 4 shows a participant re-arriving while the other one is still on the private list)
    mult = 1 if not ctx.thorough else 5
    for N, k, ps in ((3, 40, 60), (4, 30, 85), (5, 30, 85), (8, 6, 85), (16, 6, 85), (17, 6, 85)):
        for _ in range(k * mult):
            cases.append(gen_big_case(r, N, rounds=6, workers=r.rng(3, 4), pswitch=ps, snapmax=None))
    return cases


def gen_big_cases(ctx):
    """plain programs with many participants: 'N from 1 upward' needs N past any internal batch size, array
    length or queue capacity a maintainer would plausibly pick"""
    r = ctx.rng
    if not ctx.thorough:
        return [gen_big_case(r, 64), gen_big_case(r, 64, rounds=3)] + [gen_big_case(r, N) for N in N_PLAIN_QUICK[1:]]
    res = []
    for N in (64, 200, 256, 257, 513, 1025, 1026, 1027, 1100, 1500, 2049):
        for _ in range(3):
            res.append(gen_big_case(r, N, rounds=r.rng(2, 3), pswitch=r.choice([60, 85, 85])))
    # beyond the run-queue sizes: 4096 / 4097, 8193 (a release burst of 8192 pushes onto one worker's queue),
    # and one worker only (nobody steals during the burst: the queue must hold all N-1 woken threads)
    # (only as far as the run-queue capacity of the tree under check allows: no property promises a capacity)
    cap = vlib.run_queue_capacity()
    for N, w, ps in ((4096, 3, 85), (4097, 2, 85), (8193, 3, 60), (8193, 1, 20), (8200, 1, 20)):
        if N <= cap // 8:
            res.append(gen_big_case(r, N, workers=w, pswitch=ps))
    return res


def variants(ctx, case, n):
    """the same program under other controller seeds / preemption rates / worker counts"""
    lines = case.split("\n")
    out = []
    for _ in range(n):
        l2 = []
        for l in lines:
            if l.startswith("seed "):
                l = "seed %d" % ctx.rng.rng(1, 1 << 30)
            elif l.startswith("pswitch "):
                l = "pswitch %d" % ctx.rng.choice([35, 60, 75, 85, 90])
            elif l.startswith("workers "):
                l = "workers %d" % ctx.rng.rng(1, 4)
            l2.append(l)
        out.append("\n".join(l2))
    return out


def replay_body(r, msg, model=None):
    tail = [e.raw for e in r["events"][-40:]]
    return {"case": r["case"], "observed": {"verdict": r["verdict"], "rc": r["rc"], "oracle": msg,
                                            "model": model if model is not None else r.get("model"),
                                            "trace_tail": tail},
            "expected": "verdict DONE; every k-th return after all N k-th calls; per round exactly one return value 1 "
                        "and N-1 zeros; counters in {k, k+1}; trace accepted by the extracted model",
            "level": "library (lib_interp under the schedule controller)"}


def run(ctx):
    broken, log = ctx.prove("Properties_C06.v", "Properties_C06")
    exe, drv = build(ctx)
    clean_runs(ctx)
    corpus = load_corpus()
    n_grid, n_racer = (400, 200) if not ctx.thorough else (7000, 3000)
    # object lifecycle: destroy + re-init (other count, attr or NULL) by the serial thread while released
    # participants of the old round have not resumed
    n_life = 90 if not ctx.thorough else 1500
    life_cases = [gen_life_case(ctx.rng, counts=c, workers=1) for c in ([7, 1], [5, 2, 6], [3, 3], [2, 1, 4])]
    life_cases += [gen_life_case(ctx.rng) for _ in range(n_life)]
    cases = corpus + gen_big_cases(ctx) + life_cases + gen_cases(ctx, n_grid, n_racer)
    results = []
    CH = 200
    hist, dist, verdicts = {}, {}, {}
    oracle_fail, model_fail = [], []
    events_total = 0
    racer_by_n, runs_by_n, capable_by_n = {}, {}, {}
    resumed = [0, 0]           # returned 0 on another worker than the one it blocked on / on the same
    leaders = [0, 0]           # consecutive rounds with a different / the same last arriver
    life = {}                  # re-initialisations: "<|=|> attr=0|1 pending|quiet" -> count
    for i in range(0, len(cases), CH):
      chunk = run_cases(ctx, exe, drv, cases[i:i + CH], tag="b%02d_" % (i // CH), timeout=600)
      results += chunk
      for r in chunk:
        h1 = patterns(r["events"])
        for k, v in h1.items():
            hist[k] = hist.get(k, 0) + v
        _, thr_, _, par_ = trace.parse_case(r["case"])
        for (bname, bN, bparts) in barriers_of(r["case"])[:1]:
            racer_by_n[bN] = racer_by_n.get(bN, 0) + h1.get("racer.ahead", 0)
            runs_by_n[bN] = runs_by_n.get(bN, 0) + 1
            rounds_ = min([sum(1 for o in thr_[p] if o[0] == "bwait") for p in bparts] or [0])
            if int(par_.get("workers", "1")) >= 2 and rounds_ >= 2:      # a racer needs a thief and a next round
                capable_by_n[bN] = capable_by_n.get(bN, 0) + 1
        for (rel, at, pend) in life_stats(r["case"], r["events"]):
            k = "N2%sN attr=%d %s" % (rel, at, "released-not-resumed" if pend else "all-resumed")
            life[k] = life.get(k, 0) + 1
        d, sm = resumed_elsewhere(r["events"])
        resumed[0] += d
        resumed[1] += sm
        d, sm = leader_changes(r["events"])
        leaders[0] += d
        leaders[1] += sm
        events_total += sum(int(m.split()[1]) for m in r["model"] if m.startswith("ok"))
        bs = barriers_of(r["case"])
        _, _, _, params = trace.parse_case(r["case"])
        key = "N=%s w=%s p=%s" % (bs[0][1] if bs else "?", params.get("workers"), params.get("pswitch"))
        dist[key] = dist.get(key, 0) + 1
        v = (r["verdict"] or "none").split()[0]
        verdicts[v] = verdicts.get(v, 0) + 1
        msg = oracle(r["case"], r)
        if msg:
            oracle_fail.append((r, msg))
        if any(not m.startswith("ok") for m in r["model"]) or not r["model"]:
            model_fail.append(r)
        if not msg and r not in model_fail and len(results) > 3:
            r["events"], r["blocks"], r["trace_text"] = [], [], ""      # keep memory flat in the thorough tier
    searched = 0
    if not oracle_fail and (model_fail or broken):
        # correspondence (or a proof) broke without a failing input so far: search the neighbourhood of the
        # disagreeing programs (other seeds, more preemption, other worker counts) for an oracle failure
        seeds = [r["case"] for r in model_fail[:6]] or cases[:6]
        extra = []
        for c in seeds:
            big = "snapmax" in c
            extra += variants(ctx, c, (12 if big else 120) if not ctx.thorough else (40 if big else 600))
        sres = run_cases(ctx, exe, drv, extra, tag="s")
        searched = len(sres)
        for r in sres:
            msg = oracle(r["case"], r)
            if msg:
                oracle_fail.append((r, msg))
                break
    missing = [p for p in POINTS + PATTERNS if hist.get(p, 0) == 0]
    # situations the property text names: resumed on another worker, a different last arriver than in the round
    # before, a racer ahead for every N >= 3 that was run (quick: N_RACER_GATE; thorough: every N >= 3 run)
    gate_ns = [n for n in sorted(set(N_RACER_GATE) | set(runs_by_n))
               if n >= 3 and (n in N_RACER_GATE or capable_by_n.get(n, 0) >= (20 if n < 8 else 1))]
    missing += ["racer.ahead[N=%d]" % n for n in gate_ns if racer_by_n.get(n, 0) == 0]
    if resumed[0] == 0:
        missing.append("resumed.on.other.worker")
    if leaders[0] == 0:
        missing.append("last.arriver.changed")
    # re-initialisation with a smaller / equal / larger count, with attr and with NULL, each at least once while a
    # released participant of the old round had not resumed
    for want in ("N2<N", "N2=N", "N2>N", "attr=0", "attr=1"):
        if not any(want in k and k.endswith("released-not-resumed") and v for k, v in life.items()):
            missing.append("reinit[%s].while.released.not.resumed" % want)
    ctx.cov["correspondence"] = {
        "cases": len(results), "corpus_cases": len(corpus), "model_steps_replayed": events_total,
        "disagreements": len(model_fail), "oracle_failures": len(oracle_fail), "search_runs": searched,
        "input_distribution": dist, "verdicts": verdicts, "point_histogram": hist,
        "points_required": POINTS + PATTERNS + ["racer.ahead[N] for N in %s" % (gate_ns,), "resumed.on.other.worker",
                                                "last.arriver.changed",
                                                "reinit[N2<N|N2=N|N2>N|attr=0|attr=1].while.released.not.resumed"],
        "points_missing": missing,
        "runs_by_N": {str(k): runs_by_n[k] for k in sorted(runs_by_n)},
        "racer_capable_runs_by_N": {str(k): capable_by_n[k] for k in sorted(capable_by_n)},
        "racer_ahead_by_N": {str(k): racer_by_n[k] for k in sorted(racer_by_n)},
        "reinitialisations": life,
        "returns_of_0_resumed_on_other_worker": resumed[0], "returns_of_0_resumed_on_same_worker": resumed[1],
        "rounds_last_arriver_differs_from_previous_round": leaders[0], "rounds_last_arriver_same_as_previous": leaders[1]}
    ctx.cov["evaluations"] = events_total
    ctx.cov["samples"] += [{"case": results[i]["case"], "verdict": results[i]["verdict"], "model": results[i]["model"]}
                           for i in (0, len(results) // 2, len(results) - 1) if results]
    ctx.cov["trusted_base"] += [
        "extraction: ExtrOcamlBasic only; ocaml/driver_C06.ml, ocaml/zio.ml",
        "harness/lib_interp.c (schedule controller + interpreter), tools/trace.py (trace parser), the projection "
        "c06_block in tools/props/c06.py (thread tags -> participant indices)",
        "MYTH_VERIF_POINT placement: one POINT = one shared access (x->next is read in the step of sstack.pop.cas; "
        "the private-list next link is read in the step of the preceding wakemanys.push)",
        "modelled, not verified: run queues / work stealing (a pushed thread eventually runs), context save before "
        "the callback runs, sequentially consistent memory (x86 TSO not modelled here)"]
    if oracle_fail:
        r, msg = oracle_fail[0]
        ctx.violation("oracle", msg, replay_body(r, msg), found=True)
    elif model_fail:
        r = model_fail[0]
        ctx.violation("correspondence",
                      "model and implementation disagree on %d trace(s) (no property failure found in %d search runs); "
                      "first: %s" % (len(model_fail), searched, (r["model"] or ["no verdict"])[0]),
                      dict(replay_body(r, None), theorem_or_correspondence="correspondence Barrier/BarrierModel.v <-> "
                           "src/myth_sync_func.h myth_barrier_wait_body / src/myth_sleep_queue_func.h",
                           fail_context=r["fail_context"][:2]), found=False)
    if broken:
        ctx.violation("proof", "theorem(s) no longer check: " + ", ".join(broken),
                      {"theorem_or_correspondence": ", ".join(broken), "log": getattr(ctx, "proof_log", log[-3000:])},
                      found=False)
    if missing and not oracle_fail and not model_fail:
        ctx.violation("coverage", "POINT ids / patterns / situations never exercised in this run: " + ", ".join(missing),
                      {"theorem_or_correspondence": "coverage of the barrier / sleep-stack points", "histogram": hist},
                      found=False)
    if not ctx.violations:
        clean_runs(ctx, mine=True)
    return ctx.finish(assumptions=[
        "program class: exactly N participants, each calling wait repeatedly on a barrier initialised for N (N >= 1); "
        "destroy / re-init only by a participant whose own wait has returned and before anybody enters the object "
        "again (each incarnation is one instance of the model)",
        "sequential consistency at the granularity of MYTH_VERIF_POINTs (one step = one shared access)",
        "a thread pushed to a run queue eventually runs; a saved context is resumed only through a run-queue push",
        "no 64-bit overflow of barrier->state (it never exceeds N)"])


def replay(ctx, path):
    body = json.load(open(path))
    exe, drv = build(ctx)
    if "case" not in body:
        print("replay file holds no case (broken obligation: %s)" % body.get("theorem_or_correspondence"))
        return 0
    res = run_cases(ctx, exe, drv, [body["case"]], tag="replay")
    r = res[0]
    print(body["case"])
    print("verdict:", r["verdict"], "rc:", r["rc"])
    print("model:  ", r["model"], r["fail_context"][:1])
    print("oracle: ", oracle(r["case"], r))
    print("trace:  ", r["trace_path"])
    return 0
