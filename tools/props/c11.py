"""C11 - thread-specific data destructors run exactly once, with the right value.

prove (Properties_C11.v) -> unit harness (the real myth_tls_tree_fini on harness-owned trees, one
destructor function per key-table cell, guard cells behind the table, every malloc/free seen) and
whole-library runs (threads that store under subsets of keys and terminate by return / myth_exit /
cancellation) -> extracted model on the same cases -> Python oracle = the property statement."""
import os, json, re
import shutil
import vlib

VF = ["Tls/TlsTreeModel.v", "Tls/TlsDestroyModel.v"]
H = os.path.join(vlib.VERIF, "harness")
NK = 1024
BOUNDARY = [0, 1, 15, 16, 17, 31, 32, 63, 64, 65, 255, 256, 257, 1023]
OOR = [-1, 1024, 4096, -1024, 2147483647, -2147483648]
WITNESSES = ["fini all 1 16 777", "fini list 3 0 16 64 2 0 5 16 6", "fini list 2 0 256 2 0 5 256 6"]



def get_lib(ctx):
    """private copy of the library archive: the shared cache under build/lib is pruned by concurrent
    checks of other properties, which can remove the archive between build_lib() and the link"""
    last = None
    for _ in range(6):
        lib = vlib.build_lib()
        dst = os.path.join(ctx.dir, "libmyth.a")
        try:
            shutil.copyfile(lib, dst + ".tmp")
            os.replace(dst + ".tmp", dst)
            return dst
        except OSError as e:
            last = e
    raise vlib.BuildError("library archive vanished repeatedly: %s" % last)


def source_variant():
    """generation tags in the source? (myth_tls_tree_get takes the key allocator; see tools/props/c10.py)"""
    f = open(os.path.join(vlib.REPO, "src", "myth_tls_func.h"), errors="replace").read()
    gen = bool(re.search(r"myth_tls_tree_get\s*\([^)]*myth_tls_key_allocator_t", f))
    m = re.search(r"\nmyth_tls_key_allocator_alloc\s*\(.*?\n}\n", f, re.S)
    lock = bool(m and "myth_spin_lock_body" in m.group(0))
    return gen, lock


def build(ctx, gen=False, lock=False):
    lib = get_lib(ctx)
    libs = [lib, "-lpthread", "-ldl", "-lrt"]
    unit = vlib.cc(os.path.join(ctx.dir, "c10_tls_unit"), [os.path.join(H, "c10_tls_unit.c")],
                   flags=vlib.lib_cflags() + ["-O0", "-g", "-I" + H, "-Wl,--wrap=real_malloc", "-Wl,--wrap=real_free",
                                               "-DC10_GEN=%d" % int(gen), "-DC10_LOCK=%d" % int(lock)], libs=libs)
    libexe = vlib.cc(os.path.join(ctx.dir, "c11_dtor_lib"), [os.path.join(H, "c11_dtor_lib.c")],
                     flags=vlib.lib_cflags() + ["-O0", "-g", "-I" + H], libs=libs)
    drv = vlib.build_driver("C11", "Extract_C11.v", "driver_C11.ml", VF)
    return unit, libexe, drv


def fini_case(dt, sets):
    if dt == "all" or dt == "none":
        d = dt
    else:
        d = "list %d %s" % (len(dt), " ".join(map(str, dt)))
    return "fini %s %d %s" % (d, len(sets), " ".join("%d %d" % kv for kv in sets))


GEN = {"on": False}     # set by run()/replay(): does the source carry generation tags?


def finib_case(dt, ops):
    """ops: ("s", k, v) | ("b", k)"""
    if dt == "all" or dt == "none":
        d = dt
    else:
        d = "list %d %s" % (len(dt), " ".join(map(str, dt)))
    return "finib %s %d %s" % (d, len(ops), " ".join(" ".join(map(str, o)) for o in ops))


def parse_fini(case):
    """returns (keys with destructor, the stores that are still current at exit)"""
    w = case.split()
    if w[0] == "finib":
        i = 1
        if w[i] == "all":
            dt = set(range(NK)); i += 1
        elif w[i] == "none":
            dt = set(); i += 1
        else:
            n = int(w[i + 1]); dt = set(int(x) for x in w[i + 2:i + 2 + n] if 0 <= int(x) < NK); i += 2 + n
        n = int(w[i]); i += 1
        cur = {}
        order = []
        for _ in range(n):
            if w[i] == "s":
                k, v = int(w[i + 1]), int(w[i + 2]); i += 3
                cur[k] = v; order.append(k)
            else:
                k = int(w[i + 1]); i += 3 if w[i] == "r" else 2       # "r k n": n more incarnations
                # a new incarnation of the index: what was stored belongs to a deleted key.  Without generation
                # tags "b" does nothing to the key table (harness) - the case is then an ordinary one
                if GEN["on"]:
                    cur.pop(k, None)
        return dt, [(k, cur[k]) for k in dict.fromkeys(order) if k in cur]
    i = 1
    if w[i] == "all":
        dt = set(range(NK)); i += 1
    elif w[i] == "none":
        dt = set(); i += 1
    else:
        n = int(w[i + 1]); dt = set(int(x) for x in w[i + 2:i + 2 + n] if 0 <= int(x) < NK); i += 2 + n
    ns = int(w[i]); i += 1
    sets = [(int(w[i + 2 * j]), int(w[i + 2 * j + 1])) for j in range(ns)]
    return dt, sets


def val(r):
    c = r.below(8)
    if c == 0:
        return 0
    if c == 1:
        return (1 << 64) - 1
    return r.rng(1, 1 << 62)


LONG_N = [65536 + d for d in (-3, -2, -1, 0, 1, 2, 3)] + [2 * 65536 + d for d in (-3, -2, -1, 0, 1, 2, 3)]


def gen_unit(ctx, n_random, gen=False):
    r = ctx.rng
    cases = list(WITNESSES)
    if gen:
        # long histories: tens of thousands of incarnations of one index between the stores and the exit
        # (the generation stamp must not wrap before 2^32)
        for k in (0, 16, 700, 1023):
            for n in LONG_N:
                P = r.rng(1, 1 << 40)
                cases.append(finib_case("all", [("s", k, P), ("r", k, n), ("s", k, P)]))       # live value: must be passed
                cases.append(finib_case([k, k ^ 1], [("s", k, P), ("s", k ^ 1, P + 1), ("r", k, n)]))   # stale: must not
                cases.append(finib_case([k], [("r", k, n), ("s", k, P), ("r", k ^ 1, 65536), ("s", k ^ 1, 7)]))
        # generation tags: a value left under a deleted incarnation of an index must not reach the destructor
        cases.append(finib_case("all", [("s", 16, 777), ("b", 16)]))
        cases.append(finib_case([16], [("s", 16, 777), ("b", 16), ("s", 16, 5)]))
        cases.append(finib_case([0, 16], [("s", 0, 1), ("s", 16, 2), ("b", 0), ("b", 0), ("b", 1023)]))
        for k in BOUNDARY:
            cases.append(finib_case("all", [("s", k, 100 + k), ("s", k ^ 1, 200 + k), ("b", k)]))
            # the index is deleted and created again, then the SAME / another value is stored under the new key
            P = r.rng(1, 1 << 40)
            cases.append(finib_case("all", [("s", k, P), ("b", k), ("s", k, P)]))
            cases.append(finib_case([k], [("s", k, P), ("b", k), ("b", k), ("s", k, P), ("s", k ^ 16, P)]))
            cases.append(finib_case([k], [("s", k, P), ("b", k), ("s", k, P + 1)]))
            cases.append(finib_case("all", [("s", k, 0), ("b", k), ("s", k, 0), ("s", (k + 1) % NK, P), ("b", (k + 1) % NK),
                                            ("s", (k + 1) % NK, P), ("b", (k + 1) % NK)]))
        for k in range(0, NK, 37):
            P = r.rng(1, 1 << 40)
            cases.append(finib_case("all", [("s", k, P), ("b", k), ("s", k, P)]))
        for _ in range(n_random // 3):
            keys = [r.below(NK) for _ in range(r.rng(1, 8))] + [r.choice(BOUNDARY)]
            vals = [val(r) for _ in range(r.rng(1, 3))]      # few distinct values: the same one is stored again and again
            ops = []
            for _ in range(r.choice([2, 5, 15, 60])):
                if r.chance(1, 4):
                    ops.append(("b", r.choice(keys) if r.chance(4, 5) else r.choice(OOR)))
                else:
                    ops.append(("s", r.choice(keys), r.choice(vals) if r.chance(3, 4) else val(r)))
            dt = r.choice(["all", sorted(set(k for k in keys if r.chance(1, 2)))])
            cases.append(finib_case(dt, ops))
    # every single key: with all destructors registered, and with only its own
    for k in range(NK):
        v = r.rng(1, 1 << 40)
        cases.append(fini_case("all", [(k, v)]))
        cases.append(fini_case([k], [(k, v)]))
    # all pairs of the boundary set, under several destructor tables
    for a in BOUNDARY:
        for b in BOUNDARY:
            if a < b:
                s = [(a, 1000 + a), (b, 1000 + b)]
                cases.append(fini_case("all", s))
                cases.append(fini_case([a, b], s))
                cases.append(fini_case([b], [(b, 7), (a, 8)]))
                # the cells the old walk would have consulted for the second leaf
                cases.append(fini_case(sorted(set([a, b, (b * 4) % NK, (b + 48) % NK, 64, 1008])), s))
    # nothing stored / only out-of-range stores / NULL stores
    cases.append(fini_case("all", []))
    cases.append(fini_case("all", [(k, 5) for k in OOR]))
    cases.append(fini_case("all", [(3, 0), (700, 0)]))
    cases.append(fini_case("none", [(k, k + 1) for k in BOUNDARY]))
    # everything stored
    allk = list(range(NK)); r.shuffle(allk)
    cases.append(fini_case("all", [(k, k + 1) for k in allk]))
    cases.append(fini_case([k for k in range(NK) if k % 3 == 0], [(k, k + 1) for k in allk]))
    for _ in range(n_random):
        n = r.choice([1, 2, 3, 5, 12, 40, 150])
        style = r.below(4)
        keys = []
        for _ in range(n):
            if style == 0:
                keys.append(r.below(NK))
            elif style == 1:
                keys.append(r.choice(BOUNDARY) ^ r.choice([0, 0, 1, 16, 64, 256]))
            elif style == 2:
                keys.append((r.below(4) * 256 + r.below(4) * 64 + r.below(2) * 16 + r.below(16)) % NK)
            else:
                keys.append(r.rng(16, NK - 1))       # leave the first leaf / branch empty
        sets = [(k % NK if r.chance(19, 20) else r.choice(OOR), val(r)) for k in keys]
        if r.chance(1, 4) and sets:                  # overwrite some
            sets += [(sets[r.below(len(sets))][0], val(r))]
        d = r.below(5)
        if d == 0:
            dt = "all"
        elif d == 1:
            dt = "none"
        elif d == 2:
            dt = sorted(set(k for k, _ in sets if 0 <= k < NK and r.chance(1, 2)))
        elif d == 3:
            dt = sorted(set([k for k, _ in sets if 0 <= k < NK] + [r.below(NK) for _ in range(10)]))
        else:
            dt = sorted(set(r.below(NK) for _ in range(r.rng(1, 300))))
        cases.append(fini_case(dt, sets))
    return cases


def oracle_fini(dt, sets, calls, frees=None, mallocs=None, allow_null_dups=False, extra_ok=()):
    """the property: calls = list of (cell, value) in which cell is an int or 'oob'"""
    d = {}
    for k, v in sets:
        if 0 <= k < NK:
            d[k] = v
    seen = {}
    for cell, v in calls:
        if cell == "oob":
            return "a destructor was fetched from a cell outside the 1024-entry key table (called with %d)" % v
        if cell not in dt:
            return "a destructor was called for key %d, which has none registered" % cell
        if (cell, v) in extra_ok:
            continue                    # a value the destructor pass itself stored (not held when the thread began to terminate)
        if v == 0 and allow_null_dups and cell in seen:
            continue                    # the pass was re-entered from a destructor: slots already handled are seen again as NULL
        if v != d.get(cell, 0) and not (v == 0 and allow_null_dups):
            owner = [k for k, x in d.items() if x == v]
            return "the destructor of key %d was called with %d, which is %s" % (
                cell, v, ("the value of key %d" % owner[0]) if owner else "not this thread's value under that key")
        seen[cell] = seen.get(cell, 0) + 1
        if seen[cell] > 1:
            return "the destructor of key %d was called twice" % cell
    for k, v in d.items():
        if v != 0 and k in dt and seen.get(k, 0) != 1:
            return "key %d has a destructor and the value %d, but its destructor was not called" % (k, v)
    if frees is not None:
        ids = []
        for f in frees:
            if f.startswith("P"):
                return "a node of the embedded pool (offset %s) was passed to free()" % f[1:]
            if f.startswith("DF"):
                return "node H%s was freed twice" % f[2:]
            if f == "X":
                return "an unknown pointer was passed to free()"
            ids.append(int(f[1:]))
        if sorted(ids) != list(range(mallocs)):
            return "of %d malloc-ed nodes %d were freed at thread exit" % (mallocs, len(ids))
    return None


def parse_out(out):
    m = re.match(r"^calls(.*) \| frees(.*) \| mallocs (\d+)$", out)
    if not m:
        return None
    calls = []
    for t in m.group(1).split():
        c, v = t.split(":")
        calls.append(("oob" if c == "oob" else int(c), int(v)))
    return calls, m.group(2).split(), int(m.group(3))


def oracle_unit(case, out):
    p = parse_out(out)
    if p is None:
        return "thread exit did not complete: " + out[:100]
    dt, sets = parse_fini(case)
    return oracle_fini(dt, sets, p[0], p[1], p[2])


# ---------------- whole library ----------------

MAXT_LIB = 64


def lib_case_text(W, has, threads):
    return "%d %d %s %d %s" % (W, len(has), " ".join(map(str, has)), len(threads),
                               "  ".join("%d %d %s" % (kind, len(s), " ".join("%d %d" % x for x in s)) for kind, s in threads))


def gen_lib(ctx, quick):
    r = ctx.rng
    cases = []
    # every single key 0..1023, 64 threads per process, termination kind cycling
    order = list(range(NK)); r.shuffle(order)
    for b in range(0, NK, 64):
        has = [1] * NK if (b // 64) % 2 == 0 else [1 if r.chance(3, 4) else 0 for _ in range(NK)]
        ths = [((i + b // 64) % 3, [(k, r.rng(1, 1 << 40))]) for i, k in enumerate(order[b:b + 64])]
        cases.append((r.choice([1, 2, 4]), has, ths))
    # all pairs of the boundary set
    pairs = [(a, b) for a in BOUNDARY for b in BOUNDARY if a < b]
    for b in range(0, len(pairs), 46):
        has = [1] * NK if b == 0 else [1 if r.chance(2, 3) else 0 for _ in range(NK)]
        ths = [(i % 3, [(x, 100 + x), (y, 100 + y)] if i % 2 else [(y, 100 + y), (x, 100 + x)]) for i, (x, y) in enumerate(pairs[b:b + 46])]
        cases.append((r.choice([1, 3, 8]), has, ths))
    # delete + re-create of a key inside the thread (the LIFO free list hands the index out again), then the
    # same / another / no value is stored under the new key; all three termination kinds; threads one at a time
    RC = lambda j, f=1: (-2 - j, f)
    idxs = BOUNDARY + [r.below(NK) for _ in range(6)]
    for rep_ in range(1 if quick else 4):
        ths = []
        has = [1 if r.chance(3, 4) else 0 for _ in range(NK)]
        for n, k in enumerate(idxs):
            P, Q = r.rng(1, 1 << 40), r.rng(1, 1 << 40)
            kind = (n + rep_) % 3
            pat = (n // 3 + rep_) % 5
            if pat == 0:
                sc = [(k, P), RC(k), (k, P)]                       # same pointer again (C11-r2-1)
            elif pat == 1:
                sc = [(k, P), RC(k), (k, Q)]
            elif pat == 2:
                sc = [(k, P), RC(k)]                               # nothing stored under the new key
            elif pat == 3:
                sc = [(k, P), RC(k, 0), (k, P), RC(k, 1), (k, P)]  # without, then with destructor
            else:
                sc = [(k, P), ((k + 1) % NK, Q), RC(k), RC(k), (k, P), ((k + 1) % NK, Q)]
            ths.append((kind, sc))
        # a key deleted by the thread and NOT created again before the thread exits: its destructor must not run
        for n, k in enumerate(range(400 + 16 * rep_, 400 + 16 * rep_ + 9)):
            P = r.rng(1, 1 << 40)
            has[k] = 1
            sc = [(k, P), (-2 - k, 2)] if n % 3 == 0 else ([(k, P), RC(k), (k, P), (-2 - k, 2)] if n % 3 == 1 else
                                                           [(k, P), ((k + 500) % NK, P), (-2 - k, 2), ((k + 500) % NK, P + 1)])
            ths.append((n % 3 if n < 3 else (n // 3) % 3, sc))
        # and the three kinds on the same pattern / index
        for kind in range(3):
            k = r.choice(BOUNDARY); P = r.rng(1, 1 << 40)
            ths.append((kind, [(k, P), RC(k), (k, P)]))
        cases.append((-r.choice([1, 2, 4]), has, ths[:MAXT_LIB]))
    # destructors that DO something while they run: yield 1-3 times (2,3,4), contain a cancellation point (5), block on a
    # mutex another thread holds (6), store a new value under a key the pass has not / has already visited (7 / 8)
    for W in ((1, 2, 4) if quick else (1, 2, 2, 3, 3, 4, 4, 4)):
        nk = 48
        has = [r.choice([0, 1, 1, 2, 3, 4, 5, 6, 6]) for _ in range(nk)]
        reserved = set()
        for j in (5, 21, 37):
            has[j] = 7; has[j + 1] = r.choice([0, 1]); reserved.add(j + 1)
        for j in (12, 28, 44):
            has[j] = 8; has[j - 1] = 1; reserved.add(j - 1)
        free_slots = [j for j in range(nk) if j not in reserved]
        ths = []
        for i in range(12):
            kind = i % 3
            n = r.choice([2, 3, 5, 8])
            slots = sorted(set(r.choice(free_slots) for _ in range(n)))
            if i < 6 and len(slots) >= 2 and has[slots[0]] not in (7, 8):
                has[slots[0]] = 5       # the first value-holding key's destructor contains a cancellation point
            ths.append((kind, [(j, r.rng(1, 1 << 40)) for j in slots]))
        cases.append((W, has, ths))
    # random subsets, mixed destructors, NULL values, threads that store nothing
    for _ in range(3 if quick else 40):
        nk = r.choice([1, 17, 300, NK])
        has = [1 if r.chance(1, 2) else 0 for _ in range(nk)]
        ths = []
        for i in range(r.choice([3, 16, 48])):
            n = r.choice([0, 1, 2, 6, 30, 120])
            s = [(r.below(nk), val(r)) for _ in range(n)]
            ths.append((r.below(3), s))
        cases.append((r.choice([1, 2, 4, 8]), has, ths))
    return cases


DELETED_ID = "C11-deleted-key-destructor"
DELETED = {"policy": "strict", "seen": 0}     # set by run(): "strict" | "allow" (candidate defect present and not yet listed/fixed)


def run_lib_case(libexe, drv, case, vline="variant 0 0"):
    """returns (message or None, n_threads, n_calls, disagreements)"""
    W, has, ths = case
    txt = lib_case_text(W, has, ths)
    rc, out = vlib.sh([libexe], input=txt + "\n", timeout=120)
    lines = out.split("\n")
    if "done" not in lines:
        return "library run did not complete (exit %d): %s" % (rc, out[-200:]), len(ths), 0, 0, out
    keys = None
    per, rec, rets = {}, {}, {}
    for l in lines:
        w = l.split()
        if not w:
            continue
        if w[0] == "keys":
            keys = [int(x) for x in w[1:]]
        elif w[0].startswith("T"):
            ci = w.index("calls")
            for t_ in w[:ci]:
                if t_.startswith("ret="):
                    rets[int(w[0][1:])] = t_[4:]
            per[int(w[0][1:])] = [(int(t.split(":")[0]), int(t.split(":")[1])) for t in w[ci + 1:]]
            if "rec" in w[:ci]:
                rec[int(w[0][1:])] = [(int(t.split(":")[0]), int(t.split(":")[1])) for t in w[w.index("rec") + 1:ci]]
        elif w[0] == "after" and len(w) > 1:
            return "destructor calls outside any terminating thread: " + l[:100], len(ths), 0, 0, out
    if keys is None or -1 in keys or len(set(keys)) != len(keys):
        return "key creation failed or returned duplicates", len(ths), 0, 0, out
    key_of = list(keys)                              # creation number (slot) -> current key index
    hasd = list(has)
    ncalls = 0
    model_cases, got_all, comparable = [], [], []
    dead = {}                                       # slot -> index of a key deleted (by any thread so far) and not created again
    for i, (kind, sc) in enumerate(ths):
        cur, ops, recs, lifo = {}, [], list(rec.get(i, [])), True
        for slot, v in sc:
            if slot <= -2 and v == 2:
                j = -2 - slot
                if not recs or recs.pop(0) != (j, -1):
                    return "thread %d: deletion of the key of slot %d was not reported" % (i, j), len(ths), ncalls, 0, out
                cur.pop(key_of[j], None); dead[j] = key_of[j]; hasd[j] = 0     # the model's column is cleared by delete too
                ops.append(("x", key_of[j]))
            elif slot <= -2:
                j = -2 - slot
                dead.pop(j, None)
                old = key_of[j]
                if not recs or recs[0][0] != j or recs[0][1] < 0:
                    return "thread %d: re-creation of the key of slot %d failed or was not reported" % (i, j), len(ths), ncalls, 0, out
                new = recs.pop(0)[1]
                if new in key_of and key_of.index(new) != j:
                    return "thread %d: re-created key got index %d, which is a live key" % (i, new), len(ths), ncalls, 0, out
                cur.pop(old, None)              # what was stored belongs to a deleted key
                ops.append(("b", old))
                if new != old:
                    lifo = False; cur.pop(new, None)
                key_of[j] = new; hasd[j] = 1 if v else 0
            elif slot >= 0:
                cur[key_of[slot]] = v; ops.append(("s", key_of[slot], v))
        dt = set(key_of[j] for j in range(len(key_of)) if hasd[j] and key_of[j] >= 0)
        raw = per.get(i, [])
        late = [(tag, v) for tag, v in raw if tag in dead]
        if late:
            DELETED["seen"] += len(late)
            if DELETED["policy"] == "strict":
                return ("thread %d (termination kind %d): the destructor of key %d, which the thread had deleted (myth_key_delete "
                        "returned) and not created again before it terminated, was called with %d" % (
                            i, kind, dead[late[0][0]], late[0][1])), len(ths), ncalls, 0, out
            raw = [(tag, v) for tag, v in raw if tag not in dead]
        calls = [(key_of[tag] if 0 <= tag < len(key_of) else "oob", v) for tag, v in raw]
        ncalls += len(calls)
        # what the destructors of the keys this thread holds do while they run (see harness/c11_dtor_lib.c)
        held_beh = [(slot, v, has[slot]) for slot, v in sc if slot >= 0 and v != 0 and has[slot] > 1]
        reenter = kind == 2 and any(b == 5 for _, _, b in held_beh)
        extra = set()
        for slot, v, b in held_beh:
            if b == 7:
                extra.add((key_of[(slot + 1) % len(key_of)], v + 7))
            elif b == 8:
                extra.add((key_of[(slot - 1) % len(key_of)], v + 7))
        if reenter or extra:
            lifo = False                # the model's walk treats a destructor call as atomic and without effect on the tree
        exp_ret = {0: "17185", 1: "4660", 2: "C"}[kind]
        if rets.get(i) is not None and rets[i] != exp_ret:
            return ("thread %d (termination kind %d): myth_join delivered %s, expected %s" % (i, kind, rets[i], exp_ret)), len(ths), ncalls, 0, out
        msg = oracle_fini(dt, list(cur.items()), calls, allow_null_dups=reenter, extra_ok=extra)
        if msg and held_beh:
            msg += " [destructor behaviours of the held keys: %s]" % ", ".join("key %d: %d" % (key_of[sl], b) for sl, _, b in held_beh)
        if msg:
            hist = "; ".join(("setspecific(key %d, %d)" % (o[1], o[2])) if o[0] == "s" else
                             ("key_delete(%d)" % o[1] if o[0] == "x" else "key_delete(%d) + key_create -> same index" % o[1])
                             for o in ops[:10])
            return "thread %d (termination kind %d: %s; history: %s) - %s" % (
                i, kind, ["return", "myth_exit", "cancel"][kind], hist, msg), len(ths), ncalls, 0, out
        model_cases.append(finib_case(sorted(dt), [o for o in ops if o[0] != "x"])); got_all.append(calls); comparable.append(lifo)
    model, _, _ = vlib.run_lines([drv], [vline] + model_cases)
    model = model[1:]
    dis = 0
    for i in range(len(ths)):
        p = parse_out(model[i]) if i < len(model) else None
        exp = p[0] if p else None
        if comparable[i] and exp != got_all[i]:
            dis += 1
    return None, len(ths), ncalls, dis, out


def probe_deleted(libexe):
    """does the destructor of a key that the thread deleted (and did not create again) still run at thread exit?
    returns (present, text of the witness run)"""
    ths = [(kind, [(kind + 1, 4242 + kind), (-2 - (kind + 1), 2)]) for kind in range(3)]
    txt = lib_case_text(-1, [1] * 8, ths)
    rc, out = vlib.sh([libexe], input=txt + "\n", timeout=60)
    hit = []
    for l in out.split("\n"):
        w = l.split()
        if w and w[0].startswith("T") and "calls" in w:
            i = int(w[0][1:])
            for t in w[w.index("calls") + 1:]:
                tag, v = t.split(":")
                if int(tag) == i + 1 and int(v) != 0:
                    hit.append("T%d %s" % (i, t))
    return bool(hit), "witness `%s` -> %s" % (txt, "; ".join(hit) or "no call for the deleted keys")


SAN_FLAGS = ["-fsanitize=address,undefined", "-fno-sanitize-recover=all", "-fno-omit-frame-pointer"]
SAN_ENV = {"ASAN_OPTIONS": "detect_leaks=0:abort_on_error=0:halt_on_error=1", "UBSAN_OPTIONS": "print_stacktrace=1:halt_on_error=1"}


def build_san(ctx):
    """thorough tier: the library sources and the library harness under AddressSanitizer + UndefinedBehaviorSanitizer"""
    lib = None
    for _ in range(6):
        try:
            src = vlib.build_lib(extra=SAN_FLAGS)
            lib = os.path.join(ctx.dir, "libmyth_san.a")
            shutil.copyfile(src, lib + ".tmp"); os.replace(lib + ".tmp", lib)
            break
        except OSError:
            lib = None
    if lib is None:
        raise vlib.BuildError("sanitizer build of the library vanished repeatedly")
    return vlib.cc(os.path.join(ctx.dir, "c11_dtor_lib_san"), [os.path.join(H, "c11_dtor_lib.c")],
                   flags=vlib.lib_cflags() + ["-O0", "-g", "-I" + H] + SAN_FLAGS, libs=[lib, "-lpthread", "-ldl", "-lrt"])


def san_report(rc, out):
    m = re.search(r"(ERROR: AddressSanitizer[^\n]*|[^\n]*runtime error:[^\n]*|ERROR: UndefinedBehaviorSanitizer[^\n]*)", out)
    if m:
        return m.group(1).strip()[:300]
    if rc != 0 or "done" not in out.split("\n"):
        return "the sanitizer build did not complete the run (exit code %d): %s" % (rc, out[-200:].strip())
    return None


def corpus_cases():
    p = os.path.join(vlib.VERIF, "corpus", "C11", "cases.txt")
    if not os.path.exists(p):
        return []
    return [l.strip() for l in open(p) if l.strip() and not l.startswith("#")]


def run(ctx):
    broken, log = ctx.prove("Properties_C11.v", "Properties_C11")
    gen, lock = source_variant()
    GEN["on"] = gen
    unit, libexe, drv = build(ctx, gen, lock)
    q = not ctx.thorough
    cases = ["variant %d %d" % (int(gen), int(lock)), "consts", "widths"] + corpus_cases() + gen_unit(ctx, 500 if q else 8000, gen)
    impl, rc1, raw1 = vlib.run_lines([unit], cases, timeout=900)
    model, rc2, raw2 = vlib.run_lines([drv], cases, timeout=900)
    diffs = vlib.diff_lines(cases, impl, model)
    # width obligation from the current tree: both generation fields 4 bytes (the model's 2^32)
    wi = cases.index("widths")
    width_msg, widths = None, None
    try:
        widths = tuple(int(x) for x in impl[wi].split()[1:3])
        if gen and (widths[0] != widths[1] or widths[0] < 4):
            width_msg = ("the generation fields are %d bytes in the key table and %d bytes in the tree slot; the model "
                         "(generation column modulo 2^32; C10_fresh_key_null: fewer than 2^32 - 1 operations) needs both "
                         "to be (at least) 4-byte counters of the same width" % widths)
    except (IndexError, ValueError):
        width_msg = "the harness did not report the widths of the generation fields"
    diffs = [d for d in diffs if d[1] != "widths"]
    failing = []
    ncalls = nnull = nfrees = 0
    sizes = {}
    for i, c in enumerate(cases):
        if c in ("consts", "widths") or c.startswith("variant"):
            continue
        out = impl[i] if i < len(impl) else "<no output>"
        msg = oracle_unit(c, out)
        p = parse_out(out)
        if p:
            ncalls += len(p[0]); nnull += sum(1 for _, v in p[0] if v == 0); nfrees += len(p[1])
        n = len(parse_fini(c)[1])
        b = "0" if n == 0 else "1" if n == 1 else "2" if n == 2 else "3-12" if n <= 12 else "13-150" if n <= 150 else ">150"
        sizes[b] = sizes.get(b, 0) + 1
        if msg:
            failing.append((c, out, msg))
    # does a disagreeing implementation behave like the walk before commit 90cf288?
    old_like = None
    if diffs:
        dc = [d[1] for d in diffs if d[1].startswith("fini ")][:200]
        oldm, _, _ = vlib.run_lines([drv], [cases[0]] + [c.replace("fini", "finiold", 1) for c in dc])
        same = sum(1 for (c, o) in zip(dc, oldm[1:]) if o == impl[cases.index(c)])
        old_like = (same, len(dc))

    lib_fail, lib_threads, lib_calls, lib_dis, nlib = [], 0, 0, 0, 0
    kinds = [0, 0, 0]
    # "deleted and not created again before the thread exits": probe, then decide how the oracle treats it
    listed = {f["id"] for f in vlib.known_findings("C11")}
    try:
        fixed_txt = " ".join(json.load(open(os.path.join(vlib.VERIF, "known_findings.json"))).get("fixed", []))
    except (OSError, ValueError):
        fixed_txt = ""
    del_present, del_witness = probe_deleted(libexe)
    DELETED["seen"] = 0
    if not del_present or DELETED_ID in fixed_txt:
        DELETED["policy"] = "strict"           # absent, or recorded as fixed: a destructor call for a deleted key is a violation
        if del_present:
            ths_ = [(kind, [(kind + 1, 4242 + kind), (-2 - (kind + 1), 2)]) for kind in range(3)]
            lib_fail.append((lib_case_text(-1, [1] * 8, ths_), del_witness,
                             "the destructor of a key that the thread deleted (myth_key_delete returned 0) and did not create "
                             "again is called with the thread's value when the thread terminates - by return (T0), myth_exit "
                             "(T1) and cancellation (T2): " + del_witness))
    elif DELETED_ID in listed:
        DELETED["policy"] = "allow"
        ctx.known("destructor of a DELETED key still runs at thread exit: " + del_witness)
    else:
        # candidate defect, neither listed nor recorded as fixed (notes/C11.md): the oracle stays quiet about exactly this
        DELETED["policy"] = "allow"
        ctx.notes.append("CANDIDATE DEFECT %s (not in known_findings.json): myth_key_delete leaves the destructor in the key "
                         "table; %s.  The oracle does not judge destructor calls for keys the thread deleted and did not create "
                         "again until the id is listed (-> KNOWN-FINDING) or appears in a `fixed:` line (-> VIOLATION when it "
                         "comes back)." % (DELETED_ID, del_witness))
    san_exe, san_runs, san_fail = None, 0, []
    if ctx.thorough:
        san_exe = build_san(ctx)
    for case in gen_lib(ctx, q):
        msg, nt, nc, dis, out = run_lib_case(libexe, drv, case, cases[0])
        if san_exe:
            rc_s, out_s = vlib.sh([san_exe], input=lib_case_text(*case) + "\n", timeout=300, env=dict(os.environ, **SAN_ENV))
            san_runs += 1
            sm = san_report(rc_s, out_s)
            if sm:
                san_fail.append((lib_case_text(*case), out_s[-1500:], "sanitizer report in a thread-exit run: " + sm))
        nlib += 1; lib_threads += nt; lib_calls += nc; lib_dis += dis
        for kind, _ in case[2]:
            kinds[kind] += 1
        if msg:
            lib_fail.append((lib_case_text(*case), out[-400:], msg))
        elif dis:
            lib_fail.append((lib_case_text(*case), out[-400:], None))

    lib_fail = san_fail + lib_fail
    ctx.cov["sanitizer"] = ({"build": "library sources + harness/c11_dtor_lib.c with " + " ".join(SAN_FLAGS) +
                             " (gcc; full ASan works with the library's context switches, leak detection off)",
                             "library_processes_run": san_runs, "reports": len(san_fail)} if ctx.thorough else
                            "thorough tier only")
    ctx.cov["deleted_key_destructor"] = {"witness": del_witness, "present": del_present, "oracle": DELETED["policy"],
                                         "calls_for_deleted_keys_seen": DELETED["seen"]}
    ctx.cov["variant"] = {"source_has_generation_tags": gen, "generation_field_bytes": widths,
                          "long_histories": {"cycles": LONG_N, "cases": 3 * 4 * len(LONG_N) if gen else 0},
                          "walk": "a slot recorded under another generation than the index' current one is passed as NULL "
                                  "(C11_stale_not_passed)" if gen else "no generation tags (kg = 0 everywhere)"}
    ctx.cov["correspondence"] = {
        "cases": len(cases), "disagreements": len(diffs) + lib_dis,
        "input_distribution": {"unit_by_number_of_stores": sizes, "single_keys": 2 * NK,
                               "boundary_pairs": 4 * len(BOUNDARY) * (len(BOUNDARY) - 1) // 2,
                               "library_processes": nlib, "library_threads": lib_threads,
                               "library_threads_by_termination": {"return": kinds[0], "myth_exit": kinds[1], "cancel": kinds[2]}},
        "result_distribution": {"unit_destructor_calls": ncalls, "of_which_with_NULL_value": nnull, "unit_frees": nfrees,
                                "library_destructor_calls": lib_calls},
        "oracle_failures": len(failing) + sum(1 for x in lib_fail if x[2]), "impl_exit": rc1, "model_exit": rc2}
    ctx.cov["evaluations"] = len(cases) + lib_threads
    ctx.cov["distinct_nontrivial"] = len(set(cases)) - 2
    for i in (2, 3, 4, len(cases) // 2, len(cases) - 1):
        ctx.cov["samples"].append({"case": cases[i][:300], "impl": (impl[i] if i < len(impl) else "")[:300],
                                   "model": (model[i] if i < len(model) else "")[:300]})
    ctx.cov["trusted_base"] += [
        "extraction: ExtrOcamlBasic only; ocaml/driver_C11.ml, ocaml/zio.ml",
        "harness/c10_tls_unit.c (fini cases: harness-owned tree and key table followed by guard cells; one destructor "
        "function per cell from harness/c10_dtors.h; real_malloc/real_free wrapped at link time)",
        "harness/c11_dtor_lib.c (public API, threads terminating by return / myth_exit / cancellation); oracle in tools/props/c11.py",
        "modelled, not verified: destructors are pure callbacks (a destructor that stores again is not modelled); malloc-ed nodes "
        "lie outside the thread descriptor; the key table's destructor column is read as it is at exit time (a deleted key keeps "
        "its destructor until the index is created again)"]

    if failing:
        c, o, msg = failing[0]
        ctx.violation("oracle", msg, {"case": c, "observed": o[:2000], "expected": "property C11", "level": "unit",
                                      "matches_walk_before_90cf288": old_like,
                                      "all_failing": [(x[0][:200], x[2]) for x in failing[:20]]}, found=True)
    elif [x for x in lib_fail if x[2]]:
        a, o, msg = [x for x in lib_fail if x[2]][0]
        ctx.violation("oracle", msg, {"lib_case": a, "observed": o, "expected": "property C11 through the public API",
                                      "level": "library"}, found=True)
    elif diffs or lib_fail:
        if diffs:
            i, c, a, b = diffs[0]
        else:
            c, a, b = lib_fail[0][0], lib_fail[0][1], "model's call list differs (see replay)"
        ctx.violation("correspondence", "model and implementation disagree on %d case(s); first: %s%s" % (
            len(diffs) + lib_dis, c[:200], (" (%d of %d disagreeing cases behave like the walk before commit 90cf288)" % old_like) if old_like else ""),
            {"theorem_or_correspondence": "correspondence Tls/TlsDestroyModel.v <-> myth_tls_tree_fini (src/myth_tls_func.h)",
             ("case" if diffs else "lib_case"): c, "observed": a[:2000], "expected": b[:2000]}, found=False)
    if width_msg and not failing and not [x for x in lib_fail if x[2]]:
        ctx.violation("assumption", width_msg, {"theorem_or_correspondence": "32-bit generation counter assumed by the model "
                      "(Tls/TlsKeysModel.v GEN_MOD; C11_exact is stated for the generation column the walk reads)",
                      "observed": "sizeof(gen) = %s" % (widths,), "expected": "(4, 4)"}, found=False)
    if broken:
        ctx.violation("proof", "theorem(s) no longer check: " + ", ".join(broken),
                      {"theorem_or_correspondence": ", ".join(broken), "log": getattr(ctx, "proof_log", log[-3000:])}, found=False)
    return ctx.finish(assumptions=[
        "the terminating thread's tree was built by myth_setspecific calls only (reach)",
        "destructor callbacks do not call back into the thread-specific-data API",
        "a destructor call with a NULL value is allowed by C11 (it is C16's concern); everything else is exact"])


def replay(ctx, path):
    body = json.load(open(path))
    gen, lock = source_variant()
    GEN["on"] = gen
    unit, libexe, drv = build(ctx, gen, lock)
    v = "variant %d %d" % (int(gen), int(lock))
    if "case" in body:
        c = body["case"]
        impl, _, _ = vlib.run_lines([unit], [v, c])
        mc = [v, c] + ([c.replace("fini", "finiold", 1)] if c.startswith("fini ") else [])
        model, _, _ = vlib.run_lines([drv], mc)
        print("variant:   ", impl[0] if impl else None, "(generation tags, locked free list)")
        print("case:      ", c[:2000])
        print("impl:      ", impl[1] if len(impl) > 1 else None)
        print("model:     ", model[1] if len(model) > 1 else None)
        print("old walk:  ", model[2] if len(model) > 2 else None)
        print("oracle:    ", oracle_unit(c, impl[1] if len(impl) > 1 else "<no output>"))
    elif "lib_case" in body:
        rc, out = vlib.sh([libexe], input=body["lib_case"] + "\n", timeout=120)
        print("library case:", body["lib_case"][:500])
        print(out[-3000:])
    else:
        print(json.dumps(body, indent=1)[:3000])
    return 0
