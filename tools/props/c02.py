"""C02 - runnable threads are never lost or duplicated by the work-stealing queues
(DESIGN.md section 4, C02; notes/C02.md).

  1. proofs: coq/Properties_C02.v (SC invariant for every reachable state, corollaries, TSO witness
     and litmus lemmas);
  2. translator: barrier functions of the current tree classified from `gcc -S`, barrier positions
     from the fence EVENTs of the lock-step runs -> build/C02/gen/Fences.v, `fence_table_ok` by
     vm_compute (generated theorems C02_tso_current, C02_tso_sound_current);
  3. lock-step co-simulation of harness/c02_wsq_unit.c (the real myth_wsqueue_func.h under a
     token-passing controller, capacities 4/8/16) against the extracted model, snapshot after
     every step;
  4. property oracle on the implementation alone (multiset conservation, no duplicate, lock free
     at the end, abort only when full);
  5. library level: the wsapi functions of myth_if_native.c one operation at a time against the
     model (harness/c02_lib.c seq), and a yield/steal smoke run on 1..4 workers.
"""
import json, os, re, threading, time
import vlib

VF = ["Wsq/WsqModel.v", "Wsq/WsqLists.v", "Wsq/WsqInv.v", "Wsq/WsqProofs.v", "Wsq/WsqRefine.v", "Wsq/TsoModel.v", "Wsq/TsoProofs.v", "Wsq/TsoLock.v",
      "Wsq/TsoInv.v", "Wsq/TsoOwner.v", "Wsq/TsoThief.v", "Wsq/TsoSound.v"]
SIZES = (4, 8, 16)
POINT_IDS = ["wsq.push.readtop", "wsq.push.recentre", "wsq.push.slot", "wsq.push.top",
             "wsq.pop.quick", "wsq.pop.readtop", "wsq.pop.writetop", "wsq.pop.readbase", "wsq.pop.fastslot",
             "wsq.pop.slow", "wsq.take.quick", "wsq.take.readbase", "wsq.take.writebase", "wsq.take.readtop",
             "wsq.take.slot", "wsq.take.rollback", "wsq.put.recentre", "wsq.put.slot", "wsq.put.base",
             "wsq.pass.check", "wsq.pass.slot", "wsq.pass.base", "wsq.peek.read", "wsq.peek.slot",
             "spin.trylock", "spin.unlock"]
# position of the table -> (POINT executed by the step, fence kinds expected after its access)
POSITIONS = [("f_push_r", "wsq.push.readtop", ["r"]), ("f_push_w", "wsq.push.slot", ["w"]),
             ("f_pop_rw", "wsq.pop.writetop", ["rw"]), ("f_take_rw", "wsq.take.writebase", ["rw"]),
             ("f_take_r", "wsq.take.readtop>wsq.take.slot", ["r"]), ("f_pass_w", "wsq.pass.slot", ["w"])]
PINNED = "FCFFFCF"
FREE_SIZES = (4, 8, 16)


# ----------------------------------------------------------------------------------------------
# build
# ----------------------------------------------------------------------------------------------

def build(ctx, need_lib=True):
    b = {}
    # mutation experiments (VERIF_REPO) must not overwrite the binaries of a run on the real tree
    if os.path.realpath(vlib.REPO) != "/repo":
        ctx.dir = os.path.join(vlib.BUILD, "C02", "alt-" + vlib.sha(os.path.realpath(vlib.REPO))[:10])
        os.makedirs(ctx.dir, exist_ok=True)
    b["drv"] = vlib.build_driver("C02", "Extract_C02.v", "driver_C02.ml", VF)
    src = os.path.join(vlib.VERIF, "harness", "c02_wsq_unit.c")
    for n in SIZES:
        b["unit%d" % n] = vlib.cc(os.path.join(ctx.dir, "c02_wsq_unit_%d" % n), [src],
                                  flags=vlib.lib_cflags() + ["-O1", "-g", "-DMYTH_VERIF_QUEUE_SIZE=%d" % n],
                                  libs=["-lpthread"])
    if need_lib:
        lsrc = os.path.join(vlib.VERIF, "harness", "c02_lib.c")
        for n in (8, 16):
            libn = vlib.build_lib(extra=["-DMYTH_VERIF_QUEUE_SIZE=%d" % n])
            b["lib%d" % n] = vlib.cc(os.path.join(ctx.dir, "c02_lib_q%d" % n), [lsrc],
                                     flags=vlib.lib_cflags() + ["-O0", "-g", "-DMYTH_VERIF_QUEUE_SIZE=%d" % n],
                                     libs=[libn, "-lpthread", "-ldl", "-lrt"])
        lib = vlib.build_lib()
        b["lib"] = vlib.cc(os.path.join(ctx.dir, "c02_lib"), [lsrc], flags=vlib.lib_cflags() + ["-O0", "-g"],
                           libs=[lib, "-lpthread", "-ldl", "-lrt"])
        b["steal"] = vlib.cc(os.path.join(ctx.dir, "c02_steal_prog"), [os.path.join(vlib.VERIF, "harness", "c02_steal_prog.c")],
                             flags=vlib.lib_cflags() + ["-O1", "-g"], libs=[lib, "-lpthread", "-ldl", "-lrt"])
    fsrc = os.path.join(vlib.VERIF, "harness", "c02_wsq_free.c")
    for n in FREE_SIZES:
        b["free%d" % n] = vlib.cc(os.path.join(ctx.dir, "c02_wsq_free_%d" % n), [fsrc],
                                  flags=vlib.lib_cflags() + ["-O2", "-g", "-DMYTH_VERIF_QUEUE_SIZE=%d" % n],
                                  libs=["-lpthread"])
    return b


# ----------------------------------------------------------------------------------------------
# translator: fence classes of the current tree
# ----------------------------------------------------------------------------------------------

PROBE = r"""
#include "myth_config.h"
#include "myth_wsqueue.h"
#include "myth_wsqueue_func.h"
void c02_probe_r(void) { myth_wsqueue_rbarrier(); }
void c02_probe_w(void) { myth_wsqueue_wbarrier(); }
void c02_probe_rw(void) { myth_wsqueue_rwbarrier(); }
void c02_probe_unlock(myth_spinlock_t * l) { myth_spin_unlock_body(l); }
"""


def classify_barriers(ctx):
    """gcc -S of a probe calling the three deque barrier wrappers and the spin unlock, with the
    library's flags (hooks off so that only the barrier itself is in the body) -> class per function:
    F (xchg / mfence / lock-prefixed instruction), C (asm statement without such an instruction),
    N (nothing)."""
    gen = os.path.join(ctx.dir, "gen")
    os.makedirs(gen, exist_ok=True)
    src = os.path.join(gen, "fence_probe.c")
    open(src, "w").write(PROBE)
    flags = [f for f in vlib.lib_cflags() if f != "-DMYTH_VERIF"] + ["-O2", "-S", "-o", os.path.join(gen, "fence_probe.s")]
    rc, out = vlib.sh(["gcc"] + flags + [src], timeout=120)
    if rc != 0:
        raise vlib.BuildError("fence probe does not compile:\n" + out[-2000:])
    asm = open(os.path.join(gen, "fence_probe.s")).read()
    res, bodies = {}, {}
    for name in ("r", "w", "rw", "unlock"):
        m = re.search(r"^c02_probe_%s:\n(.*?)\n\s*\.cfi_endproc" % name, asm, re.S | re.M)
        body = m.group(1) if m else ""
        ins = [l.strip() for l in body.split("\n") if l.strip() and not l.strip().startswith((".", "#")) or l.strip() in ("#APP", "#NO_APP")]
        bodies[name] = ins
        txt = "\n".join(ins)
        if re.search(r"\b(xchg\w*|mfence|lock)\b", txt):
            res[name] = "F"
        elif re.search(r"\bcall\b|\bjmp\s+[a-zA-Z_]", txt):
            res[name] = "?"          # not inlined: cannot classify -> treated as Nothing
        elif "#APP" in txt:
            res[name] = "C"
        else:
            res[name] = "N"
    # an empty asm("":::"memory") leaves no trace in the assembly: look at the preprocessed source
    rc, pre = vlib.sh(["gcc"] + [f for f in flags if f not in ("-S", "-O2")][:-2] + ["-E", src], timeout=120)
    for name, fn in (("r", "myth_rbarrier"), ("w", "myth_wbarrier"), ("rw", "myth_rwbarrier")):
        if res.get(name) == "N" and rc == 0:
            m = re.search(r"static inline void %s\s*\(\s*(?:void)?\s*\)\s*\{(.*?)\}" % fn, pre, re.S)
            if m and re.search(r"\basm\b|__asm__|__sync_synchronize", m.group(1)):
                res[name] = "C"
    return res, bodies


def fence_table(static, observed):
    """7 letters in the order of TsoModel.fence_table.  observed: position -> list of lists of fence
    kinds seen at each execution of that position's POINT."""
    letters, detail = [], {}
    for name, point, expect in POSITIONS:
        runs = observed.get(point, [])
        if not runs:
            letters.append("N")
            detail[name] = "POINT %s never executed" % point
            continue
        cls = "F"
        kinds = set()
        for ks in runs:
            kinds.add(",".join(ks))
            best = "N"
            for k in ks:
                c = static.get(k, "N")
                c = "N" if c == "?" else c
                best = c if "NCF".index(c) > "NCF".index(best) else best
            cls = best if "NCF".index(best) < "NCF".index(cls) else cls
        letters.append(cls)
        detail[name] = {"point": point, "executions": len(runs), "fence_events_seen": sorted(kinds),
                        "expected": ",".join(expect), "class": cls}
    u = static.get("unlock", "N")
    letters.append("N" if u == "?" else u)
    detail["f_unlock"] = {"class": letters[-1], "from": "gcc -S of myth_spin_unlock_body"}
    return "".join(letters), detail


def check_fences(ctx, tbl, b):
    """writes build/C02/gen/Fences.v with the regenerated table and compiles it:
    C02_tso_current : fence_table_ok table = true (vm_compute) and its consequence C02_tso_sound_current."""
    gen = os.path.join(ctx.dir, "gen")
    names = {"F": "Full", "C": "CompilerOnly", "N": "Nothing"}
    v = ("(* generated by tools/props/c02.py from the current tree - do not edit *)\n"
         "From MT Require Import Lib.Interleave Wsq.WsqModel Wsq.WsqProofs Wsq.TsoModel Wsq.TsoLock Wsq.TsoSound.\n"
         "Definition table : fence_table := mkFT %s.\n"
         "(* the fence placement the compiler emits today is one accepted by the checker ... *)\n"
         "Theorem C02_tso_current : fence_table_ok table = true.\n"
         "Proof. vm_compute. reflexivity. Qed.\n"
         "Print Assumptions C02_tso_current.\n"
         "(* ... hence the deque invariant holds in every TSO-reachable state of the current tree *)\n"
         "Theorem C02_tso_sound_current : forall s, reachable tso_initial (tso_step table) s -> StateInv (logical s).\n"
         "Proof. intros s H. exact (tso_sound table s C02_tso_current H). Qed.\n"
         "Print Assumptions C02_tso_sound_current.\n") % " ".join(names[c] for c in tbl)
    open(os.path.join(gen, "Fences.v"), "w").write(v)
    rc, out = vlib.sh(["coqc", "-Q", vlib.COQ, "MT", "-Q", gen, "C02Gen", os.path.join(gen, "Fences.v")],
                      cwd=gen, timeout=300)
    ok = rc == 0 and out.count("Closed under the global context") == 2
    return ok, out[-1500:]


# ----------------------------------------------------------------------------------------------
# cases
# ----------------------------------------------------------------------------------------------

def mk(size, oprog, tprogs, sched):
    return "%d %d | %s | %s%s" % (size, len(tprogs), " ".join(oprog),
                                  "".join(" ".join(t) + " | " for t in tprogs), " ".join(str(x) for x in sched))


class Tags:
    def __init__(self):
        self.n = 0

    def new(self):
        self.n += 1
        return self.n


def gen_directed(ctx, quick):
    """fill levels 0..3 when pop meets take (preemption sweep at every POINT), push||take,
    put||trypass, both re-centrings, fill to capacity"""
    r = ctx.rng
    cases = []
    for size in SIZES:
        for L in (0, 1, 2, 3):
            pushes = ["P%d" % (i + 1) for i in range(L)]
            # {pop || take}: owner runs a steps, thief b steps, owner c steps, then round-robin
            ab = [(a, bb) for a in range(0, 10) for bb in range(0, 11)]
            if quick and size != 8:
                r.shuffle(ab)
                ab = ab[:22]
            for a, bb in ab:
                cases.append(("pop||take L%d" % L, mk(size, pushes + ["O"], [["T"]],
                                                      ["u0.%d" % L] + [0] * a + [1] * bb + [0] * r.rng(0, 3))))
            # thief first
            for bb in range(0, 11, 1 if not quick else 2):
                a = r.rng(0, 9)
                cases.append(("take||pop L%d" % L, mk(size, pushes + ["O"], [["T"]],
                                                      ["u0.%d" % L] + [1] * bb + [0] * a + [1] * r.rng(0, 4))))
            # {pop || take || take}
            for k in range(12 if quick else 60):
                sch = ["u0.%d" % L] + [r.below(3) for _ in range(r.rng(5, 40))]
                cases.append(("pop||take||take L%d" % L, mk(size, pushes + ["O"], [["T"], ["T"]], sch)))
            # {push || take}
            for a in range(0, 6):
                for bb in (range(0, 11, 2) if quick else range(0, 11)):
                    cases.append(("push||take L%d" % L, mk(size, pushes + ["P9"], [["T"]],
                                                           ["u0.%d" % L] + [0] * a + [1] * bb)))
            # {put || trypass}, also with a peek and a take around
            for a in range(0, 7):
                for bb in (range(0, 7, 2) if quick else range(0, 7)):
                    cases.append(("put||trypass L%d" % L, mk(size, pushes + ["U8"], [["S9", "K"]],
                                                             ["u0.%d" % L] + [0] * a + [1] * bb)))
        # drive top to size: push / take alternately (few live entries, re-centring down)
        n = size + 2
        cases.append(("recentre-down", mk(size, ["P%d" % (i + 1) for i in range(n)], [["T"] * n],
                                          [x for i in range(n) for x in ("u0.%d" % (i + 1), "u1.%d" % (i + 1))])))
        for k in range(4 if quick else 20):
            sch = []
            for i in range(n):
                sch += ["u0.%d" % (i + 1)] if r.chance(2, 3) else [0] * r.rng(1, 6)
                sch += ["u1.%d" % (i + 1)] if r.chance(2, 3) else [1] * r.rng(1, 9)
            cases.append(("recentre-down", mk(size, ["P%d" % (i + 1) for i in range(n)], [["T"] * n, ["K", "T"]], sch + [2] * r.rng(0, 9))))
        # drive base to 0: put / pop alternately (re-centring up)
        ops = []
        for i in range(n):
            ops += ["U%d" % (i + 1)] + (["O"] if i % 3 != 2 else [])
        cases.append(("recentre-up", mk(size, ops, [["T", "K", "S99"]], ["u0.%d" % (size // 2 + 1)] + [1] * 5 + [0] * 40)))
        cases.append(("recentre-up", mk(size, ops, [], [])))
        # fill to capacity: abort
        cases.append(("overflow push", mk(size, ["P%d" % (i + 1) for i in range(size + 1)], [], [])))
        cases.append(("overflow put", mk(size, ["U%d" % (i + 1) for i in range(size + 1)], [], [])))
        cases.append(("overflow mixed", mk(size, [("P%d" if i % 2 else "U%d") % (i + 1) for i in range(size + 1)], [["K"]], [0, 1] * 10)))
        cases.append(("exactly full", mk(size, ["P%d" % (i + 1) for i in range(size)] + ["O"] * size, [["T", "S77"]], ["u0.%d" % size, 1, 1, 1])))
    return cases


def gen_random(ctx, n):
    r = ctx.rng
    cases = []
    for k in range(n):
        size = r.choice(SIZES)
        nth = r.rng(0, 3)
        t = Tags()
        oo = []
        for i in range(r.rng(0, 14)):
            x = r.below(100)
            oo.append("P%d" % t.new() if x < 45 else "O" if x < 80 else "U%d" % t.new())
        tt = []
        for j in range(nth):
            l = []
            for i in range(r.rng(0, 6)):
                x = r.below(100)
                l.append("T" if x < 60 else "S%d" % t.new() if x < 80 else "K")
            tt.append(l)
        w = [r.rng(1, 10) for _ in range(nth + 1)]
        tot = sum(w)
        sch = []
        for i in range(r.rng(0, 150)):
            x, p = r.below(tot), 0
            while x >= w[p]:
                x -= w[p]
                p += 1
            sch.append(p)
        cases.append(("random", mk(size, oo, tt, sch)))
    return cases


ENUM_CONFIGS = [("pop||take", ["O"], [["T"]]), ("pop||take||take", ["O"], [["T"], ["T"]]),
                ("push||take", ["P9"], [["T"]]), ("put||trypass", ["U8"], [["S9"]])]


def gen_exhaustive(ctx, drv, sizes, limit, levels=(0, 1, 2, 3), configs=None):
    """every maximal schedule of the small configurations (enumerated on the model, executed on
    both sides)"""
    cases = []
    stats = {}
    for size in sizes:
        for L in levels:
            pushes = ["P%d" % (i + 1) for i in range(L)]
            for name, oo, tt in (configs or ENUM_CONFIGS):
                q = "enum %d %d %d | %s | %s%s" % (size, len(tt), limit, " ".join(pushes + oo),
                                                  "".join(" ".join(t) + " | " for t in tt), "u0.%d" % L)
                rc, out = vlib.sh([drv], input=q + "\n", timeout=600)
                lines = out.split("\n")
                scheds = [l for l in lines if l and l not in ("END", "TRUNCATED")]
                stats["%s L%d size%d" % (name, L, size)] = len(scheds) if "TRUNCATED" not in lines else "%d (truncated)" % len(scheds)
                for sline in scheds:
                    cases.append(("exhaustive %s L%d" % (name, L), mk(size, pushes + oo, tt, ["u0.%d" % L] + sline.split())))
    return cases, stats


# ----------------------------------------------------------------------------------------------
# running and judging
# ----------------------------------------------------------------------------------------------

def run_both(b, cases):
    """cases: list of (kind, line).  Returns impl lines, model lines (same order)."""
    by = {n: [] for n in SIZES}
    for i, (k, c) in enumerate(cases):
        by[int(c.split()[0])].append(i)
    impl = [None] * len(cases)
    model = [None] * len(cases)

    def run_impl(n):
        idx = by[n]
        if not idx:
            return
        # several harness processes per capacity
        chunks = [idx[j::4] for j in range(4)]
        ths = []

        def one(ch):
            if not ch:
                return
            lines, rc, raw = vlib.run_lines([b["unit%d" % n]], [cases[i][1] for i in ch], timeout=1500)
            for j, i in enumerate(ch):
                impl[i] = lines[j] if j < len(lines) else "<no output>"
        for ch in chunks:
            t = threading.Thread(target=one, args=(ch,))
            t.start()
            ths.append(t)
        for t in ths:
            t.join()

    def run_model():
        idx = list(range(len(cases)))
        chunks = [idx[j::4] for j in range(4)]
        ths = []

        def one(ch):
            if not ch:
                return
            lines, rc, raw = vlib.run_lines([b["drv"]], [cases[i][1] for i in ch], timeout=1500)
            for j, i in enumerate(ch):
                model[i] = lines[j] if j < len(lines) else "<no output>"
        for ch in chunks:
            t = threading.Thread(target=one, args=(ch,))
            t.start()
            ths.append(t)
        for t in ths:
            t.join()

    ths = [threading.Thread(target=run_impl, args=(n,)) for n in SIZES] + [threading.Thread(target=run_model)]
    for t in ths:
        t.start()
    for t in ths:
        t.join()
    return impl, model


def split_impl(line):
    """-> (steps part, fence log list of (step, kind))"""
    if line is None:
        return "<no output>", []
    if " #" in line:
        steps, fl = line.split(" #", 1)
        ev = []
        for tok in fl.split():
            k, kind = tok.split(":")
            ev.append((int(k), kind))
        return steps, ev
    return line, []


def parse_steps(steps):
    """list of dicts {who, top, base, lock, seq, wptr, slots, labels} (ABORT etc. as {'mark': ...})"""
    res = []
    for s in steps.split("|"):
        if not s:
            continue
        if s.startswith(("ABORT", "SIGNAL", "TIMEOUT", "BADCASE", "<no")):
            res.append({"mark": s})
            continue
        try:
            who, words, slots, labels = s.split(":", 3)
            t, bb, l, q, w = [int(x) for x in words.split(",")]
            res.append({"who": int(who), "top": t, "base": bb, "lock": l, "seq": q, "wptr": w,
                        "slots": [int(x) for x in slots.split(",")], "labels": labels.split("/")})
        except ValueError:
            res.append({"mark": "UNPARSABLE " + s[:80]})
    return res


def oracle(case, steps_txt):
    """the property itself, stated on the implementation's run only: every tag inserted is either
    handed out exactly once or still in the queue; nothing is handed out twice; the lock is free at
    the end; the overflow abort only happens with all slots occupied.  Returns None or a message."""
    flds = [f.strip() for f in case.split("|")]
    size, nth = [int(x) for x in flds[0].split()]
    progs = [flds[1 + i].split() for i in range(nth + 1)]
    st = parse_steps(steps_txt)
    if not st:
        return None if all(len(x) == 0 for x in progs) else "no steps"
    nops = [0] * (nth + 1)
    prev = ["-"] * (nth + 1)
    inserted, handed = [], []
    last = None
    for k, s in enumerate(st):
        if "mark" in s:
            if s["mark"].startswith("ABORT"):
                if last is None or last["top"] - last["base"] != size:
                    return "abort (runqueue overflow) with %s live entries of %d" % (
                        "?" if last is None else last["top"] - last["base"], size)
                return check_handed(inserted, handed, None, size, aborted=True)
            return "run did not complete: " + s["mark"]
        if s["lock"] not in (0, 1):
            return "lock word %d at step %d" % (s["lock"], k)
        p = s["who"]
        if 0 <= p <= nth:
            lab = s["labels"][p]
            if lab.startswith("ret(") and not prev[p].startswith("ret("):
                v = int(lab[4:-1])
                if nops[p] >= len(progs[p]):
                    return "more returns than operations for participant %d" % p
                op = progs[p][nops[p]]
                nops[p] += 1
                if op[0] in "PU":
                    inserted.append(int(op[1:]))
                elif op[0] == "S":
                    if v == 1:
                        inserted.append(int(op[1:]))
                    elif v != 0:
                        return "trypass returned %d" % v
                elif op[0] in "OT":
                    if v != 0:
                        handed.append(v)
                elif op[0] == "W":
                    if v != 0 and op == "W0":
                        return "declined steal handed out item %d" % v
                    if v != 0:
                        handed.append(v)
            prev[p] = lab
        for q in range(nth + 1):
            prev[q] = s["labels"][q]
        last = s
    done = all(nops[p] == len(progs[p]) for p in range(nth + 1))
    if not done:
        return "run did not complete (%s of %s operations)" % (nops, [len(x) for x in progs])
    if last["lock"] != 0:
        return "lock held at the end"
    if not (0 <= last["base"] <= last["top"] <= size):
        return "indices out of range at the end: base %d top %d" % (last["base"], last["top"])
    return check_handed(inserted, handed, last["slots"][last["base"]:last["top"]], size, aborted=False)


def check_handed(inserted, handed, remaining, size, aborted):
    seen = set()
    for v in handed:
        if v in seen:
            return "item %d handed out twice (returned %s)" % (v, handed)
        seen.add(v)
    if aborted:
        return None
    if remaining is not None:
        for v in remaining:
            if v in seen:
                return "item %d both handed out and still queued" % v
            seen.add(v)
        if sorted(inserted) != sorted(handed + remaining):
            lost = sorted(set(inserted) - set(handed + remaining))
            extra = sorted(set(handed + remaining) - set(inserted))
            return "inserted %s but handed out %s and %s remain: lost %s, spurious %s" % (
                sorted(inserted), handed, remaining, lost, extra)
    return None


def fence_observations(cases, impl):
    """position POINT -> list of fence-kind lists, one per execution of the POINT"""
    obs = {}
    points = {}
    for (kind, c), line in zip(cases, impl):
        steps, ev = split_impl(line)
        st = parse_steps(steps)
        if not st or any("mark" in s for s in st):
            continue                      # aborted runs do not print their fence log
        byk = {}
        for k, kd in ev:
            byk.setdefault(k, []).append(kd)
        n = len(st[0]["labels"])
        prev = ["-"] * n
        for k, s in enumerate(st):
            p = s["who"]
            if 0 <= p < n:
                before = prev[p].split("(")[0]
                after = s["labels"][p].split("(")[0]
                if before not in ("-", "ret") and not (before == after and s["labels"][p] == prev[p] and before == "spin.trylock"):
                    points[before] = points.get(before, 0) + 1
                    obs.setdefault(before, []).append(byk.get(k, []))
                    obs.setdefault(before + ">" + after, []).append(byk.get(k, []))
                elif before == "spin.trylock":
                    points[before] = points.get(before, 0) + 1
            prev = list(s["labels"])
    return obs, points


def judge_unit(ctx, cases, impl, model, evidence=True):
    diffs, fails = [], []
    kinds, outcomes = {}, {"completed": 0, "abort": 0, "other": 0}
    for i, (kind, c) in enumerate(cases):
        steps, ev = split_impl(impl[i])
        kinds[kind.split(" L")[0]] = kinds.get(kind.split(" L")[0], 0) + 1
        if steps.endswith("ABORT"):
            outcomes["abort"] += 1
        elif "SIGNAL" in steps or "<no" in steps or "BADCASE" in steps:
            outcomes["other"] += 1
        else:
            outcomes["completed"] += 1
        msg = oracle(c, steps)
        if msg:
            fails.append((c, steps, msg, kind))
        if steps != model[i]:
            x, y = steps.split("|"), (model[i] or "").split("|")
            k = 0
            while k < min(len(x), len(y)) and x[k] == y[k]:
                k += 1
            diffs.append({"case": c, "kind": kind, "first_differing_step": k,
                          "impl": x[k] if k < len(x) else "<end>", "model": y[k] if k < len(y) else "<end>",
                          "before": x[k - 1] if k > 0 else "<start>"})
    return diffs, fails, kinds, outcomes


# ----------------------------------------------------------------------------------------------
# library level
# ----------------------------------------------------------------------------------------------

def gen_seq_lines(ctx, n):
    r = ctx.rng
    lines = ["P1 P2 W0 W1 O", "P1 S2 W1 W1 W1", "W0 W1 O", "P1 W0 W0 O", "S5 W0 W1",
             "Q P1 Q Q P2 Q W0 Q W1 Q O Q", "P1 P2 Q O Q O Q", "S1 Q S2 Q W1 Q W1 Q"]
    for k in range(n):
        t = Tags()
        ops, live = [], 0
        for i in range(r.rng(1, 12)):
            x = r.below(100)
            if x < 35 and live < 6:
                ops.append("P%d" % t.new()); live += 1
            elif x < 50 and live < 6:
                ops.append("S%d" % t.new()); live += 1
            elif x < 60:
                ops.append("W0")
            elif x < 72:
                ops.append("Q")
            elif x < 85:
                ops.append("W1"); live = max(0, live - 1)
            else:
                ops.append("O"); live = max(0, live - 1)
        ops += ["O"] * (live + r.rng(0, 1))
        lines.append(" ".join(ops))
    return lines


def run_seq(ctx, b, lines):
    """wsapi functions of the real library one operation at a time; model run from the same start
    snapshot.  Returns (diffs, oracle failures, n ops)."""
    rc, out = vlib.sh([b["lib16"], "seq"], input="\n".join(lines) + "\n", timeout=60,
                      env=dict(os.environ, MYTH_NUM_WORKERS="1"))
    outl = [l for l in out.split("\n") if l.startswith("@")]
    diffs, fails, nops = [], [], 0
    if len(outl) != len(lines):
        fails.append(("<all>", out[-600:], "library-level sequential harness stopped after %d of %d lines (exit %d)" % (len(outl), len(lines), rc)))
    mcases, parsed = [], []
    for ops, o in zip(lines, outl):
        parts = o.split("|")
        words, slots = parts[0][1:].split(":")
        mcases.append("seq 16 | %s | %s | %s" % (words.replace(",", " "), slots.replace(",", " "), ops))
        steps = []
        for pth in parts[1:]:
            f = pth.split(":")
            steps.append({"op": f[0].split("=")[0], "ret": f[0].split("=")[1], "words": f[1], "slots": f[2],
                          "fences": f[3] if len(f) > 3 else "", "cand": f[4] if len(f) > 4 else ""})
        parsed.append((parts[0][1:], steps))
    ml, _, _ = vlib.run_lines([b["drv"]], mcases, timeout=120)
    for i, (ops, (start, steps)) in enumerate(zip(lines, parsed)):
        canon = "|".join("%s=%s:%s:%s" % (s["op"], s["ret"], s["words"], s["slots"]) for s in steps)
        nops += len(steps)
        if i >= len(ml) or canon != ml[i]:
            diffs.append({"case": mcases[i], "impl": canon, "model": ml[i] if i < len(ml) else "<no output>"})
        # oracle: a declined steal leaves top, base, slots, lock as they were; conservation per line
        before = start
        ins, outv = [], []
        for s in steps:
            now = s["words"] + ":" + s["slots"]
            if s["op"] in ("W0", "Q"):
                bw, nw = before.split(":")[0].split(","), s["words"].split(",")
                if (s["op"] == "W0" and s["ret"] != "0") or bw[:3] != nw[:3] or before.split(":")[1] != s["slots"]:
                    fails.append((ops, canon, "%s changed the queue: before %s after %s ret %s" % (
                        "declined steal" if s["op"] == "W0" else "peek", before, now, s["ret"])))
            if s["op"][0] == "P" or (s["op"][0] == "S" and s["ret"] == "1"):
                ins.append(int(s["op"][1:]))
            if s["op"] in ("O", "W1") and s["ret"] != "0":
                outv.append(int(s["ret"]))
            before = now
        if sorted(ins) != sorted(outv) or len(set(outv)) != len(outv):
            fails.append((ops, canon, "inserted %s handed out %s" % (ins, outv)))
    return diffs, fails, nops


CONC_SIZES = (8, 16)


def gen_conc(ctx, quick):
    """library-level lock-step cases on worker 0's run queue: owner push/pop/put, thieves with the wsapi
    take (declining / accepting callback = a scheduling point), pass, peek, plain take"""
    r = ctx.rng
    cases = []
    for size in CONC_SIZES:
        for L in (1, 2, 3):
            pushes = ["P%d" % (i + 1) for i in range(L)]
            # thief 1 sits in its decision callback while thief 2 and the owner operate
            for t1 in (["W0"], ["W1"], ["W0", "W1"]):
                for t2 in (["T"], ["W1"], ["W0"], ["S9"], ["Q", "T"]):
                    for tail in (["O", "O"], ["U8", "O", "O"], ["P7", "O"]):
                        pre = r.rng(0, 3)
                        sch = ["u0.%d" % L] + [1] * pre + [2] * r.rng(0, 9) + [0] * r.rng(0, 9) + [1] * r.rng(0, 3) + [2] * r.rng(0, 6)
                        if quick and r.chance(1, 2):
                            continue
                        cases.append(("conc decide L%d" % L, mk(size, pushes + tail, [t1, t2], sch)))
        # both re-centrings with thieves around
        n = size // 2 + 2
        for k in range(3 if quick else 12):
            own = ["P%d" % (i + 1) for i in range(n)] + ["O"] * 2
            sch = []
            for i in range(n):
                sch += ["u0.%d" % (i + 1)] + [r.rng(1, 2) for _ in range(r.rng(0, 6))]
            cases.append(("conc recentre-down", mk(size, own, [["W1", "W0", "W1"], ["W0", "T", "Q"]], sch)))
            own = ["U%d" % (i + 1) for i in range(n)] + ["O"] * 2
            cases.append(("conc recentre-up", mk(size, own, [["W0", "S40", "W1"], ["W1", "W0", "S41"]], sch)))
        for k in range(60 if quick else 600):
            nth = r.rng(1, 3)
            t = Tags()
            oo = []
            for i in range(r.rng(0, 8)):
                x = r.below(100)
                oo.append("P%d" % t.new() if x < 50 else "O" if x < 80 else "U%d" % t.new())
            oo = oo[:size // 2]
            tt = []
            for j in range(nth):
                l = []
                for i in range(r.rng(0, 4)):
                    x = r.below(100)
                    l.append("W0" if x < 30 else "W1" if x < 55 else "T" if x < 70 else "Q" if x < 80 else "K" if x < 85 else "S%d" % (50 + t.new()))
                tt.append(l)
            # keep the number of insertions below the capacity (no overflow in this harness)
            ins = sum(1 for o in oo if o[0] in "PU") + sum(1 for l in tt for o in l if o[0] == "S")
            if ins >= size // 2:
                continue
            w = [r.rng(1, 10) for _ in range(nth + 1)]
            tot = sum(w)
            sch = []
            for i in range(r.rng(0, 120)):
                x, p = r.below(tot), 0
                while x >= w[p]:
                    x -= w[p]
                    p += 1
                sch.append(p)
            cases.append(("conc random", mk(size, oo, tt, sch)))
    return cases


def run_conc(ctx, b, cases):
    """-> impl lines, model lines"""
    impl = [None] * len(cases)
    for n in CONC_SIZES:
        idx = [i for i, (k, c) in enumerate(cases) if int(c.split()[0]) == n]
        if not idx:
            continue
        rc, out = vlib.sh([b["lib%d" % n], "conc"], input="\n".join(cases[i][1] for i in idx) + "\n", timeout=300,
                          env=dict(os.environ, MYTH_NUM_WORKERS="1"))
        lines = [l for l in out.split("\n")]
        if lines and lines[-1] == "":
            lines.pop()
        for j, i in enumerate(idx):
            impl[i] = lines[j] if j < len(lines) else "<no output> (exit %d)" % rc
    model, _, _ = vlib.run_lines([b["drv"]], [c for k, c in cases], timeout=300)
    model = [model[i] if i < len(model) else "<no output>" for i in range(len(cases))]
    return impl, model


# ----------------------------------------------------------------------------------------------
# real concurrency: free-running unit harness (hardware validation, multiset oracle only)
# ----------------------------------------------------------------------------------------------

def free_configs(ctx, quick):
    """(capacity, thieves, owner operations, trypass percent, repetitions)"""
    if quick:
        cfg = [(4, 1, 250000, 0, 1), (4, 2, 250000, 10, 1), (4, 3, 200000, 20, 1),
               (8, 1, 250000, 0, 1), (8, 3, 200000, 15, 1), (16, 2, 250000, 10, 1)]
    else:
        cfg = [(n, k, 600000, p, 3) for n in FREE_SIZES for k in (1, 2, 3) for p in (0, 15)]
    return [(n, k, ops, p, reps, ctx.rng.rng(1, 1 << 30)) for (n, k, ops, p, reps) in cfg]


FREE_RE = re.compile(r"free size=(\d+) thieves=(\d+) seed=(\d+) ops=(\d+) inserted=(\d+) handed=(\d+) remaining=(\d+) "
                     r"duplicates=(\d+) lost=(\d+) bogus=(\d+) pops_null=(\d+) takes_null=(\d+) pass_ok=(\d+) pass_fail=(\d+) "
                     r"peeks=(\d+) bad_peek=(\d+) recentre_push=(\d+) recentre_put=(\d+)")


def run_free_one(b, n, k, ops, pct, reps, seed, timeout=150):
    rc, out = vlib.sh([b["free%d" % n], str(k), str(ops), str(seed), str(pct), str(reps)], timeout=timeout)
    rows = []
    for m in FREE_RE.finditer(out):
        g = [int(x) for x in m.groups()]
        rows.append({"size": g[0], "thieves": g[1], "seed": g[2], "operations": g[3], "items": g[4], "handed": g[5],
                     "remaining": g[6], "duplicates": g[7], "lost": g[8], "bogus": g[9], "pops_null": g[10],
                     "takes_null": g[11], "trypass_ok": g[12], "trypass_fail": g[13], "peeks": g[14],
                     "recentre_push": g[16], "recentre_put": g[17]})
    bad = None
    if rc != 0 or len(rows) != reps:
        bad = "free-running run did not complete (exit %d, %d of %d repetitions): %s" % (rc, len(rows), reps, out.strip()[-200:])
    for r in rows:
        if r["duplicates"] or r["lost"] or r["bogus"]:
            bad = "free-running deque: %d item(s) handed out twice, %d lost, %d bogus of %d inserted (capacity %d, %d thieves)" % (
                r["duplicates"], r["lost"], r["bogus"], r["items"], r["size"], r["thieves"])
            break
    return rows, bad


def run_free(ctx, b, quick):
    """several OS threads at once on the real deque; judged by the multiset oracle only"""
    t0 = time.time()
    rows, fails = [], []
    cfgs = free_configs(ctx, quick)
    for (n, k, ops, pct, reps, seed) in cfgs:
        r, bad = run_free_one(b, n, k, ops, pct, reps, seed)
        rows += r
        if bad:
            # not deterministic: how often does it reproduce?
            again = 0
            for j in range(5):
                r2, bad2 = run_free_one(b, n, k, ops, pct, 1, seed + j)
                again += 1 if bad2 else 0
            fails.append({"what": bad, "free_case": {"size": n, "thieves": k, "owner_ops": ops, "trypass_percent": pct,
                                                     "repetitions": reps, "seed": seed},
                          "reproduced": "%d of 5 further repetitions" % again})
            break
    summ = {"what": "real concurrency: owner + thieves as free-running OS threads on one deque (no controller, no model); "
                    "multiset oracle on the implementation only",
            "configurations": [{"size": n, "thieves": k, "owner_ops": ops, "trypass_percent": pct, "repetitions": reps, "seed": seed}
                               for (n, k, ops, pct, reps, seed) in cfgs],
            "runs": len(rows), "operations": sum(r["operations"] for r in rows), "items": sum(r["items"] for r in rows),
            "handed_out": sum(r["handed"] for r in rows), "remaining": sum(r["remaining"] for r in rows),
            "duplicates": sum(r["duplicates"] for r in rows), "losses": sum(r["lost"] for r in rows),
            "bogus": sum(r["bogus"] for r in rows),
            "trypass_ok": sum(r["trypass_ok"] for r in rows), "trypass_fail": sum(r["trypass_fail"] for r in rows),
            "recentre_push_memmoves": sum(r["recentre_push"] for r in rows),
            "recentre_put_memmoves": sum(r["recentre_put"] for r in rows),
            "pops_null": sum(r["pops_null"] for r in rows), "takes_null": sum(r["takes_null"] for r in rows),
            "wall_s": round(time.time() - t0, 2)}
    return summ, fails


# ----------------------------------------------------------------------------------------------
# whole programs under a user steal function that declines (termination clause)
# ----------------------------------------------------------------------------------------------

PROG_RE = re.compile(r"prog (\w+) workers=(\d+) decline=(\d+)/(\d+) result=(-?\d+) expected=(-?\d+) ok=(\d) attempts=(\d+) "
                     r"accepted=(\d+) declined=(\d+) peeks=(\d+) hint_ok=(\d+) hint_copied=(\d+) hint_bad=(\d+)")


def run_steal_one(b, prog, size, num, den, seed, w, timeout=25):
    rc, out = vlib.sh([b["steal"], prog, str(size), str(num), str(den), str(seed)], timeout=timeout,
                      env=dict(os.environ, MYTH_NUM_WORKERS=str(w)))
    m = PROG_RE.search(out)
    row = {"program": prog, "size": size, "workers": w, "decline": "%d/%d" % (num, den), "seed": seed, "exit": rc}
    if m:
        g = m.groups()
        row.update({"result": int(g[4]), "expected": int(g[5]), "ok": g[6] == "1", "attempts": int(g[7]), "accepted": int(g[8]),
                    "declined": int(g[9]), "peeks": int(g[10]), "hint_copied": int(g[12]), "hint_bad": int(g[13])})
    bad = None
    if rc == 124:
        bad = "program %s(%d) under a steal function declining %d/%d did not terminate on %d workers (watchdog %ds)" % (
            prog, size, num, den, w, timeout)
    elif rc != 0 or not m or not row.get("ok"):
        bad = "program %s(%d) under a steal function declining %d/%d on %d workers: exit %d, %s" % (
            prog, size, num, den, w, rc, (m.group(0) if m else out.strip()[-200:]))
    return row, bad


def run_steal_progs(ctx, b, quick):
    t0 = time.time()
    # many runnable threads on one worker: stay well inside the run-queue capacity of the tree under check
    big = min(12000, max(64, vlib.run_queue_capacity() // 8))
    progs = [("fib", 21), ("fanout", big), ("yield", big)]
    declines = [(0, 1), (1, 2), (9, 10)]
    combos = []
    for w in (1, 2, 3, 4):
        for (prog, size) in progs:
            for (num, den) in declines:
                if quick and w in (1, 3) and (num, den) != (1, 2):
                    continue
                combos.append((prog, size, num, den, w))
    rows, fails = [], []
    reps = 1 if quick else 4
    for (prog, size, num, den, w) in combos:
        for k in range(reps):
            seed = ctx.rng.rng(1, 1 << 30)
            row, bad = run_steal_one(b, prog, size, num, den, seed, w)
            rows.append(row)
            if bad:
                again = 0
                for j in range(2):
                    r2, bad2 = run_steal_one(b, prog, size, num, den, seed + 1 + j, w, timeout=10)
                    again += 1 if bad2 else 0
                fails.append({"what": bad, "steal_case": {"program": prog, "size": size, "decline": [num, den], "workers": w, "seed": seed},
                              "reproduced": "%d of 2 further repetitions" % again})
                break
        if fails:
            break
    summ = {"what": "fork-join programs run to completion (free-running, real workers) under myth_wsapi_set_stealfunc with a "
                    "decision callback declining with probability p; peek called with a real buffer",
            "runs": len(rows), "workers": sorted(set(r["workers"] for r in rows)),
            "programs": sorted(set(r["program"] for r in rows)), "decline_probabilities": ["%d/%d" % d for d in declines],
            "steal_attempts": sum(r.get("attempts", 0) for r in rows), "accepted": sum(r.get("accepted", 0) for r in rows),
            "declined": sum(r.get("declined", 0) for r in rows), "peeks": sum(r.get("peeks", 0) for r in rows),
            "hint_copies_checked": sum(r.get("hint_copied", 0) for r in rows), "hint_bad": sum(r.get("hint_bad", 0) for r in rows),
            "not_terminated_or_wrong": len(fails), "wall_s": round(time.time() - t0, 2)}
    return summ, fails


def unit_event_counts(cases, impl):
    """from the lock-step snapshots: trypass operations by outcome, and the re-centrings actually performed
    (the memmove branch: put's POINT wsq.put.recentre fires before the base == 0 test)"""
    c = {"trypass_ok": 0, "trypass_fail_lock_busy": 0, "trypass_fail_base0": 0,
         "put_recentre_point": 0, "put_recentre_memmove": 0, "push_recentre_memmove": 0, "push_recentre_abort": 0,
         "put_recentre_abort": 0}
    for (kind, case), line in zip(cases, impl):
        steps, _ = split_impl(line)
        st = parse_steps(steps)
        if not st or "mark" in st[0]:
            continue
        n = len(st[0]["labels"])
        prev = ["-"] * n
        last = None
        flds = [f.strip() for f in case.split("|")]
        progs = [flds[1 + i].split() if 1 + i < len(flds) else [] for i in range(n)]
        nops = [0] * n
        for s in st:
            if "mark" in s:
                if s["mark"].startswith("ABORT") and last is not None:
                    for q in range(n):
                        if prev[q].startswith("wsq.push.recentre"):
                            c["push_recentre_abort"] += 1
                        if prev[q].startswith("wsq.put.recentre"):
                            c["put_recentre_abort"] += 1
                break
            p = s["who"]
            if 0 <= p < n and last is not None:
                before, after = prev[p].split("(")[0], s["labels"][p].split("(")[0]
                if before == "wsq.put.recentre" and after != before:
                    c["put_recentre_point"] += 1
                    if s["top"] != last["top"]:
                        c["put_recentre_memmove"] += 1
                if before == "wsq.push.recentre" and after != before:
                    c["push_recentre_memmove"] += 1
                if before == "wsq.pass.base" and after != before:
                    c["trypass_ok"] += 1
                if before == "wsq.pass.check" and after == "spin.unlock":
                    c["trypass_fail_base0"] += 1
            if 0 <= p < n:
                lab = s["labels"][p]
                if lab.startswith("ret(") and not prev[p].startswith("ret("):
                    op = progs[p][nops[p]] if nops[p] < len(progs[p]) else "?"
                    nops[p] += 1
                    if op[0] == "S" and lab == "ret(0)" and prev[p].startswith("spin.trylock"):
                        c["trypass_fail_lock_busy"] += 1
            prev = list(s["labels"])
            last = s
    return c


def run_smoke(ctx, b):
    res, fails = [], []
    for w in (1, 2, 3, 4):
        nt, ny = 300, 5
        t0 = time.time()
        if fails:
            break                      # a hang once is enough (each costs the full timeout)
        rc, out = vlib.sh([b["lib"], "smoke", str(nt), str(ny), str(ctx.seed)], timeout=40,
                          env=dict(os.environ, MYTH_NUM_WORKERS=str(w)))
        m = re.search(r"smoke threads=(\d+) runs_min=(-?\d+) runs_max=(-?\d+) sum=(\d+) expected=(\d+)", out)
        res.append({"workers": w, "threads": nt, "yields": ny, "exit": rc, "out": out.strip()[-200:],
                    "wall_s": round(time.time() - t0, 2)})
        if not m or rc != 0:
            fails.append("workers=%d: program did not terminate normally (exit %d): %s" % (w, rc, out.strip()[-200:]))
        elif not (m.group(2) == "1" and m.group(3) == "1" and m.group(4) == m.group(5)):
            fails.append("workers=%d: per-thread execution counters not all 1: %s" % (w, m.group(0)))
    return res, fails


# ----------------------------------------------------------------------------------------------
# search for a failing input once something broke
# ----------------------------------------------------------------------------------------------

def search_failing(ctx, b, budget_cases=6000):
    """impl-side search with the property oracle: exhaustive schedules of the small configurations
    (capacity 4 and 8), then more random cases"""
    tried = 0
    for sizes, limit in (((4,), 1500), ((8,), 1500)):
        cases, _ = gen_exhaustive(ctx, b["drv"], sizes, limit)
        cases = cases[:budget_cases]
        impl, model = run_both(b, cases)
        tried += len(cases)
        for (kind, c), line in zip(cases, impl):
            steps, _ = split_impl(line)
            msg = oracle(c, steps)
            if msg:
                return (c, steps, msg, kind), tried
    cases = gen_random(ctx, 1500) + gen_directed(ctx, quick=False)[:3000]
    impl, model = run_both(b, cases)
    tried += len(cases)
    for (kind, c), line in zip(cases, impl):
        steps, _ = split_impl(line)
        msg = oracle(c, steps)
        if msg:
            return (c, steps, msg, kind), tried
    return None, tried


TSO_CONFIGS = [("8 1", "P1 P2 P3 O", ["T T T"]), ("8 1", "P1 P2 O", ["T T"]), ("8 2", "P1 P2 P3 O O", ["T", "T"]),
               ("4 1", "P1 P2 O U3 O", ["T S4"]), ("8 1", "P1 O P2 O", ["T T"])]


def tso_explore(b, tbl, maxstates=400000):
    """bounded exploration of the extracted TSO model with the observed fence table"""
    res = []
    for szn, oo, tt in TSO_CONFIGS:
        q = "tsoexplore %s %s %d | %s | %s | " % (szn, tbl, maxstates, oo, " | ".join(tt))
        rc, out = vlib.sh([b["drv"]], input=q + "\n", timeout=600)
        line = out.strip().split("\n")[0] if out.strip() else "<no output>"
        res.append({"config": q, "result": line})
        if line.startswith("FOUND"):
            return res[-1], res
    return None, res


# ----------------------------------------------------------------------------------------------
# the check
# ----------------------------------------------------------------------------------------------

def load_corpus():
    p = os.path.join(vlib.VERIF, "corpus", "C02", "cases.txt")
    res = []
    if os.path.exists(p):
        for l in open(p):
            l = l.strip()
            if l and not l.startswith("#"):
                res.append(("corpus", l))
    return res


def run(ctx):
    broken, log = ctx.prove("Properties_C02.v", "Properties_C02")
    b = build(ctx)
    quick = not ctx.thorough

    # ---- cases ----
    cases = load_corpus() + gen_directed(ctx, quick) + gen_random(ctx, 1500 if quick else 6000)
    enum_stats = {}
    if ctx.thorough:
        ex, enum_stats = gen_exhaustive(ctx, b["drv"], (4, 8), 20000)
        cases += ex
    else:
        ex, enum_stats = gen_exhaustive(ctx, b["drv"], (4,), 150, levels=(0, 1, 2, 3))
        cases += ex
    impl, model = run_both(b, cases)
    diffs, fails, kinds, outcomes = judge_unit(ctx, cases, impl, model)

    # ---- fences: translator + generated theorem ----
    static, bodies = classify_barriers(ctx)
    obs, points = fence_observations(cases, impl)
    tbl, tdetail = fence_table(static, obs)
    fences_ok, fences_log = check_fences(ctx, tbl, b)
    ctx.cov["obligations"] += 2
    if fences_ok:
        ctx.cov["discharged"] += 2
    ctx.cov["theorems"]["C02_tso_current"] = {
        "statement": "fence_table_ok table = true   (table regenerated from the current tree: %s)" % tbl,
        "status": "checked" if fences_ok else "FAILED",
        "assumptions": "Closed under the global context" if fences_ok else None}
    ctx.cov["theorems"]["C02_tso_sound_current"] = {
        "statement": "forall s, reachable tso_initial (tso_step table) s -> StateInv (logical s)   (instance of C02_tso_sound at the regenerated table)",
        "status": "checked" if fences_ok else "FAILED",
        "assumptions": "Closed under the global context" if fences_ok else None}
    missed = [p for p in POINT_IDS if p not in points]
    unexpected_positions = {n: d for n, d in tdetail.items()
                            if isinstance(d, dict) and "expected" in d and d["fence_events_seen"] != [d["expected"]]}

    # ---- library level ----
    ccases = gen_conc(ctx, quick)
    cimpl, cmodel = run_conc(ctx, b, ccases)
    cdiffs, cfails, ckinds, coutcomes = judge_unit(ctx, ccases, cimpl, cmodel)
    seq_lines = gen_seq_lines(ctx, 60 if quick else 600)
    sdiffs, sfails, sops = run_seq(ctx, b, seq_lines)
    smoke, smoke_fails = run_smoke(ctx, b)
    free_summ, free_fails = run_free(ctx, b, quick)
    steal_summ, steal_fails = run_steal_progs(ctx, b, quick)
    ev_unit = unit_event_counts(cases, impl)
    ev_conc = unit_event_counts(ccases, cimpl)

    # ---- bounded TSO exploration with the observed table (validation; also the failing-input search) ----
    tso_hit, tso_res = tso_explore(b, tbl, 150000 if quick else 1500000)

    ctx.cov["correspondence"] = {
        "cases": len(cases), "steps_compared": sum(len(split_impl(x)[0].split("|")) for x in impl),
        "disagreements": len(diffs), "oracle_failures": len(fails),
        "input_distribution": kinds, "impl_result_distribution": outcomes,
        "point_ids_hit": {p: points.get(p, 0) for p in POINT_IDS}, "point_ids_missed": missed,
        "exhaustive_schedule_counts": enum_stats,
        "library_lockstep_wsapi": {"cases": len(ccases), "steps_compared": sum(len((x or "").split("|")) for x in cimpl),
                                   "disagreements": len(cdiffs), "oracle_failures": len(cfails),
                                   "input_distribution": ckinds, "result_distribution": coutcomes},
        "library_sequential": {"lines": len(seq_lines), "operations": sops, "disagreements": len(sdiffs),
                               "oracle_failures": len(sfails)},
        "library_smoke": smoke,
        "trypass_and_recentring_in_lockstep_runs": {"unit": ev_unit, "library_wsapi": ev_conc},
    }
    ctx.cov["free_running"] = free_summ
    ctx.cov["steal_function_programs"] = steal_summ
    ctx.cov["fences"] = {"barrier_classes_from_gcc_S": static, "probe_bodies": bodies, "table": tbl,
                         "pinned_table": PINNED, "positions": tdetail,
                         "positions_differing_from_pinned_placement": unexpected_positions,
                         "tso_exploration_with_observed_table": tso_res}
    i0 = 0
    for i in (0, len(cases) // 2, len(cases) - 1):
        ctx.cov["samples"].append({"kind": cases[i][0], "case": cases[i][1], "impl": (impl[i] or "")[:600],
                                   "model": (model[i] or "")[:600]})
    ctx.cov["trusted_base"] += [
        "extraction: ExtrOcamlBasic only; ocaml/driver_C02.ml (case parsing, round-robin completion, BFS explorer), ocaml/zio.ml",
        "harness/c02_wsq_unit.c (token-passing controller on g_myth_verif_cb; includes the real src/myth_wsqueue_func.h; defines real_malloc/real_free)",
        "harness/c02_lib.c (wsapi functions of the real library one call at a time; smoke program)",
        "harness/c02_wsq_free.c (free-running OS threads on the real header; slot reservation counter keeps the queue below capacity), harness/c02_steal_prog.c (programs under a declining steal function)",
        "translator in tools/props/c02.py: classification of barrier bodies from gcc -S (xchg/mfence/lock = Full), positions from wsq.fence.* EVENTs",
        "modelled, not verified: x86-TSO as store buffers (hardware not exercised); memmove as one block store; the placement of MYTH_VERIF_POINTs as step boundaries",
    ]

    # ---- verdicts ----
    if fails:
        c, steps, msg, kind = fails[0]
        ctx.violation("oracle", msg, {"case": c, "kind": kind, "observed": steps[-1500:], "level": "unit (real myth_wsqueue_func.h)",
                                      "expected": "every inserted tag handed out exactly once or still queued",
                                      "all_failing": [(f[0], f[2]) for f in fails[:20]]}, found=True)
    if cfails:
        c, steps, msg, kind = cfails[0]
        ctx.violation("oracle-library", msg, {"conc_case": c, "kind": kind, "observed": steps[-1500:],
                                              "level": "library (wsapi functions of the real library, lock-step)",
                                              "expected": "every inserted tag handed out exactly once or still queued",
                                              "all_failing": [(f[0], f[2]) for f in cfails[:20]]}, found=True)
    if sfails:
        ops, canon, msg = sfails[0]
        ctx.violation("oracle-library", msg, {"seq_case": ops, "observed": canon[-1500:], "level": "library (wsapi)"}, found=True)
    if smoke_fails:
        ctx.violation("smoke", smoke_fails[0], {"smoke": smoke, "level": "library"}, found=True)
    if free_fails:
        f = free_fails[0]
        ctx.violation("free-running", f["what"], {"free_case": f["free_case"], "level": "unit, real concurrency (several OS threads)",
                                                  "note": "NOT deterministic (free-running OS threads): re-run the case several times; " + f["reproduced"],
                                                  "expected": "every inserted item handed out exactly once or still queued"}, found=True)
    if steal_fails:
        f = steal_fails[0]
        ctx.violation("steal-program", f["what"], {"steal_case": f["steal_case"], "level": "library, whole program under a user steal function",
                                                   "note": "NOT deterministic (free-running workers); " + f["reproduced"],
                                                   "expected": "the program terminates with the right result: a declined candidate stays available"}, found=True)
    anyfound = bool(fails or sfails or smoke_fails or cfails or free_fails or steal_fails)
    need_search = (diffs or sdiffs or cdiffs or broken or missed) and not anyfound
    searched = None
    if need_search:
        hit, tried = search_failing(ctx, b)
        searched = tried
        if hit:
            c, steps, msg, kind = hit
            ctx.violation("oracle", msg, {"case": c, "kind": kind, "observed": steps[-1500:], "level": "unit (real myth_wsqueue_func.h)",
                                          "found_by": "search after a broken correspondence/obligation (%d cases)" % tried}, found=True)
            anyfound = True
    if diffs and not anyfound:
        d = diffs[0]
        ctx.violation("correspondence", "model and implementation disagree on %d case(s); first at step %d of: %s" % (
            len(diffs), d["first_differing_step"], d["case"]),
            {"theorem_or_correspondence": "lock-step correspondence Wsq/WsqModel.v <-> src/myth_wsqueue_func.h",
             "case": d["case"], "observed": d["impl"], "expected": d["model"], "state_before": d["before"],
             "all": diffs[:20], "searched_cases": searched}, found=False)
    if cdiffs and not anyfound:
        # impl-side search at library level: more wsapi lock-step cases with the oracle
        extra = []
        for k in range(6):
            extra += gen_conc(ctx, False)
        ximpl, xmodel = run_conc(ctx, b, extra)
        xd, xf, _, _ = judge_unit(ctx, extra, ximpl, xmodel)
        if xf:
            c, steps, msg, kind = xf[0]
            ctx.violation("oracle-library", msg, {"conc_case": c, "kind": kind, "observed": steps[-1500:],
                                                  "level": "library (wsapi functions of the real library, lock-step)",
                                                  "found_by": "search after a broken correspondence (%d cases)" % len(extra)}, found=True)
            anyfound = True
        else:
            d = cdiffs[0]
            ctx.violation("correspondence-library", "model and library (wsapi, lock-step) disagree on %d case(s); first at step %d of: %s" % (
                len(cdiffs), d["first_differing_step"], d["case"]),
                {"theorem_or_correspondence": "lock-step correspondence Wsq/WsqModel.v <-> src/myth_if_native.c (wsapi) + src/myth_wsqueue_func.h",
                 "conc_case": d["case"], "observed": d["impl"], "expected": d["model"], "state_before": d["before"],
                 "all": cdiffs[:20], "searched_cases": len(extra)}, found=False)
    if sdiffs and not anyfound:
        d = sdiffs[0]
        ctx.violation("correspondence-library", "model and library (wsapi) disagree on %d line(s)" % len(sdiffs),
                      {"theorem_or_correspondence": "sequential correspondence Wsq/WsqModel.v <-> src/myth_if_native.c (wsapi)",
                       "seq_case": d["case"], "observed": d["impl"], "expected": d["model"], "searched_cases": searched}, found=False)
    if missed and not anyfound and not diffs:
        ctx.violation("coverage", "POINT ids never executed by the lock-step runs: " + ", ".join(missed),
                      {"theorem_or_correspondence": "coverage of the modelled routine by the correspondence run", "missed": missed}, found=False)
    if broken and not anyfound:
        ctx.violation("proof", "theorem(s) no longer check: " + ", ".join(broken),
                      {"theorem_or_correspondence": ", ".join(broken), "log": getattr(ctx, "proof_log", log[-3000:]),
                       "searched_cases": searched}, found=False)
    if not fences_ok:
        if tso_hit:
            ctx.violation("fences", "fence table of the current tree (%s, pinned %s) fails fence_table_ok; the TSO model with this table hands an item out twice / loses one: %s" % (
                tbl, PINNED, tso_hit["result"][:300]),
                {"level": "model-tso", "tso_case": tso_hit["config"], "table": tbl, "observed": tso_hit["result"],
                 "note": "schedule of the extracted x86-TSO model (store buffers); not reproducible deterministically on hardware",
                 "theorem_or_correspondence": "C02_tso_current", "positions": tdetail}, found=True)
        else:
            ctx.violation("fences", "fence table of the current tree (%s, pinned %s) fails fence_table_ok" % (tbl, PINNED),
                          {"theorem_or_correspondence": "C02_tso_current", "table": tbl, "positions": tdetail,
                           "log": fences_log, "tso_exploration": tso_res}, found=False)
    elif tso_hit:
        ctx.violation("tso-exploration", "the TSO model with the current fence table violates conservation although fence_table_ok accepts it: " + tso_hit["result"][:300],
                      {"level": "model-tso", "tso_case": tso_hit["config"], "table": tbl, "observed": tso_hit["result"]}, found=True)
    return ctx.finish(assumptions=[
        "sequential consistency for the invariant theorems; x86-TSO only through the store-buffer model (witness, litmus lemmas, bounded exploration)",
        "one owner per queue (push/pop/put are called by the owning worker only); thieves call take/trypass/peek/wsapi take",
        "inserted items are pairwise distinct for the 'returned items pairwise distinct' clause (thread descriptors are)",
        "a step of the model = the code between two consecutive MYTH_VERIF_POINTs (one shared access, or one region under q->lock)"])


# ----------------------------------------------------------------------------------------------
# replay
# ----------------------------------------------------------------------------------------------

def replay(ctx, path):
    body = json.load(open(path))
    b = build(ctx)
    if "case" in body:
        c = body["case"]
        cases = [("replay", c)]
        impl, model = run_both(b, cases)
        steps, ev = split_impl(impl[0])
        print("case:  ", c)
        x, y = steps.split("|"), (model[0] or "").split("|")
        for k in range(max(len(x), len(y))):
            a = x[k] if k < len(x) else "<end>"
            m = y[k] if k < len(y) else "<end>"
            print("%3d impl  %s" % (k, a))
            if a != m:
                print("%3d model %s   <-- differs" % (k, m))
        print("fences:", ev)
        print("oracle:", oracle(c, steps))
    if "conc_case" in body:
        c = body["conc_case"]
        impl, model = run_conc(ctx, b, [("replay", c)])
        print("conc case:", c)
        x, y = (impl[0] or "").split("|"), (model[0] or "").split("|")
        for k in range(max(len(x), len(y))):
            a = x[k] if k < len(x) else "<end>"
            m = y[k] if k < len(y) else "<end>"
            print("%3d impl  %s" % (k, a))
            if a != m:
                print("%3d model %s   <-- differs" % (k, m))
        print("oracle:", oracle(c, impl[0] or ""))
    if "free_case" in body:
        f = body["free_case"]
        print("free-running case (not deterministic):", f)
        hits = 0
        for j in range(5):
            rows, bad = run_free_one(b, f["size"], f["thieves"], f["owner_ops"], f["trypass_percent"], 1, f["seed"] + j)
            print("  repetition %d: %s" % (j, bad or ("ok " + json.dumps(rows[0]) if rows else "no output")))
            hits += 1 if bad else 0
        print("reproduced in %d of 5 repetitions" % hits)
    if "steal_case" in body:
        f = body["steal_case"]
        print("steal-function program (not deterministic):", f)
        hits = 0
        for j in range(5):
            row, bad = run_steal_one(b, f["program"], f["size"], f["decline"][0], f["decline"][1], f["seed"] + j, f["workers"], timeout=20)
            print("  repetition %d: %s" % (j, bad or ("ok " + json.dumps(row))))
            hits += 1 if bad else 0
        print("reproduced in %d of 5 repetitions" % hits)
    if "seq_case" in body:
        ops = body["seq_case"]
        if ops.startswith("seq "):
            ops = ops.split("|")[-1].strip()
        d, f, n = run_seq(ctx, b, [ops])
        print("seq case:", ops)
        print("disagreements:", d)
        print("oracle:", f)
    if "tso_case" in body:
        rc, out = vlib.sh([b["drv"]], input=body["tso_case"] + "\n", timeout=600)
        print("tso case:", body["tso_case"])
        print("model:   ", out.strip())
    if "smoke" in body:
        print(run_smoke(ctx, b))
    return 0
