"""C15 translator: which public entry points initialise the library before they touch worker state?

From the CURRENT tree (vlib.REPO):
  * include/myth/myth.h                    -> the public functions (name, parameter types);
  * gcc -E of every library translation unit (vlib.COMMON_SRCS) -> every function definition that the
    configured build really sees (public wrappers of src/myth_if_native.c, the static inline *_body
    functions of src/*_func.h, helpers), conditionals and macros resolved by the real preprocessor;
  * per function body, IN TEXTUAL ORDER, a tree of events (see coq/Init/InitTableModel.v):
        EEnsure   call of myth_ensure_init / myth_ensure_init_ex / myth_init_ex_body
        EUse      use of worker state: myth_get_current_env(), g_envs, g_envs_sz, g_worker_rank
        ECall f   call of a function whose body is in the table
        EGuard    `if (g_myth_init_state == myth_init_state_uninit) return ...`
        EReturn   a return statement (after the events of its expression)
        EBlock b  a nested {...} block, or the part of a statement that follows if / else / while / for /
                  do / switch / case / ?: / && / ||   (executed zero or more times)
    Conservative in the direction that matters: an ensure-init call only protects what follows it in
    the SAME list; a use is reported wherever it stands.
The classification (Uses / Safe false / Safe true) is computed by the verified Coq checker on the emitted
data; classify() mirrors it for the evidence and the generated first-use programs and is cross-checked
against Coq's own answer on every run."""
import os, re, subprocess, sys
from concurrent.futures import ThreadPoolExecutor
import vlib

ENSURE = {"myth_ensure_init", "myth_ensure_init_ex", "myth_init_ex_body"}
USE_CALLS = {"myth_get_current_env"}
USE_VARS = {"g_envs", "g_envs_sz", "g_worker_rank"}
KEYWORDS = {"if", "else", "while", "for", "do", "switch", "case", "default", "return", "goto", "sizeof", "break", "continue",
            "__attribute__", "__asm__", "asm", "__extension__", "__typeof__", "typeof", "__builtin_va_arg", "__alignof__",
            "_Alignof", "__builtin_offsetof", "__builtin_types_compatible_p"}
COND_KW = {"if", "else", "while", "for", "do", "switch", "case", "default"}
TOK = re.compile(r'"(?:\\.|[^"\\])*"|\'(?:\\.|[^\'\\])*\'|[A-Za-z_]\w*|\d[\w.]*|&&|\|\||==|!=|<=|>=|->|\+\+|--|<<|>>|[-+*/%&|^~!<>=?:;,.(){}\[\]#]')
IDENT = re.compile(r"[A-Za-z_]\w*$")
GUARD_IF = ["if", "(", "g_myth_init_state", "==", "myth_init_state_uninit", ")"]


def preprocess(src):
    cmd = ["gcc", "-E", "-P"] + vlib.lib_cflags() + [os.path.join(vlib.REPO, "src", src)]
    p = subprocess.run(cmd, stdout=subprocess.PIPE, stderr=subprocess.PIPE, text=True, errors="replace", timeout=180)
    if p.returncode != 0:
        raise vlib.BuildError("gcc -E of src/%s failed:\n%s" % (src, p.stderr[-2000:]))
    return p.stdout


def skip_parens(toks, i):
    """toks[i] == '(' : index of the matching ')'"""
    d = 0
    n = len(toks)
    while i < n:
        if toks[i] == "(":
            d += 1
        elif toks[i] == ")":
            d -= 1
            if d == 0:
                return i
        i += 1
    return n - 1


def function_defs(text):
    """{name: (is_static, [body tokens from '{' to the matching '}'])} for the definitions at file scope"""
    toks = TOK.findall(text)
    defs = {}
    i, n, depth = 0, len(toks), 0
    stmt_start = 0
    while i < n:
        t = toks[i]
        if t == "{":
            depth += 1
        elif t == "}":
            depth -= 1
            if depth == 0:
                stmt_start = i + 1
        elif t == ";" and depth == 0:
            stmt_start = i + 1
        elif depth == 0 and t == "(" and i > 0 and IDENT.match(toks[i - 1]) and toks[i - 1] not in KEYWORDS:
            name = toks[i - 1]
            j = skip_parens(toks, i)
            k = j + 1
            while k < n and toks[k] in ("__attribute__", "__asm__"):
                k = skip_parens(toks, k + 1) + 1
            if k < n and toks[k] == "{":
                head = toks[stmt_start:i - 1]
                b, bd = k, 0
                while b < n:
                    if toks[b] == "{":
                        bd += 1
                    elif toks[b] == "}":
                        bd -= 1
                        if bd == 0:
                            break
                    b += 1
                defs[name] = ("static" in head, toks[k:b + 1])
                i = b + 1
                stmt_start = i
                continue
            i = j
        i += 1
    return defs


def parse_block(toks, i, known, allcond=False):
    """toks[i] == '{'.  Returns (events of the block, index after the matching '}').  An event is
    ('use', what) | ('ensure',) | ('call', f) | ('guard',) | ('return',) | ('block', [events]).
    allcond: every statement of this block (and of the nested ones) is conditional - used for the body of a
    switch and for functions that contain a forward goto, where textual order is not execution order"""
    assert toks[i] == "{"
    i += 1
    out = []

    def fresh():
        if not allcond:
            return out
        sub = []
        out.append(("block", sub))
        return sub
    target = fresh()          # list receiving the events of the current statement
    stmt = []                 # tokens of the current statement (this nesting level only)
    pd = 0                    # parenthesis depth inside the current statement
    ret_pending = False
    n = len(toks)
    while i < n:
        t = toks[i]
        if t == "}":
            if ret_pending:
                target.append(("return",))
            return out, i + 1
        if t == "{":
            if stmt[:6] == GUARD_IF and len(stmt) == 6 and toks[i + 1] == "return":
                # if (state == uninit) { return ...; }
                sub, i = parse_block(toks, i, known, allcond)
                (target if allcond else out).append(("guard",))
                target, stmt, pd = fresh(), [], 0
                continue
            sub, i = parse_block(toks, i, known, allcond or (bool(stmt) and stmt[0] == "switch"))
            target.append(("block", sub))
            if pd == 0:
                target, stmt = fresh(), []      # a compound statement ends the statement
            continue
        if t == ";" and pd == 0:
            if ret_pending:
                target.append(("return",))
                ret_pending = False
            target, stmt = fresh(), []
            i += 1
            continue
        stmt.append(t)
        if t == "(":
            pd += 1
        elif t == ")":
            pd -= 1
        if t in COND_KW or t in ("?", "&&", "||"):
            if stmt == ["if"] and toks[i:i + 6] == GUARD_IF and toks[i + 6] == "return":
                # if (state == uninit) return ...;
                j = i + 6
                while toks[j] != ";":
                    j += 1
                (target if allcond else out).append(("guard",))
                target, stmt, pd = fresh(), [], 0
                i = j + 1
                continue
            if target is out:
                sub = []
                out.append(("block", sub))
                target = sub
        if t == "return":
            ret_pending = True
        nxt = toks[i + 1] if i + 1 < n else ""
        if IDENT.match(t) and t not in KEYWORDS:
            if t in USE_VARS:
                target.append(("use", t))
            elif nxt == "(":
                if t in ENSURE:
                    target.append(("ensure",))
                elif t in USE_CALLS:
                    target.append(("use", t))
                elif t in known:
                    target.append(("call", t))
        i += 1
    return out, i


def has_forward_goto(body):
    """a goto that stands textually before its label can skip statements; a backward goto only repeats
    statements that come after everything before the label, so textual order still is a dominance order"""
    if "goto" not in body:
        return False
    labels = {}
    for i in range(1, len(body) - 1):
        if body[i + 1] == ":" and IDENT.match(body[i]) and body[i] not in KEYWORDS and body[i - 1] in (";", "{", "}", ":"):
            labels.setdefault(body[i], i)
    for i, t in enumerate(body):
        if t == "goto":
            lab = body[i + 1] if i + 1 < len(body) else ""
            if lab not in labels or labels[lab] > i:
                return True
    return False


def prune(evs):
    """drop empty blocks"""
    out = []
    for e in evs:
        if e[0] == "block":
            sub = prune(e[1])
            if sub:
                out.append(("block", sub))
        else:
            out.append(e)
    return out


def public_api():
    """[(name, return type, [parameter declarations])] declared in include/myth/myth.h"""
    txt = open(os.path.join(vlib.REPO, "include", "myth", "myth.h"), errors="replace").read()
    txt = re.sub(r"/\*.*?\*/", " ", txt, flags=re.S)
    txt = re.sub(r"//[^\n]*", " ", txt)
    txt = re.sub(r"^\s*#.*?$", " ", txt, flags=re.M)
    res, seen = [], set()
    for m in re.finditer(r"\b(myth_\w+)\s*\(", txt):
        name = m.group(1)
        # the text between the previous ; { } and the name must be a plain return type
        k = m.start()
        j = k
        while j > 0 and txt[j - 1] not in ";{}":
            j -= 1
        ret = " ".join(txt[j:k].split())
        if not ret or not re.match(r"^[A-Za-z_][\w\s\*]*$", ret) or re.search(r"\b(typedef|return|define)\b", ret):
            continue
        # matching parenthesis, then ';'
        d, e = 0, m.end() - 1
        while e < len(txt):
            if txt[e] == "(":
                d += 1
            elif txt[e] == ")":
                d -= 1
                if d == 0:
                    break
            e += 1
        rest = txt[e + 1:e + 40].lstrip()
        if not rest.startswith(";") or name in seen:
            continue
        seen.add(name)
        params = " ".join(txt[m.end():e].split())
        res.append((name, ret, [] if params in ("void", "") else split_params(params)))
    return res


def split_params(s):
    out, cur, d = [], "", 0
    for ch in s:
        if ch == "(":
            d += 1
        elif ch == ")":
            d -= 1
        if ch == "," and d == 0:
            out.append(cur.strip())
            cur = ""
        else:
            cur += ch
    if cur.strip():
        out.append(cur.strip())
    return out


def takes_handle(params):
    """a thread handle (or pickle) can only come from an earlier library call"""
    return any(re.search(r"\bmyth_thread_t\b(?!\s*\*)|\bmyth_pickle_t\b", p) for p in params)


def translate():
    with ThreadPoolExecutor(max_workers=6) as ex:
        texts = list(ex.map(preprocess, vlib.COMMON_SRCS))
    defs = {}
    for src, text in zip(vlib.COMMON_SRCS, texts):
        for name, (st, body) in function_defs(text).items():
            if name not in defs or (not st and defs[name][0]):
                defs[name] = (st, body, src)
    known = set(defs) - ENSURE - USE_CALLS
    funcs = {}
    for name in known:
        evs, _ = parse_block(defs[name][1], 0, known, allcond=has_forward_goto(defs[name][1]))
        funcs[name] = prune(evs)
    api = public_api()
    entries, undefined = [], []
    for name, ret, params in api:
        if name in defs and not defs[name][0]:
            entries.append({"name": name, "ret": ret, "params": params, "first": not takes_handle(params)})
        else:
            undefined.append(name)
    reach, todo = set(), [e["name"] for e in entries]

    def calls(evs):
        for e in evs:
            if e[0] == "call":
                yield e[1]
            elif e[0] == "block":
                yield from calls(e[1])
    while todo:
        f = todo.pop()
        if f in reach or f not in funcs:
            continue
        reach.add(f)
        todo.extend(calls(funcs[f]))
    funcs = {f: funcs[f] for f in sorted(reach)}
    depth = call_depth(funcs)
    return {"funcs": funcs, "entries": entries, "undefined": undefined, "n_defs": len(defs), "fuel": depth + 2}


def call_depth(funcs):
    """longest acyclic call chain (recursion counted once) - the fuel the checker needs"""
    memo = {}
    sys.setrecursionlimit(20000)

    def calls(evs):
        for e in evs:
            if e[0] == "call":
                yield e[1]
            elif e[0] == "block":
                yield from calls(e[1])

    def d(f, stack):
        if f in memo:
            return memo[f]
        if f in stack or f not in funcs:
            return 0
        stack.add(f)
        r = 1 + max([d(g, stack) for g in set(calls(funcs[f]))] or [0])
        stack.discard(f)
        memo[f] = r
        return r
    return max([d(f, set()) for f in funcs] or [0])


# ---- mirror of the Coq checker ----

def may_return(evs):
    for e in evs:
        if e[0] in ("return", "guard"):
            return True
        if e[0] == "block" and may_return(e[1]):
            return True
    return False


def classify(tr, names=None):
    """{name: 'uses' | 'safe' | 'ensures'}  ('safe' = Safe false, 'ensures' = Safe true)"""
    funcs, fuel0 = tr["funcs"], tr["fuel"]
    memo = {}
    sys.setrecursionlimit(20000)

    def go(fuel, evs):
        if not evs:
            return "safe"
        e, r = evs[0], evs[1:]
        if e[0] == "use":
            return "uses"
        if e[0] == "ensure":
            return "ensures"
        if e[0] in ("guard", "return"):
            return "safe"
        if e[0] == "block":
            if go(fuel, e[1]) == "uses":
                return "uses"
            c = go(fuel, r)
            if c == "uses":
                return "uses"
            return "ensures" if (c == "ensures" and not may_return(e[1])) else "safe"
        if e[1] not in funcs:
            return go(fuel, r)
        c = scan(fuel - 1, e[1])
        if c == "uses":
            return "uses"
        if c == "ensures":
            return "ensures"
        return go(fuel, r)

    def scan(fuel, f):
        if fuel <= 0:
            return "uses"
        key = (fuel, f)
        if key not in memo:
            memo[key] = "uses"            # recursion: the inner occurrence runs out of fuel eventually
            memo[key] = go(fuel, funcs[f])
        return memo[key]

    names = names if names is not None else [e["name"] for e in tr["entries"]]
    return {nm: (scan(fuel0, nm) if nm in funcs else "uses") for nm in names}


def why_uses(tr, name, seen=None):
    """a call chain from an entry to a worker-state use that no ensure-init dominates"""
    funcs = tr["funcs"]
    seen = seen if seen is not None else set()
    if name in seen or name not in funcs:
        return None
    seen.add(name)
    cl = classify(tr, list(funcs))

    def walk(evs):
        for e in evs:
            if e[0] == "use":
                return [e[1]]
            if e[0] in ("ensure", "guard", "return"):
                return None
            if e[0] == "block":
                w = walk(e[1])
                if w:
                    return w
            if e[0] == "call" and e[1] in funcs:
                if cl[e[1]] == "uses":
                    sub = why_uses(tr, e[1], seen)
                    return [e[1]] + (sub[1:] if sub else ["?"])
                if cl[e[1]] == "ensures":
                    return None
        return None
    w = walk(funcs[name])
    return [name] + w if w else None


def uses_anywhere(tr):
    """{function: True if a use of worker state is reachable from it at all}"""
    funcs = tr["funcs"]
    direct, callees = {}, {}

    def walk(evs, f):
        for e in evs:
            if e[0] == "use":
                direct[f] = True
            elif e[0] == "call":
                callees[f].add(e[1])
            elif e[0] == "block":
                walk(e[1], f)
    for f, evs in funcs.items():
        direct[f] = False
        callees[f] = set()
        walk(evs, f)
    res = dict(direct)
    changed = True
    while changed:
        changed = False
        for f in funcs:
            if not res[f] and any(res.get(g, False) for g in callees[f]):
                res[f] = True
                changed = True
    return res


def race_entries(tr, cl, done):
    """entries of class `ensures` that a native (non-worker) OS thread may legitimately call: they never need the
    current worker, so the losers of a concurrent implicit first use can complete them after the winner initialised"""
    ua = uses_anywhere(tr)
    return [n for n in done if cl.get(n) == "ensures" and not ua.get(n, True)]


# ---- Coq data ----

def coq_events(evs):
    parts = []
    for e in evs:
        if e[0] == "use":
            parts.append("EUse")
        elif e[0] == "ensure":
            parts.append("EEnsure")
        elif e[0] == "guard":
            parts.append("EGuard")
        elif e[0] == "return":
            parts.append("EReturn")
        elif e[0] == "call":
            parts.append('ECall "%s"' % e[1])
        else:
            parts.append("EBlock (%s)" % coq_events(e[1]))
    return "bl [" + "; ".join(parts) + "]"


def coq_data(tr, header):
    out = [header, "From Coq Require Import List String Bool.", "From MT Require Import Init.InitTableModel.",
           "Import ListNotations.", "Local Open Scope string_scope.", "",
           "Definition fuel : nat := %d." % tr["fuel"], "",
           "Definition funcs : list fn := ["]
    out.append(";\n".join('  {| f_name := "%s"; f_events := %s |}' % (f, coq_events(evs)) for f, evs in tr["funcs"].items()))
    out.append("].\n")
    out.append("Definition entries : list entry := [")
    out.append(";\n".join('  {| e_name := "%s"; e_first := %s |}' % (e["name"], "true" if e["first"] else "false")
                          for e in tr["entries"]))
    out.append("].\n")
    return "\n".join(out) + "\n"


# ---- generated first-use programs ----

SKIP_FIRST = {
    "myth_cond_wait": "blocks for ever without a partner thread",
    "myth_uncond_wait": "blocks for ever without a partner thread",
    "myth_uncond_signal": "spins until a waiter arrives",
    "myth_join_counter_wait": "blocks until the counter is decremented by other threads",
    "myth_wsapi_set_stealfunc": "replaces the scheduler's steal function",
    "myth_sleep": "sleeps for whole seconds",
    "myth_exit": "terminates the calling (main) thread; the process then never exits, also after an explicit myth_init (not a first-use matter)",
    "myth_cond_timedwait": "unimplemented in the library (assert(0) in `unimplemented`)",
    "myth_rwlock_rdlock": "unimplemented in the library (assert(0) in `unimplemented`)",
    "myth_rwlock_tryrdlock": "unimplemented in the library (assert(0) in `unimplemented`)",
    "myth_rwlock_timedrdlock": "unimplemented in the library (assert(0) in `unimplemented`)",
    "myth_rwlock_wrlock": "unimplemented in the library (assert(0) in `unimplemented`)",
    "myth_rwlock_trywrlock": "unimplemented in the library (assert(0) in `unimplemented`)",
    "myth_rwlock_timedwrlock": "unimplemented in the library (assert(0) in `unimplemented`)",
    "myth_rwlock_unlock": "unimplemented in the library (assert(0) in `unimplemented`)",
}
INT_OVERRIDE = {("myth_felock_wait_and_lock", 1): "0", ("myth_yield_ex", 0): "0", ("myth_setcancelstate", 0): "0",
                ("myth_setcanceltype", 0): "0", ("myth_mutexattr_settype", 1): "0", ("myth_rwlockattr_setkind", 1): "0",
                ("myth_thread_attr_setdetachstate", 1): "0", ("myth_thread_attr_setstacksize", 1): "65536",
                ("myth_thread_attr_setguardsize", 1): "4096", ("myth_globalattr_set_stacksize", 1): "131072",
                ("myth_globalattr_set_guardsize", 1): "4096"}
PRELUDE_EXTRA = {"myth_cond_timedwait": "myth_mutex_lock(&o1);", "myth_mutex_unlock": "myth_mutex_lock(&o0);",
                 "myth_felock_unlock": "myth_felock_lock(&o0);", "myth_felock_mark_and_signal": "myth_felock_lock(&o0);"}


def strip_name(p):
    """parameter declaration -> type text"""
    p = p.strip()
    if "(*" in p:
        return p
    p = re.sub(r"\brestrict\b", "", p)
    m = re.match(r"^(.*?)([A-Za-z_]\w*)$", p.strip())
    if m and m.group(1).strip() and not re.match(r"^(const|struct|unsigned|signed|long|short)$", m.group(1).strip().split()[-1] if m.group(1).strip().split() else ""):
        return " ".join(m.group(1).split())
    return " ".join(p.split())


def first_call_code(e, api_names):
    """(C statements, None) or (None, reason) for calling entry e as the first library call"""
    name = e["name"]
    if name in SKIP_FIRST:
        return None, SKIP_FIRST[name]
    decls, prelude, args = [], [], []
    for k, p in enumerate(e["params"]):
        ty = strip_name(p)
        v = None
        if "(*" in ty:
            v = "nop0" if re.search(r"\)\s*\(\s*void\s*\)", ty) else "NULL"
        elif re.match(r"^myth_func_t \*$", ty):
            decls.append("static myth_func_t fv%d = nop;" % k); v = "&fv%d" % k
        elif ty == "myth_func_t":
            v = "nop"
        elif re.match(r"^myth_thread_t \*$", ty):
            decls.append("static myth_thread_t tid%d[2];" % k); v = "tid%d" % k
        elif re.match(r"^const struct timespec \*$", ty):
            decls.append("static struct timespec ts%d = { 0, 1000 };" % k); v = "&ts%d" % k
        elif re.match(r"^struct timespec \*$", ty):
            v = "NULL"
        elif re.match(r"^const myth_\w*attr_t \*$", ty) and not name.endswith(("_gettype", "_getkind", "_getdetachstate", "_getguardsize",
                                                                               "_getstacksize", "_getstack")):
            v = "NULL"
        elif re.match(r"^(const )?myth_(\w+)_t \*$", ty):
            base = re.match(r"^(const )?myth_(\w+)_t \*$", ty).group(2)
            if base in ("key", "wls_key"):
                decls.append("static myth_%s_t kv%d;" % (base, k)); v = "&kv%d" % k
            elif base == "globalattr" and name in ("myth_init_ex",):
                v = "NULL"
            else:
                decls.append("static myth_%s_t o%d;" % (base, k)); v = "&o%d" % k
                init = "myth_%s_init" % base
                if init in api_names and init != name:
                    extra = {"myth_barrier_init": ", NULL, 1", "myth_join_counter_init": ", NULL, 1", "myth_mutex_init": ", NULL",
                             "myth_cond_init": ", NULL", "myth_rwlock_init": ", NULL", "myth_felock_init": ", NULL"}.get(init, "")
                    prelude.append("%s(&o%d%s);" % (init, k, extra))
        elif ty in ("myth_key_t", "myth_wls_key_t"):
            v = "0"
        elif ty == "void * *" or ty == "void **":
            decls.append("static void * vp%d;" % k); v = "&vp%d" % k
        elif ty in ("void *", "const void *"):
            v = "NULL"
        elif ty == "int *":
            decls.append("static int iv%d;" % k); v = "&iv%d" % k
        elif ty == "size_t *":
            decls.append("static size_t sv%d = 8;" % k); v = "&sv%d" % k
        elif ty in ("int", "unsigned int", "long", "size_t", "useconds_t", "unsigned"):
            v = INT_OVERRIDE.get((name, k), "1")
        elif ty == "char *":
            v = '"x"'
        elif ty == "myth_wsapi_decidefn_t":
            v = "NULL"
        else:
            return None, "no rule to build an argument of type `%s`" % ty
        args.append(v)
    if name in ("myth_create_join_many_ex", "myth_create_join_various_ex"):
        # (ids, attrs, func(s), args, results, strides..., nthreads): one thread, no attributes
        args[1] = "NULL"
        for k in range(5, len(args) - 1):
            args[k] = "0"
    if name in PRELUDE_EXTRA:
        prelude.append(PRELUDE_EXTRA[name])
    return (decls, prelude, "%s(%s);" % (name, ", ".join(args))), None


FIRST_HEAD = r"""/* GENERATED by tools/props/c15_translate.py: one function per public entry point; main calls the one named
   by argv[1] as the FIRST library call of the process (object arguments are prepared by the pure initialisers). */
#define _GNU_SOURCE
#include <stdio.h>
#include <stdlib.h>
#include <string.h>
#include <unistd.h>
#include <dirent.h>
#include <time.h>
#include <myth/myth.h>
extern volatile int g_myth_init_state;
static void * nop(void * a) { return a; }
static void nop0(void) { }
static int count_tasks_once(void) {
  DIR * d = opendir("/proc/self/task"); struct dirent * e; int n = 0;
  if (!d) return -1;
  while ((e = readdir(d))) if (e->d_name[0] != '.') n++;
  closedir(d); return n;
}
static int count_tasks_expect(int expect) {
  int i, n = -1;
  for (i = 0; i < 300; i++) { n = count_tasks_once(); if (n == expect) break; usleep(1000); }
  return n;
}
"""


def first_program(tr):
    """(C source, {name: reason} for the entries that are not exercised, [exercised names])"""
    api_names = {e["name"] for e in tr["entries"]}
    src = [FIRST_HEAD]
    skipped, done = {}, []
    for e in tr["entries"]:
        if not e["first"]:
            skipped[e["name"]] = "takes a thread handle: cannot be a first call"
            continue
        code, why = first_call_code(e, api_names)
        if code is None:
            skipped[e["name"]] = why
            continue
        decls, prelude, call = code
        src.append("static int call_%s(void) {\n  %s\n  %s\n  int before = g_myth_init_state;\n  %s\n  return before;\n}\n" % (
            e["name"], "\n  ".join(decls), "\n  ".join(prelude), call))
        done.append(e["name"])
    src.append("static struct { const char * name; int (*fn)(void); } table[] = {\n" +
               "".join('  { "%s", call_%s },\n' % (n, n) for n in done) + "  { 0, 0 } };\n")
    src.append(r"""
/* race <C> <name1> .. <nameK>: C epochs; in each, K native threads leave a spin barrier and make their own
   entry point their first library call of the epoch; the caller that became worker 0 reports and finalises */
#include <pthread.h>
#define MAXK 16
static int K, C, r_idx[MAXK];
static volatile int bar_count, bar_gen, r_worker[MAXK], r_before[MAXK];
static void barrier(void) {
  int g = bar_gen;
  if (__sync_add_and_fetch(&bar_count, 1) == K) { bar_count = 0; __sync_synchronize(); bar_gen = g + 1; }
  else while (bar_gen == g) ;
}
static void * racer(void * arg) {
  long me = (long)arg; int c;
  for (c = 0; c < C; c++) {
    barrier();
    r_before[me] = table[r_idx[me]].fn();
    r_worker[me] = myth_is_myth_worker();
    barrier();
    {
      int i, winners = 0, first = -1;
      for (i = 0; i < K; i++) if (r_worker[i]) { winners++; if (first < 0) first = i; }
      if (winners != 1) {
        if (me == 0) { printf("race %d winners=%d nw=-1 tasks=%d\n", c, winners, count_tasks_once()); fflush(stdout); _exit(3); }
        for (;;) pause();
      }
      if (first == me) {
        int nw = myth_get_num_workers();
        printf("race %d winner=%s winners=%d nw=%d tasks=%d state=%d\n", c, table[r_idx[me]].name, winners, nw,
               count_tasks_expect(K + nw - 1), g_myth_init_state);
        fflush(stdout);
        myth_fini();
      }
    }
    barrier();
  }
  return NULL;
}
static int do_race(int argc, char ** argv) {
  pthread_t th[MAXK]; long i; int j;
  C = atoi(argv[2]); K = argc - 3; if (K > MAXK) K = MAXK;
  for (i = 0; i < K; i++) {
    for (j = 0; table[j].name; j++) if (strcmp(table[j].name, argv[3 + i]) == 0) break;
    if (!table[j].name) return 2;
    r_idx[i] = j;
  }
  for (i = 1; i < K; i++) pthread_create(&th[i], NULL, racer, (void *)i);
  racer((void *)0);
  for (i = 1; i < K; i++) pthread_join(th[i], NULL);
  printf("race-done state=%d tasks=%d\n", g_myth_init_state, count_tasks_expect(1));
  return 0;
}

int main(int argc, char ** argv) {
  int i, before, nw;
  if (argc < 2) return 2;
  if (strcmp(argv[1], "race") == 0 && argc >= 4) return do_race(argc, argv);
  for (i = 0; table[i].name; i++) if (strcmp(table[i].name, argv[1]) == 0) break;
  if (!table[i].name) return 2;
  before = table[i].fn();
  printf("called %s before=%d after=%d\n", argv[1], before, g_myth_init_state);
  fflush(stdout);
  nw = myth_get_num_workers();
  printf("then nw=%d tasks=%d me=%d state=%d\n", nw, count_tasks_expect(nw), myth_get_worker_num(), g_myth_init_state);
  fflush(stdout);
  myth_fini();
  printf("fini state=%d tasks=%d\n", g_myth_init_state, count_tasks_expect(1));
  return 0;
}
""")
    return "".join(src), skipped, done
