"""C14 - myth_once runs the initialiser exactly once and everyone waits for it
(DESIGN.md section 4 C14, Appendix A.5).

Proof side : coq/Once/OnceModel.v, OnceProofs.v, Properties_C14.v.
Tie        : generated programs (1..6 concurrent callers, several once controls, init scripts that are
             empty / yield / lock a contended mutex / create and join a thread / call once on another
             control, later calls after completion) run on the REAL library under the schedule controller
             (harness/lib_interp.c, 1..4 workers); every trace is (1) projected per once control and replayed
             through the extracted model (ocaml/driver_C14.ml), (2) judged by an independent oracle of the
             property (exactly one once.init.begin/end pair per control, every caller returns after
             once.init.end with state=2, later calls neither yield nor CAS, counters/flags, verdict DONE)."""
import os, json, re
import vlib, trace
from props import c08c14_steps as steps

VF = ["Once/OnceModel.v", "Once/OnceProofs.v", "Once/OnceMachine.v", "Once/OnceMachineProofs.v"]
POINTS = ["once.read", "once.cas", "once.done", "once.wait.read"]


def private_interp(ctx):
    """build harness/lib_interp.c against vlib.REPO and keep a private copy: the shared cache build/li is
    pruned by concurrent checks of other properties"""
    import shutil
    last = None
    for _ in range(4):
        exe = trace.build_interp()
        mine = os.path.join(ctx.dir, "interp", os.path.basename(exe))
        try:
            os.makedirs(os.path.dirname(mine), exist_ok=True)
            if not os.path.exists(mine):
                shutil.copy2(exe, mine + ".tmp%d" % os.getpid())
                os.rename(mine + ".tmp%d" % os.getpid(), mine)
            os.utime(mine, None)
            d = os.path.dirname(mine)
            olds = sorted((os.path.getmtime(os.path.join(d, f)), f) for f in os.listdir(d))
            for _, f in olds[:-3]:                      # keep the three most recent (concurrent runs of this check)
                try:
                    os.remove(os.path.join(d, f))
                except OSError:
                    pass
            return mine
        except (OSError, IOError) as e:
            last = e
    raise vlib.BuildError("lib_interp disappeared while copying: %s" % last)


def build(ctx):
    exe = private_interp(ctx)
    drv = vlib.build_driver("C14", "Extract_C14.v", "driver_C14.ml", VF)
    return exe, drv


def safe_run_case(exe, text, wd, name):
    """trace.run_case, tolerating a trace cut in mid-line by a crash of the library under test"""
    try:
        res = trace.run_case(exe, text, wd, name, timeout=60)
    except (IndexError, ValueError):
        tp = os.path.join(wd, name + ".trace")
        txt = open(tp, errors="replace").read() if os.path.exists(tp) else ""
        good = []
        for l in txt.split("\n"):
            try:
                trace.parse_trace(l)
                good.append(l)
            except (IndexError, ValueError):
                break
        evs, verdict = trace.parse_trace("\n".join(good))
        res = {"rc": -1, "out": "trace truncated (crash)", "events": evs, "verdict": None, "trace_path": tp,
               "case_path": os.path.join(wd, name + ".case"), "trace_text": "\n".join(good)}
    res["stderr"] = res["out"]
    # a crash of the library under test can cut the last line short: keep well-formed events only
    need = {"C": 1, "R": 2, "P": 3, "S": 1, "E": 1}
    res["events"] = [e for e in res["events"] if len(e.words) >= need.get(e.kind, 1)]
    return res


# --------------------------------------------------------------------------------------------------
# projection of a trace onto Abs(once control), one block per control
# --------------------------------------------------------------------------------------------------

def _state(snap_or_words):
    m = re.search(r"state=(-?\d+)", snap_or_words)
    return m.group(1) if m else "-"


def once_block(o, nthreads, events):
    lines, src = ["begin %d" % nthreads], [None]
    stack = {}          # thread -> list of open calls (word lists)
    in_init = {}        # thread -> depth of the call stack at which the init routine of o began
    for e in events:
        T = e.actor
        if e.kind == "C":
            st = stack.setdefault(T, [])
            if T in in_init:
                lines.append("istep %d" % T)
                src.append(e)
            elif e.words[0] == "once" and e.words[1] == o:
                lines.append("call %d" % T)
                src.append(e)
            st.append(e.words)
        elif e.kind == "R":
            st = stack.get(T)
            w = st.pop() if st else [""]
            if w[0] == "once" and w[1] == o and T not in in_init:
                lines.append("ret %d %s %s" % (T, e.words[1], _state(" ".join(e.words))))
                src.append(e)
        elif e.kind == "E" and e.words[0] in ("once.init.begin", "once.init.end"):
            st = stack.get(T) or []
            inner = [w for w in st if w[0] == "once"]
            if not inner or inner[-1][1] != o:
                continue
            if e.words[0] == "once.init.begin":
                lines.append("ibegin %d" % T)
                src.append(e)
                in_init[T] = len(st)
            elif in_init.get(T) == len(st):
                del in_init[T]
                lines.append("iend %d" % T)
                src.append(e)
            else:
                lines.append("iend %d" % T)      # an end without a matching begin: the model will refuse it
                src.append(e)
        elif e.kind == "P" and e.words[1] == o:
            a = T if T is not None else 9999
            lines.append("tick %d %s %s %s" % (a, e.ctx, e.words[0], _state(e.snap)))
            src.append(e)
    lines.append("end")
    src.append(None)
    return lines, src


# --------------------------------------------------------------------------------------------------
# the independent oracle of the property (no model involved)
# --------------------------------------------------------------------------------------------------

def oracle(case, res):
    objs, threads, scripts, _ = trace.parse_case(case)
    expect = {}
    for line in case.split("\n"):
        w = line.split()
        if len(w) == 5 and w[0] == "#" and w[1] == "expect":
            expect[(int(w[2]), int(w[3]))] = int(w[4])
    onces = [n for n, (k, _) in objs.items() if k == "once"]
    stats = {"calls": 0, "later_calls": 0, "waited_calls": 0, "inits": 0, "init_susp_polled": 0, "polls_during_init": 0}
    susp = {}        # control -> the initialiser has yielded / blocked / created / joined inside its routine
    counted = set()
    begun = {o: [] for o in onces}       # threads that began the init routine
    ended = {o: [] for o in onces}
    done = {o: False for o in onces}     # the completing store has been executed
    ncalls = {o: 0 for o in onces}
    stack, topidx = {}, {}
    open_once = {}                       # (o, T) -> {"later": bool, "yields": n, "cas": n}
    weak = None
    seen2 = set()
    for e in res["events"]:
        T = e.actor
        if e.kind == "C" and e.words[0] in ("create", "join"):
            for o in begun:
                if begun[o] == [T] and ended[o] == []:
                    susp[o] = True
        if e.kind == "P" and e.words[0] == "blockq.enq" and e.ctx == "c":
            for o in begun:
                if begun[o] == [T] and ended[o] == []:
                    susp[o] = True
        if e.kind == "C":
            st = stack.setdefault(T, [])
            if not st:
                topidx[T] = topidx.get(T, -1) + 1
            st.append((e.words, topidx.get(T, 0), len(st)))
            if e.words[0] == "once" and e.words[1] in begun:
                o = e.words[1]
                ncalls[o] += 1
                stats["calls"] += 1
                open_once[(o, T)] = {"later": done[o], "yields": 0, "cas": 0}
        elif e.kind == "R":
            st = stack.get(T) or []
            if not st:
                continue
            w, idx, depth = st.pop()
            if w[0] == "once" and w[1] in begun:
                o = w[1]
                c = open_once.pop((o, T), None)
                if len(begun[o]) != 1 or len(ended[o]) != 1:
                    return ("t%d returned from once %s when its init routine had begun %d and completed %d time(s) "
                            "(no caller may return before the single execution has completed)"
                            % (T, o, len(begun[o]), len(ended[o]))), stats
                if e.words[1] != "0":
                    return "once %s returned %s to t%d" % (o, e.words[1], T), stats
                if _state(" ".join(e.words)) != "2":
                    return "t%d returned from once %s and reads state=%s (expected 2, completed)" % (
                        T, o, _state(" ".join(e.words))), stats
                if c and c["later"]:
                    stats["later_calls"] += 1
                    if c["yields"] or c["cas"]:
                        return ("a call of once %s by t%d issued after completion did not return immediately "
                                "(%d yields, %d CAS attempts)" % (o, T, c["yields"], c["cas"])), stats
                elif c and c["yields"]:
                    stats["waited_calls"] += 1
            if depth == 0 and (T, idx) in expect and int(e.words[1]) != expect[(T, idx)]:
                return "t%d op %d (%s) returned %s, expected %d (execution counter / completed flag)" % (
                    T, idx, " ".join(w), e.words[1], expect[(T, idx)]), stats
        elif e.kind == "E":
            if e.words[0] in ("once.init.begin", "once.init.end"):
                inner = [w for (w, _, _) in (stack.get(T) or []) if w[0] == "once"]
                if not inner:
                    return "init routine runs outside a once call (%s)" % e.raw, stats
                o = inner[-1][1]
                if e.words[0] == "once.init.begin":
                    begun[o].append(T)
                    stats["inits"] += 1
                    if len(begun[o]) > 1:
                        return "the init routine of %s is executed a second time (by t%d; first by t%d)" % (
                            o, T, begun[o][0]), stats
                    if done[o] and not weak:
                        weak = "the init routine of %s starts after the control was marked completed" % o
                else:
                    ended[o].append(T)
                    if begun[o] != [T]:
                        return "init routine of %s ended by t%d but begun by %s" % (o, T, begun[o]), stats
            elif e.words[0] == "yield.enter":
                for o in begun:
                    if begun[o] == [T] and ended[o] == []:
                        susp[o] = True
                for (o, W), c in open_once.items():
                    # yields of the init script itself do not count
                    if W == T and not (begun[o] == [T] and ended[o] == []):
                        c["yields"] += 1
        elif e.kind == "P" and e.words[1] in begun:
            o = e.words[1]
            stv = _state(e.snap)
            if stv == "2":
                seen2.add(o)
            elif o in seen2:
                return ("the control %s does not stay completed: state=%s after it had been 2 (%s); every later "
                        "call is stuck" % (o, stv, e.raw)), stats
            if e.words[0] == "once.wait.read" and len(begun[o]) == 1 and not ended[o] and begun[o] != [T]:
                stats["polls_during_init"] += 1
                if susp.get(o) and o not in counted:
                    counted.add(o)
                    stats["init_susp_polled"] += 1
            if e.words[0] == "once.cas":
                c = open_once.get((o, T))
                if c:
                    c["cas"] += 1
            elif e.words[0] == "once.done":
                if len(ended[o]) != 1 and not weak:
                    # reported only if no caller is seen returning early later in this run
                    weak = "%s is marked completed before its init routine has completed (%s)" % (o, e.raw)
                done[o] = True
    if weak:
        return weak, stats
    if res["verdict"] is None:
        return "run produced no verdict (the library crashed?) rc=%s: %s" % (res["rc"], res.get("stderr", "")[-200:]), stats
    if not res["verdict"].startswith("DONE"):
        for o in onces:
            if len(begun[o]) == 1 and not ended[o]:
                return ("verdict %s: the init routine of %s (begun by t%d) never completes - it %s and never gets a worker "
                        "again while the waiters keep polling (%d polls): the waiters' yields do not give way to it"
                        % (res["verdict"], o, begun[o][0], "was suspended" if susp.get(o) else "stopped",
                           stats["polls_during_init"])), stats
        return "verdict %s (a caller never returned)" % res["verdict"], stats
    for o in onces:
        if ncalls[o] and (len(begun[o]) != 1 or len(ended[o]) != 1):
            return "%s: called %d times, init routine begun %d and completed %d time(s)" % (
                o, ncalls[o], len(begun[o]), len(ended[o])), stats
    if open_once:
        return "once calls still open at the end: %s" % list(open_once), stats
    missing = [k for k in expect if k[0] not in topidx or topidx[k[0]] < k[1]]
    if missing:
        return "operations with expected values never executed: %s" % missing[:4], stats
    return None, stats


# --------------------------------------------------------------------------------------------------
# program generator
# --------------------------------------------------------------------------------------------------

SCRIPT_KINDS = ["empty", "yield", "mutex", "createjoin", "nested", "mixed"]


def gen_program(r, workers, ncallers=None, kinds=None):
    nctl = r.rng(1, 3)
    ncallers = ncallers or r.rng(1, 6)
    objs = ["m0 mutex"]
    threads = {0: []}
    scripts = []
    expect = []
    extra_threads = []
    nxt = ncallers + 1
    sk = []
    for k in range(nctl):
        kind = r.choice(kinds or SCRIPT_KINDS)
        if kind == "nested" and k == nctl - 1:
            kind = "yield"
        sk.append(kind)
        objs += ["o%d once %d" % (k, k), "cnt%d var 0" % k, "flag%d var 0" % k]
        s = []
        if kind == "empty":
            # the empty routine touches nothing: counter and flag start at their final values
            s = []
            objs[-2] = "cnt%d var 1" % k
            objs[-1] = "flag%d var 1" % k
        elif kind == "yield":
            s = ["yield"] * r.rng(1, 3) + ["add cnt%d 1" % k] + ["yield"] * r.below(2)
        elif kind == "mutex":
            s = ["lock m0", "add cnt%d 1" % k] + ["yield"] * r.rng(0, 2) + ["unlock m0"]
        elif kind == "createjoin":
            t = nxt
            nxt += 1
            threads[t] = ["yield"] * r.below(2) + ["add cnt%d 1" % k]
            s = ["create %d%s" % (t, " pf" if r.chance(1, 2) else ""), "join %d" % t]
        elif kind == "nested":
            s = ["add cnt%d 1" % k, "once o%d" % (k + 1), "yield"]
        else:
            t = nxt
            nxt += 1
            threads[t] = ["lock m0", "yield", "unlock m0"]
            s = ["yield", "lock m0", "add cnt%d 1" % k, "unlock m0", "create %d" % t, "yield", "join %d" % t]
        if kind != "empty":
            s.append("set flag%d 1" % k)
        scripts.append(s)

    def use(t, k):
        threads[t].append("once o%d" % k)
        threads[t].append("get flag%d" % k)
        expect.append((t, len(threads[t]) - 1, 1))
        if r.chance(1, 2):
            threads[t].append("get cnt%d" % k)
            expect.append((t, len(threads[t]) - 1, 1))

    for t in range(1, ncallers + 1):
        threads[t] = []
        for _ in range(r.below(3)):
            threads[t].append("yield")
        if r.chance(1, 4):
            threads[t] += ["lock m0"] + ["yield"] * r.below(2) + ["unlock m0"]
        for k in (list(range(nctl)) if r.chance(1, 2) else [r.below(nctl)]):
            use(t, k)
            if r.chance(1, 4):
                threads[t].append("yield")
        if r.chance(1, 3):
            use(t, r.below(nctl))            # a later call by the same thread
    order = list(range(1, ncallers + 1))
    r.shuffle(order)
    main_calls = r.chance(1, 3)
    pos = r.below(len(order) + 1)
    for i, t in enumerate(order):
        if main_calls and i == pos:
            use(0, r.below(nctl))
        threads[0].append("create %d%s" % (t, " pf" if r.chance(1, 2) else ""))
    if r.chance(1, 3):
        threads[0] += ["lock m0", "yield", "unlock m0"]
    for t in order:
        threads[0].append("join %d" % t)
    for k in range(nctl):
        use(0, k)                            # later calls, certainly after completion
    return {"objs": objs, "threads": threads, "scripts": scripts, "expect": expect, "kinds": sk, "ncallers": ncallers}


def text_of(p, workers, seed, pswitch):
    c = trace.case_text(workers, seed, p["objs"], p["threads"], scripts=p["scripts"], pswitch=pswitch, maxsteps=20000)
    return c + "".join("# expect %d %d %d\n" % e for e in p["expect"])


HOLD_KS = [5, 20, 60]


def sweep_cases(r, reps=1):
    """targeted preemption (lib_interp `hold <point> <moves> <percent>`): for every POINT id of the once
    routines a participant arriving there is, with probability 1/2, held back until k real moves of the others
    have happened - long enough for another caller to run the WHOLE once (CAS, short routine, once.done) between
    e.g. somebody's once.read and once.cas.  Short (empty) init routines as well as long ones."""
    cases = []
    for _ in range(reps):
        for pid in POINTS:
            for k in HOLD_KS:
                for short in (True, False):
                    w = r.rng(2, 4)
                    p = gen_program(r, w, ncallers=r.rng(2, 6), kinds=["empty"] if short else None)
                    for _s in range(2):
                        txt = text_of(p, w, r.rng(1, 1 << 30), r.choice([10, 30, 50, 70])) + "hold %s %d 50\n" % (pid, k)
                        cases.append({"family": "hold:%s/%s" % (pid, "short" if short else "long"), "workers": w,
                                      "ncallers": p["ncallers"], "text": txt})
    return cases


def oneworker_cases(r, n):
    """ONE worker, exactly 2 or 3 waiters and an initialiser whose routine yields / blocks / creates and joins
    (the situation of theorem C14_one_worker_terminates), plus 0..2 short threads that are no callers and finish or
    yield in between: the waiters' polls go round-robin through the run queue and must reach the initialiser.
    One worker is deterministic, so one run per program; verdict DONE is required (LIMIT = the round-robin starves
    the initialiser)."""
    cases = []
    for i in range(n):
        nwait = 2 + (i % 2)
        kind = ["yield", "yield", "block", "createjoin"][(i // 2) % 4]
        nextra = [1, 0, 2, 1, 0][i % 5] if i >= 4 else [1, 1, 0, 2][i]
        objs = ["m0 mutex", "o0 once 0", "cnt0 var 0", "flag0 var 0"]
        threads, expect = {0: []}, []
        callers = list(range(1, nwait + 1))             # waiters (the initialiser is whoever calls first)
        init_is_main = (i % 3 != 2)
        ini = 0 if init_is_main else nwait + 1
        extras = list(range(nwait + 2, nwait + 2 + nextra))
        helper = nwait + 2 + nextra if kind == "block" else None
        cj = nwait + 3 + nextra
        if kind == "yield":
            script = ["yield"] * (1 + i % 3) + ["add cnt0 1"] + ["yield"] * (i % 2)
        elif kind == "block":
            script = ["lock m0", "add cnt0 1", "unlock m0", "yield"]
        else:
            script = ["create %d pf" % cj, "join %d" % cj]
            threads[cj] = ["yield", "add cnt0 1"]
        script.append("set flag0 1")

        def body(t):
            threads[t] = ["once o0", "get flag0"]
            expect.append((t, 1, 1))
        for t in callers:
            body(t)
        if not init_is_main:
            body(ini)
        for j, t in enumerate(extras):
            threads[t] = [["nop"], ["yield"], ["nop", "nop"]][(i + j) % 3]
        if helper is not None:
            threads[helper] = ["lock m0", "yield", "yield", "unlock m0"]
        # creation order: everything is created parent-first by main (so that main keeps the worker), the
        # extras on top or in between; then main calls (if it is the initialiser) or joins
        order = ([helper] if helper is not None else []) + ([ini] if not init_is_main else []) + callers
        for j, t in enumerate(extras):
            pos = [len(order), 0, len(order) // 2][(i + j) % 3]
            order.insert(pos, t)
        if i % 4 == 3:
            order.reverse()
        cf_first = (not init_is_main) and i % 5 == 4
        for j, t in enumerate(order):
            threads[0].append("create %d%s" % (t, "" if (cf_first and t == ini) else " pf"))
        if init_is_main:
            threads[0] += ["once o0", "get flag0"]
            expect.append((0, len(threads[0]) - 1, 1))
        for t in order:
            threads[0].append("join %d" % t)
        threads[0] += ["once o0", "get cnt0"]
        expect.append((0, len(threads[0]) - 1, 1))
        p = {"objs": objs, "threads": threads, "scripts": [script], "expect": expect, "kinds": [kind], "ncallers": nwait + 1}
        cases.append({"family": "oneworker:%s/%dw/%dx" % (kind, nwait, nextra), "workers": 1, "ncallers": nwait + 1,
                      "text": text_of(p, 1, 1 + i, 30)})
    return cases


def gen_cases(ctx, n):
    r = ctx.rng
    cases = oneworker_cases(r, 40 if n < 1000 else 200) + sweep_cases(r, 1 if n < 1000 else 12)
    for i in range(n):
        workers = [1, 2, 2, 3, 4][i % 5]
        p = gen_program(r, workers)
        for _ in range(2):
            cases.append({"family": "+".join(sorted(set(p["kinds"]))), "workers": workers, "ncallers": p["ncallers"],
                          "text": text_of(p, workers, r.rng(1, 1 << 30), r.choice([10, 30, 50, 70, 90]))})
    return cases


def run_until_failure(ctx, exe, drv, cases, chunk=25):
    """run_cases in chunks; stop after the first chunk in which the property oracle fails (a broken library
    can make every further run slow)"""
    out = []
    for i in range(0, len(cases), chunk):
        out += run_cases(ctx, exe, drv, cases[i:i + chunk], tag="c%02d_" % (i // chunk))
        if any(o["oracle"] for o in out):
            break
    return out


# --------------------------------------------------------------------------------------------------
# first use: myth_once is the FIRST library call of the process (harness/c14_first.c, no controller)
# --------------------------------------------------------------------------------------------------

def build_first(ctx):
    lib = vlib.build_lib()
    key = vlib.sha(vlib.file_sha(lib), vlib.file_sha(os.path.join(vlib.VERIF, "harness", "c14_first.c")))[:12]
    exe = os.path.join(ctx.dir, "first", "c14_first-" + key)
    if not os.path.exists(exe):
        vlib.cc(exe + ".tmp%d" % os.getpid(), [os.path.join(vlib.VERIF, "harness", "c14_first.c")],
                flags=vlib.lib_cflags() + ["-O1", "-g"], libs=[lib, "-lpthread", "-ldl", "-lrt"])
        os.rename(exe + ".tmp%d" % os.getpid(), exe)
    return exe


def first_cases(r, n):
    cases = []
    for i in range(n):
        w = 1 + i % 4
        if i < 4:       # the plain shape first: helpers that call the same control, routine yields
            a = {"H": 2 + i, "Y": 1 + i % 3, "B": 0, "J": 0, "N": 0, "X": 0, "P": i % 2, "L": 1, "Z": 0, "z": 1}
        else:
            nb = r.below(4)
            a = {"H": r.below(7), "Y": r.below(6), "B": nb, "J": 1 if nb and r.chance(1, 2) else 0, "N": r.below(2),
                 "X": r.below(2), "P": r.below(2), "L": r.rng(0, 2), "Z": 1 if r.chance(1, 4) else 0, "z": r.below(4)}
        cases.append({"workers": w, "args": ["%s=%d" % kv for kv in a.items()]})
    return cases


def first_oracle(c, rc, out):
    """exactly one execution per control that was called, no overlap, no caller returned before completion"""
    m = re.search(r"^first (.*)$", out, re.M)
    if rc != 0 or not m:
        return "process ended with rc=%s and no result line (hang / crash): %s" % (rc, out[-200:])
    v = dict(kv.split("=") for kv in m.group(1).split())
    v = {k: int(x) for k, x in v.items()}
    if v["before"] != 0:
        return "harness error: the runtime was already started before the first call (state %d)" % v["before"]
    for X in "AB":
        if v["calls" + X] and v["runs" + X] != 1:
            return "the init routine of control %s was executed %d times (%d calls of myth_once)" % (X, v["runs" + X], v["calls" + X])
        if v["overlap" + X]:
            return "two executions of the init routine of control %s overlapped (%d times)" % (X, v["overlap" + X])
        if v["early" + X]:
            return "%d caller(s) of myth_once on control %s returned before its init routine had completed" % (v["early" + X], X)
        if v["calls" + X] and v["state" + X] != 2:
            return "control %s ends in state %d" % (X, v["state" + X])
    if v["nonzero"]:
        return "%d call(s) returned a non-zero value" % v["nonzero"]
    return None


def run_first(ctx, exe, cases):
    res = []
    for c in cases:
        rc, out = vlib.sh([exe] + c["args"], env=dict(os.environ, MYTH_NUM_WORKERS=str(c["workers"])), timeout=30)
        res.append({"case": c, "rc": rc, "out": out.strip()[-400:], "oracle": first_oracle(c, rc, out)})
    return res


def load_corpus():
    d = os.path.join(vlib.VERIF, "corpus", "C14")
    cs = []
    if os.path.isdir(d):
        for f in sorted(os.listdir(d)):
            if f.endswith(".case"):
                txt = open(os.path.join(d, f)).read()
                w = re.search(r"^workers (\d+)", txt, re.M)
                cs.append({"family": "corpus:" + f, "workers": int(w.group(1)) if w else 0, "ncallers": 0, "text": txt})
    return cs


# --------------------------------------------------------------------------------------------------

def run_cases(ctx, exe, drv, cases, tag="c"):
    wd = os.path.join(ctx.dir, "runs")
    out, blocks, owner = [], [], []
    for i, c in enumerate(cases):
        res = safe_run_case(exe, c["text"], wd, "%s%04d" % (tag, i))
        objs, threads, _, _ = trace.parse_case(c["text"])
        nt = max(threads) + 1
        bl = [once_block(o, nt, res["events"]) for o, (k, _) in objs.items() if k == "once"]
        msg, stats = oracle(c["text"], res)
        out.append({"case": c, "res": res, "oracle": msg, "stats": stats, "model": [], "fail": []})
        for b in bl:
            blocks.append(b)
            owner.append(i)
    verd = trace.validate_blocks(drv, blocks) if blocks else []
    for b, v, i in zip(blocks, verd, owner):
        out[i]["model"].append(v)
        if v.startswith("FAIL"):
            k = int(v.split()[1])
            out[i]["fail"].append({"verdict": v, "model_input_tail": b[0][max(0, k - 8):k + 1],
                                   "trace_line": b[1][k].raw if k < len(b[1]) and b[1][k] is not None else None})
    return out


def search_oracle_failure(ctx, exe, drv, case, tries):
    r = ctx.rng
    alts = []
    for k in range(tries // 2):
        t = re.sub(r"^seed \d+", "seed %d" % r.rng(1, 1 << 30), case["text"], flags=re.M)
        t = re.sub(r"^pswitch \d+", "pswitch %d" % r.choice([30, 50, 60, 70, 80, 90]), t, flags=re.M)
        t = re.sub(r"^workers \d+", "workers %d" % r.rng(2, 4), t, flags=re.M)
        alts.append(dict(case, text=t))
    while len(alts) < tries:
        w = r.rng(2, 4)
        p = gen_program(r, w, ncallers=r.rng(3, 6))
        alts.append({"family": "search", "workers": w, "ncallers": p["ncallers"],
                     "text": text_of(p, w, r.rng(1, 1 << 30), r.choice([50, 70, 90]))})
    for o in run_until_failure(ctx, exe, drv, alts):
        if o["oracle"]:
            return o
    return None


def summarize(results):
    hist, spins, dist, verd = {}, 0, {}, {}
    st = {"calls": 0, "later_calls": 0, "waited_calls": 0, "inits": 0, "init_susp_polled": 0, "polls_during_init": 0,
          "oneworker_done": 0, "oneworker_susp_polled": 0}
    callers = {}
    for o in results:
        for e in o["res"]["events"]:
            if e.kind == "P" and e.words[0].startswith("once."):
                hist[e.words[0]] = hist.get(e.words[0], 0) + 1
            if e.kind == "S" and e.words[0] == "once.wait.spin":
                spins += 1
        k = "%s/w%d" % (o["case"]["family"].split(":")[0], o["case"]["workers"])
        dist[k] = dist.get(k, 0) + 1
        callers[o["case"]["ncallers"]] = callers.get(o["case"]["ncallers"], 0) + 1
        v = (o["res"]["verdict"] or "none").split()[0]
        verd[v] = verd.get(v, 0) + 1
        for x in st:
            st[x] += o["stats"].get(x, 0)
        if o["case"]["family"].startswith("oneworker") and v == "DONE":
            st["oneworker_done"] += 1
            st["oneworker_susp_polled"] += o["stats"].get("init_susp_polled", 0)
    return hist, spins, dist, verd, st, callers


def run(ctx):
    broken, log = ctx.prove("Properties_C14.v", "Properties_C14")
    exe, drv = build(ctx)
    n = 90 if not ctx.thorough else 2500
    cases = load_corpus() + gen_cases(ctx, n)
    fexe = build_first(ctx)
    fres = run_first(ctx, fexe, first_cases(ctx.rng, 32 if not ctx.thorough else 400))
    fu_bad = [x for x in fres if x["oracle"]]
    ctx.cov["first_use"] = {"processes": len(fres), "oracle_failures": len(fu_bad),
                            "workers": sorted(set(x["case"]["workers"] for x in fres)),
                            "with_helpers_on_the_same_control": sum(1 for x in fres if "H=0" not in x["case"]["args"]),
                            "with_helpers_on_another_control_joined_inside": sum(1 for x in fres if "J=1" in x["case"]["args"]),
                            "sample": fres[0]["out"] if fres else None}
    struct_bad = steps.check(steps.ONCE_TABLE)
    ctx.cov["step_table"] = {"functions": sorted(steps.ONCE_TABLE), "unit": "src/" + steps.UNIT, "mismatches": struct_bad}
    results = run_until_failure(ctx, exe, drv, cases)
    hist, spins, dist, verd, st, callers = summarize(results)
    bad_oracle = [o for o in results if o["oracle"]]
    bad_model = [o for o in results if o["fail"]]
    ctx.cov["correspondence"] = {
        "cases": len(results), "cases_generated": len(cases), "model_blocks_replayed": sum(len(o["model"]) for o in results),
        "model_events_replayed": sum(int(v.split()[1]) for o in results for v in o["model"] if v.startswith("ok")),
        "disagreements": len(bad_model), "oracle_failures": len(bad_oracle),
        "input_distribution": dist, "concurrent_callers_distribution": callers, "verdicts": verd,
        "point_histogram": hist, "once.wait.spin": spins, "once_calls": st["calls"],
        "calls_after_completion": st["later_calls"], "calls_that_waited": st["waited_calls"],
        "init_routine_executions": st["inits"],
        "controls_whose_init_was_suspended_while_a_waiter_polled": st["init_susp_polled"],
        "polls_while_init_in_progress": st["polls_during_init"],
        "one_worker_programs_DONE": st["oneworker_done"],
        "one_worker_controls_init_suspended_while_polled": st["oneworker_susp_polled"]}
    for i in (0, len(results) // 2, len(results) - 1):
        o = results[i]
        ctx.cov["samples"].append({"case": o["case"]["text"], "verdict": o["res"]["verdict"], "model": o["model"],
                                   "oracle": o["oracle"] or "holds"})
    ctx.cov["trusted_base"] += [
        "extraction: ExtrOcamlBasic only; ocaml/driver_C14.ml, ocaml/zio.ml",
        "harness/lib_interp.c (schedule controller, interpreter, once.init.begin/end events around the init script); "
        "tools/trace.py (run_case, parse_trace); the projection once_block in tools/props/c14.py",
        "MYTH_VERIF_POINT placement in myth_once_body / myth_once_wait_until (one POINT immediately before each access to state)",
        "harness/c14_first.c (first-use processes, public API, free-running workers; counters kept by the harness)",
        "modelled, not verified: the init routine (opaque steps), myth_yield inside the wait loop (C01); "
        "pthread_once wrapper (C16) calls the same body"]
    if bad_oracle:
        o = bad_oracle[0]
        ctx.violation("oracle", o["oracle"], {"case": o["case"]["text"], "observed": o["oracle"],
                                              "expected": "one init execution per control; every caller returns after it completed, reading state=2; verdict DONE",
                                              "verdict": o["res"]["verdict"], "model": o["model"], "level": "library",
                                              "trace_tail": o["res"]["trace_text"].split("\n")[-25:]}, found=True)
    elif bad_model:
        o = bad_model[0]
        hit = search_oracle_failure(ctx, exe, drv, o["case"], 300 if not ctx.thorough else 3000)
        if hit:
            ctx.violation("oracle", hit["oracle"], {"case": hit["case"]["text"], "observed": hit["oracle"],
                                                    "expected": "one init execution per control; every caller returns after it completed",
                                                    "verdict": hit["res"]["verdict"], "model": hit["model"],
                                                    "first_disagreement": o["fail"][0], "level": "library",
                                                    "trace_tail": hit["res"]["trace_text"].split("\n")[-25:]}, found=True)
        else:
            ctx.violation("correspondence", "model and library disagree on %d run(s); first: %s" % (len(bad_model), o["fail"][0]["verdict"]),
                          {"theorem_or_correspondence": "correspondence Once/OnceModel.v <-> myth_once_body / myth_once_wait_until",
                           "case": o["case"]["text"], "observed": o["fail"][0], "expected": "every trace replays through the model"},
                          found=False)
    else:
        missing = [p for p in POINTS if not hist.get(p)]
        if missing or not spins or not st["later_calls"] or not st["waited_calls"] or not st["init_susp_polled"] \
                or not st["oneworker_susp_polled"]:
            ctx.violation("coverage", "never exercised on this run: %s%s%s%s%s%s" % (
                ", ".join(missing), " once.wait.spin" if not spins else "", " later call" if not st["later_calls"] else "",
                " waiting call" if not st["waited_calls"] else "",
                " init routine suspended (yield/block/create) while a waiter polled" if not st["init_susp_polled"] else "",
                " the same on one worker" if not st["oneworker_susp_polled"] else ""),
                {"theorem_or_correspondence": "coverage of the POINT ids of the once routines", "histogram": hist}, found=False)
    if fu_bad and not bad_oracle:
        x = fu_bad[0]
        ctx.violation("oracle", "first use: " + x["oracle"],
                      {"first_use": {"args": x["case"]["args"], "workers": x["case"]["workers"]},
                       "case": "MYTH_NUM_WORKERS=%d c14_first %s   (harness/c14_first.c: myth_once is the first library call of the process)"
                               % (x["case"]["workers"], " ".join(x["case"]["args"])),
                       "observed": x["out"], "expected": "runsA = 1, overlapA = 0, earlyA = 0 (same for B), rc 0",
                       "level": "library"}, found=True)
    if struct_bad and not bad_oracle and not fu_bad:
        hit = None
        if not bad_model:           # (the model-disagreement branch above has searched already)
            hit = search_oracle_failure(ctx, exe, drv, results[len(results) // 2]["case"], 300 if not ctx.thorough else 1500)
        if hit:
            ctx.violation("oracle", hit["oracle"], {"case": hit["case"]["text"], "observed": hit["oracle"],
                                                    "step_table_mismatch": struct_bad, "verdict": hit["res"]["verdict"],
                                                    "level": "library",
                                                    "trace_tail": hit["res"]["trace_text"].split("\n")[-25:]}, found=True)
        elif not [v for v in ctx.violations if v["found"]]:
            ctx.violation("step-table", "the source no longer has exactly the steps of the model: " + " | ".join(struct_bad),
                          {"theorem_or_correspondence": "source step table of myth_once_body / myth_once_wait_until / myth_once_try_set (tools/props/c08c14_steps.py) <-> model step function",
                           "observed": struct_bad,
                           "expected": "the atoms listed in c08c14_steps.ONCE_TABLE, in this order, and no other protocol-relevant statement"},
                          found=False)
    if broken:
        ctx.violation("proof", "theorem(s) no longer check: " + ", ".join(broken),
                      {"theorem_or_correspondence": ", ".join(broken), "log": getattr(ctx, "proof_log", log[-3000:])}, found=False)
    return ctx.finish(assumptions=[
        "the init routine terminates and does not call once on the same control (it may yield, block, create and join threads, "
        "call once on other controls); it is opaque to the model: any finite number of steps",
        "the control starts zero-initialised (MYTH_ONCE_INIT)"])


def replay(ctx, path):
    body = json.load(open(path))
    if "first_use" in body:
        fexe = build_first(ctx)
        c = {"workers": body["first_use"]["workers"], "args": body["first_use"]["args"]}
        x = run_first(ctx, fexe, [c])[0]
        print("case:   MYTH_NUM_WORKERS=%d c14_first %s" % (c["workers"], " ".join(c["args"])))
        print("impl:  ", x["out"], "rc=%s" % x["rc"])
        print("oracle:", x["oracle"] or "property holds on this run")
        return 0
    exe, drv = build(ctx)
    if "case" not in body:
        print("replay file holds no case (broken obligation: %s)" % body.get("what"))
        return 0
    c = {"family": "replay", "workers": 0, "ncallers": 0, "text": body["case"]}
    o = run_cases(ctx, exe, drv, [c], tag="r")[0]
    print("case:\n" + body["case"])
    print("impl verdict:", o["res"]["verdict"])
    print("model:       ", o["model"], o["fail"][:1])
    print("oracle:      ", o["oracle"] or "property holds on this run")
    print("trace:       ", o["res"]["trace_path"])
    return 0
