"""C13 - each thread is reaped exactly once and reaping recycles its resources (DESIGN.md section 4, C13).

Proof side: coq/Sched/DescModel.v (+ DescInv/DescPres1-4/DescProofs), statements in Properties_C13.v.
Tie: programs that exercise every reaper (join / tryjoin loops / timedjoin loops / detach / detached
attribute) in every order relative to the target's finish, on 1..4 workers; every trace is replayed
through the extracted model (shared with C01) and judged by an independent oracle on the trace:
ledger from the alloc.desc / free.desc / alloc.stack / free.stack events, tryjoin <-> locked test,
detached threads never publish FREE_READY2, and - on ONE worker, over a long create/reap history -
the records / stacks ever obtained from the system stay within the peak number simultaneously
unreleased, identifier by identifier as the sequential allocator model predicts."""
import os, json
import vlib, trace
from props import desc_common as dc
from props import c01

POINTS = ["join.check", "join.cb.set", "join.reap", "tryjoin.check", "detach.fast", "detach.check", "detach.reap",
          "detach.set", "finish.readjoin", "finish.cb.detached", "finish.cb.freedesc", "finish.cb.ready2", "free.stack",
          "create.start=0", "create.start=1"]
KINDS = ("join", "tryjoinw", "timedjoinw", "detach")


# ------------------------------------------------------------------------------------------------
# generators
# ------------------------------------------------------------------------------------------------

def gen_orders(ctx, n):
    """random spawn trees with every kind of reaper; the schedule (seed, workers, pswitch) decides whether
    the reaper comes before, during or after the target's finish"""
    r = ctx.rng
    cases = []
    for i in range(n):
        threads, meta = c01.gen_program(r, max_threads=r.choice([3, 4, 6, 9]), reap_kinds=KINDS, p_det=5, null_share=3)
        for k in range(2):
            cases.append(trace.case_text(r.choice([1, 2, 2, 3, 4]), r.rng(1, 1 << 30), [], threads,
                                         pswitch=r.choice([20, 35, 60, 85])))
    return cases


def gen_forced(ctx, n):
    """one worker: the order is forced by the creation order.  parent-first creation: the child cannot have
    run when the parent goes on (tryjoin must say EBUSY, detach must take the 'set' path, join must block);
    child-first creation of a non-blocking child: it has finished when the parent goes on (tryjoin must
    succeed, detach must take the fast path)"""
    r = ctx.rng
    cases = []
    for i in range(n):
        ops, threads, t = [], {}, 1
        for _ in range(r.rng(2, 6)):
            pf = r.chance(1, 2)
            body = r.choice([["nop"], ["yield"], ["retval %d" % r.rng(-5, 500)], ["nop", "exit %d" % r.rng(0, 99)]])
            threads[t] = body
            fl = (" pf" if pf else "") + r.choice(["", "", " nullid", " attr", " ss=65536"])
            kind = r.choice(["join", "tryjoinw", "timedjoinw", "detach", "det", "try1"])
            if kind == "det":
                ops.append("create %d%s det" % (t, " pf" if pf else ""))
            elif kind == "try1":
                ops.append("create %d%s" % (t, fl))
                ops.append("tryjoin %d" % t if pf else "nop")       # determinate: EBUSY (the child has not run)
                ops.append(r.choice(["join %d", "tryjoinw %d", "detach %d", "tryjoinw %d null", "join %d null"]) % t)
            else:
                ops.append("create %d%s" % (t, fl))
                ops.append(("%s %d" % (kind, t)) + (" %d" % r.choice([2500, 6000]) if kind == "timedjoinw" else "") +
                           (" null" if kind != "detach" and r.chance(1, 3) else ""))
            if r.chance(1, 3):
                ops.append("yield")
            t += 1
        ops += ["yield"] * (2 * t)
        threads[0] = ops
        cases.append(trace.case_text(1, r.rng(1, 1 << 30), [], threads, pswitch=r.choice([20, 60])))
    return cases


def gen_selfdetach(ctx, n):
    """a thread detaches ITSELF (myth_detach(myth_self())): nobody else reaps it; it goes on working afterwards
    (yields, a child of its own that it joins), then returns / exits; its own exit path must release its record"""
    r = ctx.rng
    cases = []
    for i in range(n):
        threads, ops, t = {}, [], 1
        for _ in range(r.rng(1, 4)):
            me = t; t += 1
            body = []
            pre = r.rng(0, 2)
            body += [r.choice(["nop", "yield", "yield 1"]) for _ in range(pre)]
            kid = None
            if r.chance(1, 2):
                kid = t; t += 1
                threads[kid] = [r.choice(["nop", "yield", "retval %d" % r.rng(0, 99)])]
            seq = ["detach %d" % me]
            if kid is not None:
                seq += ["create %d%s" % (kid, r.choice(["", " pf", " attr"])), r.choice(["join %d", "tryjoinw %d"]) % kid]
                r.shuffle(seq)
                # the join of the child must follow its creation
                ci = [k for k, x in enumerate(seq) if x.startswith("create")][0]
                ji = [k for k, x in enumerate(seq) if x.startswith(("join", "tryjoinw"))][0]
                if ji < ci:
                    seq[ci], seq[ji] = seq[ji], seq[ci]
            body += seq
            body += [r.choice(["nop", "yield"]) for _ in range(r.rng(0, 2))]
            body += r.choice([[], ["retval %d" % r.rng(0, 500)], ["exit %d" % r.rng(0, 500)]])
            # retval must come first to be the return value; it is harmless anywhere
            threads[me] = body
            ops.append("create %d%s" % (me, r.choice(["", " pf", " ss=65536", " attr nullid", " nullid"])))
            if r.chance(1, 3):
                ops.append("yield")
        ops += ["yield"] * (4 * t)
        threads[0] = ops
        cases.append(trace.case_text(r.choice([1, 1, 2, 3]), r.rng(1, 1 << 30), [], threads, pswitch=r.choice([20, 60, 85])))
    return cases


# ------------------------------------------------------------------------------------------------
# uncontrolled one-worker history (harness/c13_mem.c): the address space of the process must not grow
# ------------------------------------------------------------------------------------------------

MEM_SLACK_PAGES = 128          # 512 KiB: two of the largest stacks used


def build_mem(ctx):
    lib = vlib.build_lib()
    return vlib.cc(os.path.join(ctx.dir, "c13_mem"), [os.path.join(vlib.VERIF, "harness", "c13_mem.c")],
                   flags=vlib.lib_cflags() + ["-O1", "-g"], libs=[lib, "-lpthread", "-ldl", "-lrt"])


def run_mem_config(exe, cfg):
    rc, out = vlib.sh([exe] + [str(x) for x in cfg], timeout=400)
    line = ([l for l in out.split("\n") if l.startswith("statm")] or [out.strip()[-300:]])[0]
    kv = dict(x.split("=", 1) for x in line.split()[1:] if "=" in x) if line.startswith("statm") else {}
    msg = None
    if rc != 0 or not kv:
        msg = "the run did not complete: exit status %d: %s" % (rc, line)
    elif int(kv["growth"]) > MEM_SLACK_PAGES:
        msg = ("one worker, %s create/reap cycles over join / tryjoin loop / timedjoin / detach before and after the finish / detached attribute "
               "and four stack classes: the address space grew by %s pages after the first 10%% of the cycles (allowed slack %d): %s"
               % (kv["cycles"], kv["growth"], MEM_SLACK_PAGES, line))
    elif kv.get("finished") != kv.get("cycles"):
        msg = "only %s of %s threads ran: %s" % (kv.get("finished"), kv.get("cycles"), line)
    return msg, rc, line


def run_mem(ctx):
    exe = build_mem(ctx)
    stats, viol = [], []
    for k in range(1 if not ctx.thorough else 3):
        cfg = [100000 if not ctx.thorough else 1000000, ctx.rng.rng(1, 1 << 30)]
        msg, rc, line = run_mem_config(exe, cfg)
        stats.append({"config": cfg, "rc": rc, "result": line})
        if msg:
            again = [run_mem_config(exe, cfg) for _ in range(3)]
            viol.append((msg + " [reproduced in %d of 3 repetitions]" % sum(1 for a in again if a[0]),
                         {"mem_config": cfg, "observed": line, "exit_status": rc, "level": "library",
                          "expected": "address-space size (/proc/self/statm) after 10%% of the cycles + at most %d pages" % MEM_SLACK_PAGES}))
    return viol, stats


def gen_cycles(ctx, cycles):
    """ONE worker, a long history of creations and reaps with at most L threads alive at a time; tags of
    joined threads are reused (the harness maps a tag to its latest incarnation)"""
    r = ctx.rng
    L = r.rng(1, 5)
    pool = list(range(1, 9))
    threads = {t: [r.choice(["nop", "yield", "retval %d" % (7 * t)])] for t in pool}
    fresh = 9
    live, free = [], list(pool)
    ops, created = [], 0
    while created < cycles or live:
        can_create = created < cycles and len(live) < L
        if can_create and (not live or r.chance(3, 5)):
            created += 1
            if r.chance(1, 5) and fresh < 250:
                # detached at creation: child-first, non-blocking body: complete when the parent goes on
                t = fresh; fresh += 1
                threads[t] = ["nop"]
                ops.append("create %d det%s" % (t, r.choice(["", " nullid"])))
            elif free:
                t = free.pop(r.below(len(free)))
                ops.append("create %d%s" % (t, r.choice(["", "", " pf", " ss=40000", " ss=262144", " pf ss=40000"])))
                live.append(t)
            else:
                created -= 1
        elif live:
            t = live.pop(r.below(len(live)))
            k = r.choice(["join", "join", "tryjoinw", "timedjoinw", "detach"])
            if k == "detach" and fresh >= 250:
                k = "join"              # no fresh tag left for the replacement: keep the pool intact
            if k == "detach":
                # the tag of a detached thread is not reused (it may still have to run)
                ops.append("detach %d" % t)
                if fresh < 250:
                    nt = fresh; fresh += 1
                    threads[nt] = list(threads[t])
                    free.append(nt)
            else:
                ops.append(("%s %d" % (k, t)) + (" 3000" if k == "timedjoinw" else "") + (" null" if r.chance(1, 3) else ""))
                free.append(t)
    ops += ["yield"] * 12
    threads[0] = ops
    return trace.case_text(1, r.rng(1, 1 << 30), [], threads, pswitch=30, maxsteps=400000), L


# ------------------------------------------------------------------------------------------------
# oracle
# ------------------------------------------------------------------------------------------------

def oracle(r):
    P = r["proj"]
    if r["rc"] != 0 or not r["verdict"]:
        return ["the run did not complete: exit status %d, verdict %s, stderr: %s" % (r["rc"], r["verdict"], r["stderr"][-200:])]
    bad = []
    if not r["verdict"].startswith("DONE"):
        bad.append("verdict " + r["verdict"])
    bad += P.problems
    bad += dc.oracle_ledger(r)
    bad += dc.oracle_no_free_before_ready2(r)
    evs = r["events"]
    # every release of a record is the action of a reap POINT on that record
    lastp = {}
    for e in evs:
        if e.kind == "P":
            lastp[e.w] = e
        elif e.kind == "E" and e.words[0] == "free.desc":
            p = lastp.get(e.w)
            if p is None or p.words[0] not in ("join.reap", "detach.reap", "finish.cb.freedesc") or p.words[1] != e.words[1]:
                bad.append("record of %s released outside a reap step (last POINT of the worker: %s)" % (e.words[1], p.raw if p else None))
        elif e.kind in "CR":
            lastp.pop(e.w, None)
    # a detached thread never publishes FREE_READY2 and never has a registered joiner; a thread created
    # with the detached attribute is detached from its first snapshot on
    for e in evs:
        if e.kind == "P" and e.words[0].startswith(dc.THREAD_POINTS):
            sn = dc._snap(e.snap)
            if sn and sn[2] == "1" and (sn[0] == "3" or sn[1] != "-"):
                bad.append("detached thread with status %s / join_thread %s: %s" % (sn[0], sn[1], e.raw))
            if sn and e.words[0] == "finish.readjoin":
                t = P_index(P, e)
                if t is not None and "det" in P.flags.get(t, []) and sn[2] != "1":
                    bad.append("thread created with the detached attribute reaches its exit path with detached = 0: " + e.raw)
    # tryjoin / timedjoin: EBUSY iff the target had not finished at the (last) locked test
    for cl in P.calls:
        if cl["op"] in ("tryjoin", "timedjoin") and "ret" in cl:
            chk = [c for c in cl["checks"] if c["point"] == "tryjoin.check" and c["snap"]]
            if not chk:
                bad.append("%s returned %d without a locked test" % (cl["op"], cl["ret"]))
                continue
            fin = [int(c["snap"][0]) >= 2 for c in chk]
            if cl["ret"] not in (0, dc.EBUSY):
                bad.append("%s returned %d" % (cl["op"], cl["ret"]))
            if (cl["ret"] == 0) != fin[-1]:
                bad.append("%s of t%d returned %d but its locked test saw status %s" % (cl["op"], cl["target"], cl["ret"], chk[-1]["snap"][0]))
            if any(fin[:-1]):
                bad.append("%s of t%d went on after a locked test that saw the target finished" % (cl["op"], cl["target"]))
            if cl["ret"] == 0:
                t = cl["target"]
                if not cl.get("null") and str(P.expected_ret.get(t)) != str(cl.get("val")):
                    bad.append("%s of t%d delivered %s, the thread returned/exited with %s" % (cl["op"], t, cl.get("val"), P.expected_ret.get(t)))
                if not any(c["point"] == "join.reap" for c in cl["checks"]):
                    bad.append("%s of t%d returned 0 without reaping" % (cl["op"], t))
            elif any(c["point"] == "join.reap" for c in cl["checks"]):
                bad.append("%s of t%d reaped but returned %d" % (cl["op"], cl["target"], cl["ret"]))
        if cl["op"] == "join" and "ret" in cl:
            if cl["ret"] != 0 or (not cl.get("null") and str(P.expected_ret.get(cl["target"])) != str(cl.get("val"))):
                bad.append("join of t%d returned %s val %s (expected value %s)" % (cl["target"], cl["ret"], cl.get("val"), P.expected_ret.get(cl["target"])))
        if cl["op"] == "detach" and "ret" in cl:
            if cl["ret"] != 0:
                bad.append("detach returned %d" % cl["ret"])
            pts = [c["point"] for c in cl["checks"]]
            sets, reaps = pts.count("detach.set"), pts.count("detach.reap")
            if sets + reaps != 1:
                bad.append("detach of t%d: %d store(s) of detached and %d reap(s)" % (cl["target"], sets, reaps))
            for c in cl["checks"]:
                if c["point"] == "detach.set" and c["snap"] and int(c["snap"][0]) >= 2:
                    bad.append("detach marks a finished thread detached (nobody will release its record)")
    return bad


def P_index(P, e):
    name = e.words[1]
    if name[0] == "t" and name[1:].isdigit():
        tag = int(name[1:])
        cands = [c for c, t in P.tag.items() if t == tag]
        return max(cands) if len(cands) == 1 else None
    return None


def _alloc_replay(drv, hist):
    hist = sorted(hist, key=lambda x: x[0])
    inp = "\n".join(["abegin"] + [l for _, l in hist] + ["aend"]) + "\n"
    rc, out = vlib.sh([drv], input=inp, timeout=120)
    res = [l for l in out.split("\n") if l.startswith(("aok", "FAIL"))]
    return res[0] if res else "FAIL 0 no verdict from the allocator model (rc=%d)" % rc


def bounded_memory(r, drv):
    """ONE worker: identifiers of records / stacks obtained vs. peak simultaneously unreleased, and replay of
    the history through the sequential allocator model: once for the records (all threads), once per stack
    size class for the stacks (the threads of that class; a class has its own free list).
    Returns (messages, stats, first failing allocator verdict or 'aok')"""
    P = r["proj"]
    evs = r["events"]
    bad = []
    classes = sorted(set(P.stack_cls.values()))
    verdicts = {}
    stats = {"creations": len(P.stack_cls), "classes": {}}
    for what in ["records"] + classes:
        live, peak, ids = set(), 0, []
        order, hist = {}, []
        mine = (lambda c: True) if what == "records" else (lambda c, w=what: P.stack_cls.get(c) == w)
        for pos, kind, c, ident in P.led:
            if not mine(c):
                continue
            if kind == "alloc.desc" and what == "records":
                if ident not in ids:
                    ids.append(ident)
                live.add(c); peak = max(peak, len(live))
            elif kind == "alloc.stack":
                order[c] = len(order)
                if what == "records":
                    hist.append((pos, "acreate %d %s -" % (1 if "det" in P.flags.get(c, []) else 0, (P.desc_ids.get(c) or "d-1")[1:])))
                else:
                    if ident not in ids:
                        ids.append(ident)
                    live.add(c); peak = max(peak, len(live))
                    hist.append((pos, "acreate %d - %d" % (1 if "det" in P.flags.get(c, []) else 0, ids.index(ident))))
            elif kind == "free.stack":
                if what != "records":
                    live.discard(c)
                hist.append((pos, "afinish %d" % order.get(c, -1)))
            elif kind == "free.desc":
                if what == "records":
                    live.discard(c)
                if evs[pos].ctx != "c":        # released by a reaper (the exit path of a detached thread is part of afinish)
                    hist.append((pos, "areap %d" % order.get(c, -1)))
        for cl in P.calls:
            if cl["op"] == "detach" and mine(cl["target"]):
                for c in cl["checks"]:
                    if c["point"] == "detach.set":
                        hist.append((c["pos"], "adetach %d" % order.get(cl["target"], -1)))
        v = _alloc_replay(drv, hist)
        verdicts[what] = v
        if len(ids) > peak:
            bad.append("%d distinct %s obtained, peak simultaneously unreleased %d (one worker)" %
                       (len(ids), "records" if what == "records" else "stacks of size class %s" % what, peak))
        stats["classes"][what] = {"threads": len(order), "from_system": len(ids), "peak": peak, "allocator_model": v}
    failing = [v for v in verdicts.values() if not v.startswith("aok")]
    return bad, stats, (failing[0] if failing else "aok")


ASSUMPTIONS = c01.ASSUMPTIONS + [
    "bounded memory is proved on the sequential allocator model of one worker (free list first, LIFO, STACK_ALLOC_UNIT = 1) and compared identifier by identifier with the library's records / default-size stacks on one-worker runs; addresses and size classes themselves are C12's",
    "timedjoin's deadline arithmetic is C20's (timed lock / join never time out before the deadline)"]


def run(ctx):
    broken, log = ctx.prove("Properties_C13.v", "Properties_C13")
    exe, drv = dc.build(ctx)
    n = 45 if not ctx.thorough else 700
    cases = c01.load_corpus("C13") + gen_forced(ctx, n) + gen_orders(ctx, n) + gen_selfdetach(ctx, 20 if not ctx.thorough else 300)
    results = dc.run_cases(ctx, exe, drv, cases)
    # long histories on one worker
    cyc = []
    for k in range(2 if not ctx.thorough else 8):
        case, L = gen_cycles(ctx, 300 if not ctx.thorough else 1200)
        cyc.append(case)
    cres = dc.run_cases(ctx, exe, drv, cyc, subdir="cycles", timeout=300)
    mem_bad, mem_stats = [], []
    for r in cres:
        b, st, verdict = bounded_memory(r, drv)
        mem_stats.append(st)
        if b:
            r["_mem"] = b
        elif not verdict.startswith("aok") and r["model"].startswith("ok"):
            r["model"] = verdict + " (sequential allocator model)"
            r["fail_context"] = {"verdict": verdict}
    ctx.cov["bounded_memory"] = mem_stats
    mviol, mstats = run_mem(ctx)
    ctx.cov["address_space"] = {"runs": mstats, "slack_pages": MEM_SLACK_PAGES}
    selfd = sum(1 for r in results for cl in r["proj"].calls if cl["op"] == "detach" and cl["actor"] == cl["target"])
    ctx.cov["self_detach_calls"] = selfd

    def oracle_all(r):
        return oracle(r) + r.get("_mem", [])
    return c01.judge(ctx, "C13", results + cres, oracle_all, POINTS, broken, log, exe, drv, ASSUMPTIONS,
                     extra_trusted=["harness/lib_interp.c ops tryjoinw / timedjoinw (repeat the call until it returns 0) and the record identity d<k> on alloc.desc / free.desc lines",
                                    "harness/c13_mem.c (uncontrolled one-worker history; /proc/self/statm first field as the measure of memory obtained from the system)"],
                     extra_violations=mviol)


def replay(ctx, path):
    body = json.load(open(path))
    exe, drv = dc.build(ctx)
    if "mem_config" in body:
        msg, rc, line = run_mem_config(build_mem(ctx), body["mem_config"])
        print("uncontrolled one-worker history (cycles seed):", body["mem_config"])
        print("impl:  rc=%d %s" % (rc, line))
        print("oracle:", msg)
        return 0
    if "case" not in body:
        print("replay file holds no case (broken obligation): ", body.get("what"))
        return 0
    for r in dc.run_cases(ctx, exe, drv, [body["case"]], subdir="replay", timeout=300):
        print(r["case"][:2000])
        print("impl:   rc=%s verdict=%s" % (r["rc"], r["verdict"]))
        print("model: ", r["model"], r["fail_context"] or "")
        b = oracle(r)
        if "workers 1\n" in r["case"]:
            mb, st, v = bounded_memory(r, drv)
            b += mb
            print("memory:", st)
        print("oracle:", b)
        print("trace: ", r["trace_path"])
    return 0
