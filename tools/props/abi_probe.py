"""Public object layout must not depend on how the APPLICATION is compiled.

Every harness of this framework is compiled with the library's own flags, so the objects it declares
(myth_mutex_t, myth_cond_t, myth_felock_t, ...) have the layout the library was compiled with.  A user's
program is compiled with its own flags (-DNDEBUG, -O2, no config.h).  The models speak about "the" status
word, "the" state word of an object; that is only meaningful if both sides agree where it is.  This
obligation regenerates, from include/myth/myth.h of the CURRENT tree, the list of public object types and
compares sizeof / alignment of each under the library's flags with those under three application flag sets.
A mismatch is reported as a broken correspondence (found=False) unless the caller's own runs found more.

attach(ctx, n): used by the checks of the objects declared in the public header (C04-C09, C14)."""
import os, re, sys
sys.path.insert(0, os.path.join(os.path.dirname(os.path.abspath(__file__)), ".."))
import vlib

APP_FLAG_SETS = [["-O0"], ["-O2", "-DNDEBUG"], ["-O1", "-DNDEBUG", "-D_FORTIFY_SOURCE=2"]]


def public_types():
    txt = open(os.path.join(vlib.REPO, "include", "myth", "myth.h"), errors="replace").read()
    names = re.findall(r"^\s*\}\s*(myth_\w+_t)\s*;", txt, re.M)
    return sorted(set(names))


def probe(flags, types, tag):
    d = os.path.join(vlib.BUILD, "abi_probe")
    os.makedirs(d, exist_ok=True)
    src = os.path.join(d, "probe_%s.c" % tag)
    with open(src, "w") as f:
        f.write('#include <stdio.h>\n#include "myth/myth.h"\nint main(void) {\n' +
                "".join('  printf("%s %%zu %%zu\\n", sizeof(%s), _Alignof(%s));\n' % (t, t, t) for t in types) +
                "  return 0;\n}\n")
    exe = os.path.join(d, "probe_%s" % tag)
    rc, out = vlib.sh(["gcc"] + list(flags) + [src, "-o", exe], timeout=120)
    if rc != 0:
        return None, out[-600:]
    rc, out = vlib.sh([exe], timeout=30)
    return dict((l.split()[0], l.split()[1:]) for l in out.split("\n") if len(l.split()) == 3), ""


def check():
    types = public_types()
    inc = ["-I" + os.path.join(vlib.REPO, "include")]
    lib, err = probe(vlib.lib_cflags(), types, "lib")
    if lib is None:
        return types, ["the public header does not compile with the library's flags: " + err]
    bad = []
    for i, fl in enumerate(APP_FLAG_SETS):
        app, err = probe(inc + fl, types, "app%d" % i)
        if app is None:
            bad.append("include/myth/myth.h does not compile as an application would compile it (%s): %s" % (" ".join(fl), err))
            continue
        for t in types:
            if app.get(t) != lib.get(t):
                bad.append("%s: size/alignment %s inside the library but %s in a program compiled with `%s`" %
                           (t, "/".join(lib.get(t, ["?"])), "/".join(app.get(t, ["?"])), " ".join(fl)))
    return types, bad


def attach(ctx, n=0):
    types, bad = check()
    ctx.cov["obligations"] += 1
    if not bad:
        ctx.cov["discharged"] += 1
    ctx.cov.setdefault("correspondence", {})["public_layout"] = {"types": types, "flag_sets": [" ".join(f) for f in APP_FLAG_SETS],
                                                                   "mismatches": bad}
    ctx.cov["trusted_base"] += ["public object layout probe (tools/props/abi_probe.py): sizeof/alignment of the public object types under the "
                                "library's flags and under three application flag sets; field offsets inside equal-sized objects are not compared"]
    if bad and not any(v.get("found") for v in ctx.violations):
        ctx.violation("public-layout", "; ".join(bad)[:700],
                      {"theorem_or_correspondence": "public object layout independent of the application's compile flags "
                       "(include/myth/myth.h <-> objects as the library accesses them)", "mismatches": bad}, found=False)


if __name__ == "__main__":
    t, b = check()
    print(len(t), "types;", b or "layout independent of application flags")
