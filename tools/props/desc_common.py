"""Shared by the checks whose model is coq/Sched/DescModel.v (C01 create/run/join, C13 reaping):
run generated fork-join programs on the real library under the schedule controller
(harness/lib_interp.c), project every trace onto Abs(thread descriptor) - all events whose object
is a thread descriptor plus the create/join/tryjoin/timedjoin/detach/exit calls, ONE model instance
per run covering all threads - and replay it through the extracted model (ocaml/driver_C01.ml)."""
import os, re
import vlib, trace

VFILES = ["Sched/DescModel.v"]
THREAD_POINTS = ("join.", "tryjoin.", "detach.", "finish.")
REAP_OPS = ("join", "tryjoin", "timedjoin", "detach")
EBUSY = 16


def build(ctx):
    exe = trace.build_interp()
    drv = vlib.build_driver("C01", "Extract_C01.v", "driver_C01.ml", VFILES)
    return exe, drv


class Proj:
    """projection of one trace; also collects what the Python oracles need"""

    def __init__(self):
        self.lines, self.src = [], []
        self.nthreads = 1
        self.default_ss = None
        self.problems = []          # lines the projection could not interpret
        # oracle data, per model index (incarnation)
        self.tag = {0: 0}           # index -> program tag
        self.flags = {}             # index -> flags of the creating op
        self.expected_ret = {}      # index -> value the thread returns / exits with (from the program text)
        self.starts = {}            # index -> [create.start events]
        self.ready2 = {}            # index -> position (event number) of finish.cb.ready2
        self.fin_enter = {}         # index -> position of finish.enter
        self.fin_done = {}          # index -> position of the cb.leave that ends its finish callback
        self.desc_ids = {}          # index -> d<k>
        self.stack_ids = {}         # index -> s<k>
        self.stack_cls = {}         # index -> requested stack size (0 = default class)
        self.led = []               # (position, kind, index, id)
        self.calls = []             # dicts: {actor, op, target, pos, ret, val, ret_pos, checks: [snap dicts]}


def _snap(s):
    m = re.match(r"st=(-?\d+) jt=(\S+) det=(\d) lk=(\d)", s.strip())
    return m.groups() if m else None


def project(case, events, cfg="now"):
    objs, threads, scripts, params = trace.parse_case(case)
    P = Proj()
    cur = {0: 0}                    # tag -> current incarnation (model index)
    nxt = [1]
    stack = {}                      # actor index -> stack of open calls (dict or None)
    pending_exit = {}               # index -> value
    retval = {}                     # index -> value set by 'retval'
    last_alloc = {}                 # worker -> index being created
    lines, src = P.lines, P.src
    lines.append(None); src.append(None)      # placeholder for 'begin'

    def idx_of(name):
        if name and name[0] in "tc" and name[1:].isdigit():
            return cur.get(int(name[1:]))
        return None

    for pos, e in enumerate(events):
        try:
            _project_event(P, pos, e, cur, nxt, stack, pending_exit, retval, last_alloc, params, cfg, idx_of)
        except (IndexError, ValueError, KeyError):
            P.problems.append("malformed trace line (the run was cut short?): " + e.raw)
    for i, l in enumerate(lines):
        if l and l.endswith("testcancel ?"):
            lines[i] = l.replace("?", "cont")
    P.nthreads = nxt[0]
    P.forced_pf = params.get("parentfirst", "0").strip() not in ("", "0")
    P.gcf = params.get("gchildfirst", params.get("envchildfirst", "1")).strip() or "1"
    lines[0] = "begin %d %s %s %s" % (P.nthreads, P.default_ss or "131072", "now" if cfg == "oldinit" else cfg, P.gcf)
    lines.append("end"); src.append(None)
    return P


def _project_event(P, pos, e, cur, nxt, stack, pending_exit, retval, last_alloc, params, cfg, idx_of):
    lines, src = P.lines, P.src
    if True:
        a = cur.get(e.actor) if e.actor is not None else None
        if e.kind == "C":
            op = e.words
            rec = None
            if a is None:
                P.problems.append("call by an unknown thread: " + e.raw)
                return
            if op[0] == "create":
                T = int(op[1])
                c = nxt[0]; nxt[0] += 1
                cur[T] = c
                P.tag[c] = T
                fl = op[2:]
                ss = [x for x in fl if x.startswith(("ss=", "gs=", "stk="))]
                use_attr = any(x in fl for x in ("pf", "cf", "det", "attr")) or ss or params.get("parentfirst", "0") != "0"
                spec = "none"
                if use_attr:
                    spec = "attr"
                    if "pf" in fl or (params.get("parentfirst", "0") != "0" and "cf" not in fl):
                        spec += ":pf"
                    if "cf" in fl:
                        spec += ":cf"
                    if "det" in fl:
                        spec += ":det"
                    for x in ss:
                        spec += ":" + x
                    if cfg == "oldinit":
                        spec += ":oldinit"
                P.flags[c] = fl
                P.expected_ret[c] = 1000 + T
                lines.append("call %d create %d %s %d %d" % (a, c, spec, 1 if "nullid" in fl else 0, T)); src.append(e)
                rec = {"actor": a, "op": "create", "target": c, "pos": pos, "checks": []}
                P.calls.append(rec)
            elif op[0] in REAP_OPS:
                t = cur.get(int(op[1]))
                if t is None:
                    P.problems.append("reaping call on a thread that was never created: " + e.raw)
                    return
                lines.append("call %d %s %d" % (a, op[0], t)); src.append(e)
                rec = {"actor": a, "op": op[0], "target": t, "pos": pos, "checks": [], "null": "null" in op}
                P.calls.append(rec)
            elif op[0] == "cancel":
                t = cur.get(int(op[1]))
                if t is None:
                    P.problems.append("cancel of a thread that was never created: " + e.raw)
                    return
                lines.append("call %d cancel %d" % (a, t)); src.append(e)
                rec = {"actor": a, "op": "cancel", "target": t, "pos": pos, "checks": []}
                P.calls.append(rec)
            elif op[0] == "testcancel":
                lines.append("call %d testcancel ?" % a); src.append(e)
                rec = {"actor": a, "op": "testcancel", "target": a, "pos": pos, "checks": [], "line": len(lines) - 1, "acted": False}
                P.calls.append(rec)
            elif op[0] == "setcancel":
                lines.append("call %d setcancel %s" % (a, op[1])); src.append(e)
                rec = {"actor": a, "op": "setcancel", "target": a, "pos": pos, "checks": [], "arg": int(op[1])}
                P.calls.append(rec)
            elif op[0] == "exit":
                pending_exit[a] = int(op[1])
            elif op[0] == "retval":
                retval[a] = int(op[1])
            stack.setdefault(a, []).append(rec)
        elif e.kind == "R":
            if a is None:
                return
            st = stack.get(a) or []
            rec = st.pop() if st else None
            if rec is not None:
                kv = dict(x.split("=", 1) for x in e.words[2:] if "=" in x)
                rec["ret"], rec["val"], rec["ret_pos"] = int(e.words[1]), kv.get("val"), pos
                if rec["op"] == "testcancel":
                    lines[rec["line"]] = lines[rec["line"]].replace("?", "cont")
                if "old" in kv:
                    rec["old"] = int(kv["old"])
                lines.append("ret %d %s %s" % (a, e.words[1], kv.get("val", "-"))); src.append(e)
        elif e.kind == "E":
            eid = e.words[0]
            if eid == "alloc.desc":
                c = idx_of(e.words[1])
                last_alloc[e.w] = c
                if c is not None:
                    P.desc_ids[c] = e.snap.strip() or None
                    P.led.append((pos, "alloc.desc", c, e.snap.strip()))
                    lines.append("led alloc.desc %d" % c); src.append(e)
            elif eid == "alloc.stack":
                c = last_alloc.get(e.w)
                if c is not None:
                    P.stack_ids[c] = e.words[1]
                    P.stack_cls[c] = e.words[2]
                    P.led.append((pos, "alloc.stack", c, e.words[1]))
                    if "attr" in P.flags.get(c, []) and not any(x.startswith(("ss=", "stk=")) for x in P.flags[c]) and P.default_ss is None:
                        P.default_ss = e.words[2]
                    lines.append("led alloc.stack %d %s" % (c, e.words[2])); src.append(e)
            elif eid == "free.desc":
                c = idx_of(e.words[1])
                if c is None:
                    P.problems.append("free.desc of an unknown record: " + e.raw)
                else:
                    P.led.append((pos, "free.desc", c, e.snap.strip()))
                    lines.append("led free.desc %d" % c); src.append(e)
            elif eid == "free.stack":
                if a is None:
                    P.problems.append("free.stack outside a thread's callback: " + e.raw)
                else:
                    P.led.append((pos, "free.stack", a, e.words[1]))
                    lines.append("tick %d %s free.stack - %d" % (a, e.ctx, a)); src.append(e)
            elif eid == "create.start":
                c = idx_of(e.words[1])
                if c is None or a is None:
                    P.problems.append("create.start of an unknown thread: " + e.raw)
                else:
                    P.starts.setdefault(c, []).append((pos, e.words[2], a))
                    lines.append("tick %d m create.start %s %d" % (a, e.words[2], c)); src.append(e)
            elif eid == "cb.leave":
                if a is not None and e.ctx == "c" and a in P.fin_enter:
                    P.fin_done[a] = pos
            elif eid == "finish.enter":
                c = idx_of(e.words[1])
                if c is None:
                    P.problems.append("finish.enter of an unknown thread: " + e.raw)
                    return
                P.fin_enter[c] = pos
                st = stack.get(c) or []
                if st and st[-1] is not None and st[-1]["op"] == "testcancel":
                    # the testcancel did not return: the thread terminates itself with PTHREAD_CANCELED
                    rec = st.pop()
                    rec["acted"], rec["ret_pos"] = True, pos
                    lines[rec["line"]] = lines[rec["line"]].replace("?", "acted")
                    P.expected_ret[c] = -1
                    lines.append("kact %d" % c); src.append(e)
                    return
                if c in pending_exit:
                    v = pending_exit[c]
                    lines.append("call %d exit %d" % (c, v))
                else:
                    v = retval.get(c, P.expected_ret.get(c, 0))
                    lines.append("call %d return %d" % (c, v))
                P.expected_ret[c] = v
                src.append(e)
        elif e.kind == "P":
            pid = e.words[0]
            if not pid.startswith(THREAD_POINTS):
                return
            t = idx_of(e.words[1])
            if a is None or t is None:
                P.problems.append("POINT with an unresolvable thread: " + e.raw)
                return
            v = e.words[2]
            vi = idx_of(v) if v[0] == "t" else None
            sn = _snap(e.snap)
            obs = ""
            if sn:
                jt = idx_of(sn[1]) if sn[1] != "-" else "-"
                obs = " %s %s %s %s" % (sn[0], "?" if jt is None else jt, sn[2], sn[3])
            lines.append("tick %d %s %s %s %d%s" % (a, e.ctx, pid, vi if vi is not None else "-", t, obs)); src.append(e)
            if pid == "finish.cb.ready2":
                P.ready2[t] = pos
            if pid in ("join.check", "tryjoin.check", "detach.check", "detach.fast", "detach.set", "detach.reap", "join.reap"):
                st = stack.get(a) or []
                recs = [r for r in st if r is not None]
                if recs:
                    recs[-1]["checks"].append({"point": pid, "snap": sn, "pos": pos, "target": t})


def validate(drv, projs):
    return trace.validate_blocks(drv, [(p.lines, p.src) for p in projs])


def safe_run_case(exe, case_text, workdir, name, timeout=60):
    """trace.run_case, but a trace cut short by a crash of the library (last line incomplete) still parses"""
    try:
        return trace.run_case(exe, case_text, workdir, name, timeout=timeout)
    except (IndexError, ValueError):
        tp = os.path.join(workdir, name + ".trace")
        txt = open(tp, errors="replace").read() if os.path.exists(tp) else ""
        good = []
        for line in txt.split("\n"):
            try:
                trace.parse_trace(line + "\n")
                good.append(line)
            except (IndexError, ValueError):
                pass
        evs, verdict = trace.parse_trace("\n".join(good) + "\n")
        rc, out = vlib.sh([exe, os.path.join(workdir, name + ".case"), tp + ".again"], timeout=timeout, cwd=workdir)
        return {"rc": rc, "out": out, "events": evs, "verdict": verdict, "trace_path": tp,
                "case_path": os.path.join(workdir, name + ".case"), "trace_text": txt}


def run_cases(ctx, exe, drv, cases, timeout=60, cfg="now", subdir="runs"):
    """cases: list of case texts.  Returns dicts {case, rc, verdict, events, proj, model, fail_context}"""
    out = []
    wd = os.path.join(ctx.dir, subdir)
    projs = []
    for i, c in enumerate(cases):
        r = safe_run_case(exe, c, wd, "c%04d" % i, timeout=timeout)
        p = project(c, r["events"], cfg)
        projs.append(p)
        out.append({"case": c, "rc": r["rc"], "verdict": r["verdict"], "events": r["events"], "proj": p,
                    "stderr": r["out"][-500:], "trace_path": r["trace_path"]})
    res = validate(drv, projs) if projs else []
    for o, p, x in zip(out, projs, res):
        o["model"] = x
        o["fail_context"] = None
        if x.startswith("FAIL"):
            k = int(x.split()[1])
            o["fail_context"] = {"verdict": x, "model_input_tail": p.lines[max(0, k - 12):k + 1],
                                 "trace_line": p.src[k].raw if k < len(p.src) and p.src[k] is not None else None}
    return out


def point_histogram(results, h=None):
    h = h if h is not None else {}
    for r in results:
        for e in r["events"]:
            if e.kind in "PS" or (e.kind == "E" and e.words[0] in ("create.start", "free.stack", "free.desc", "alloc.desc", "alloc.stack")):
                k = e.words[0] + ("=" + e.words[2] if e.words[0] == "create.start" else "")
                h[k] = h.get(k, 0) + 1
    return h


# ------------------------------------------------------------------------------------------------
# oracles shared by C01 and C13 (direct statements on the trace; the model is not consulted)
# ------------------------------------------------------------------------------------------------

def oracle_ledger(r):
    """every record / stack of a thread is released at most once, never before it was obtained; a
    reaped or detached thread has both released exactly once by the end of a DONE run"""
    P = r["proj"]
    bad = []
    cnt = {}
    for pos, kind, c, ident in P.led:
        cnt[(kind, c)] = cnt.get((kind, c), 0) + 1
        if kind == "free.desc" and cnt[(kind, c)] > cnt.get(("alloc.desc", c), 0):
            bad.append("record of t%d (tag %d) released %d time(s), obtained %d" % (c, P.tag.get(c, -1), cnt[(kind, c)], cnt.get(("alloc.desc", c), 0)))
        if kind == "free.stack" and cnt[(kind, c)] > cnt.get(("alloc.stack", c), 0):
            bad.append("stack of t%d released %d time(s), obtained %d" % (c, cnt[(kind, c)], cnt.get(("alloc.stack", c), 0)))
        if kind == "free.stack" and P.stack_ids.get(c) is not None and ident != P.stack_ids[c]:
            bad.append("t%d released stack %s but owns %s" % (c, ident, P.stack_ids[c]))
        if kind == "free.desc" and P.desc_ids.get(c) and ident and ident != P.desc_ids[c]:
            bad.append("record %s released as t%d's, which owns %s" % (ident, c, P.desc_ids[c]))
    if r["verdict"] and r["verdict"].startswith("DONE"):
        reaper = {}
        for cl in P.calls:
            if cl["op"] in REAP_OPS and cl.get("ret") == 0:
                reaper[cl["target"]] = reaper.get(cl["target"], 0) + 1
        for c in range(1, P.nthreads):
            det = "det" in P.flags.get(c, [])
            fin = c in P.fin_done      # (a DONE verdict can leave a thread nobody waits for in the middle of its exit path)
            if fin and cnt.get(("free.stack", c), 0) != 1:
                bad.append("finished thread t%d: stack released %d time(s)" % (c, cnt.get(("free.stack", c), 0)))
            if fin and (det or reaper.get(c)) and cnt.get(("free.desc", c), 0) != 1:
                bad.append("finished thread t%d (%s): record released %d time(s)" % (c, "detached attribute" if det else "reaped", cnt.get(("free.desc", c), 0)))
    return bad


def oracle_no_free_before_ready2(r):
    """a joiner / detacher releases the record only after the FREE_READY2 store (its reap POINT
    shows st=3); the finisher releases it only for a detached thread"""
    bad = []
    for e in r["events"]:
        if e.kind == "P" and e.words[0] in ("join.reap", "detach.reap"):
            sn = _snap(e.snap)
            if sn and sn[0] != "3":
                bad.append("%s with the target's status %s (not FREE_READY2): %s" % (e.words[0], sn[0], e.raw))
        if e.kind == "P" and e.words[0] == "finish.cb.freedesc":
            sn = _snap(e.snap)
            if sn and sn[2] != "1":
                bad.append("finisher releases the record of a thread that is not detached: " + e.raw)
    return bad


# ------------------------------------------------------------------------------------------------
# order of the shared accesses inside one step (between two POINTs), read off the preprocessed source
# of the current tree: the controller cannot schedule inside a step, so "unlock, then publish" and
# "publish, then unlock" give the same traces; the model's step table is checked against the text.
# ------------------------------------------------------------------------------------------------

def _func_body(txt, name):
    m = re.search(r"\b%s\s*\([^;{]*\)\s*\{" % re.escape(name), txt)
    if not m:
        return None
    i, depth = m.end(), 1
    while i < len(txt) and depth:
        depth += {"{": 1, "}": -1}.get(txt[i], 0)
        i += 1
    return txt[m.end():i]


STEP_TABLE = [
    # (function, [regexes that must occur in this order])
    ("myth_entry_point_1", [r'"finish\.cb\.detached"', r"this_thread->detached", r"myth_spin_unlock_body\s*\(\s*&this_thread->lock",
                            r'"finish\.cb\.freedesc"', r"free_myth_thread_struct_desc", r'"finish\.cb\.ready2"',
                            r"this_thread->status\s*=\s*MYTH_STATUS_FREE_READY2", r"myth_spin_unlock_body\s*\(\s*&this_thread->lock"]),
    ("myth_entry_point_2", [r'"finish\.cb\.detached"', r"this_thread->detached", r"myth_spin_unlock_body\s*\(\s*&this_thread->lock",
                            r'"finish\.cb\.freedesc"', r"free_myth_thread_struct_desc", r'"finish\.cb\.ready2"',
                            r"this_thread->status\s*=\s*MYTH_STATUS_FREE_READY2", r"myth_spin_unlock_body\s*\(\s*&this_thread->lock"]),
    ("myth_join_2", [r'"join\.cb\.set"', r"myth_desc_join_set", r"myth_spin_unlock_body\s*\(\s*&th->lock"]),
    ("myth_join_3", [r'"join\.cb\.set"', r"myth_desc_join_set", r"myth_spin_unlock_body\s*\(\s*&th->lock"]),
    ("myth_join_body", [r"myth_spin_lock_body\s*\(\s*&th->lock", r'"join\.check"', r"myth_desc_is_finished\s*\(\s*th\s*\)",
                        r"myth_spin_unlock_body\s*\(\s*&th->lock", r"while\s*\(\s*th->status\s*!=\s*MYTH_STATUS_FREE_READY2", r"myth_join_1\s*\(",
                        r"myth_desc_set_not_runnable\s*\(\s*this_thread", r"myth_join_2\b"]),
    ("myth_entry_point_cleanup", [r"myth_spin_lock_body\s*\(\s*&this_thread->lock", r'"finish\.readjoin"', r"->join_thread",
                                  r"wait_thread->status\s*=\s*MYTH_STATUS_READY", r"myth_entry_point_1\b"]),
    ("myth_tryjoin_body", [r"myth_spin_lock_body\s*\(\s*&th->lock", r'"tryjoin\.check"', r"myth_desc_is_finished\s*\(\s*th\s*\)",
                           r"myth_spin_unlock_body\s*\(\s*&th->lock", r"while\s*\(\s*th->status\s*!=\s*MYTH_STATUS_FREE_READY2", r"myth_join_1\s*\("]),
    ("myth_detach_body", [r'"detach\.fast"', r"th->status\s*==\s*MYTH_STATUS_FREE_READY2", r'"detach\.reap"', r"free_myth_thread_struct_desc",
                          r"myth_spin_lock_body\s*\(\s*&th->lock", r'"detach\.check"', r"myth_desc_is_finished\s*\(\s*th\s*\)",
                          r"myth_spin_unlock_body\s*\(\s*&th->lock", r"while\s*\(\s*th->status\s*!=\s*MYTH_STATUS_FREE_READY2", r'"detach\.reap"',
                          r"free_myth_thread_struct_desc", r'"detach\.set"', r"myth_desc_set_detached", r"myth_spin_unlock_body\s*\(\s*&th->lock"]),
]


def source_order_check():
    """returns a list of messages: steps whose shared accesses are not in the order the model's step table has"""
    src = os.path.join(vlib.REPO, "src", "myth_sched.c")
    rc, out = vlib.sh(["gcc", "-E", "-P"] + vlib.lib_cflags() + [src], timeout=120)
    if rc != 0:
        return ["cannot preprocess src/myth_sched.c: " + out[-300:]]
    bad = []
    for fn, seq in STEP_TABLE:
        body = _func_body(out, fn)
        if body is None:
            bad.append("function %s not found in the preprocessed source" % fn)
            continue
        pos = 0
        for rx in seq:
            m = re.compile(rx).search(body, pos)
            if not m:
                bad.append("%s: expected `%s` after the preceding accesses of the step table (order of shared accesses changed)" % (fn, rx))
                break
            pos = m.end()
    return bad + layout_check()


DESC_WORDS = ("join_thread", "result", "lock", "status", "detached")


def layout_check():
    """the model treats the descriptor's join_thread / result / lock / status / detached as independent words, each
    written under its own rule (detached and join_thread under the lock, status by the finisher).  That needs every one
    of them to be a separately addressable member of struct myth_thread of the CURRENT tree: a bit-field shares its
    memory location with its neighbours, so a locked update of one races with an unlocked update of the other (lost
    `detached = 1`).  `offsetof` does not compile for a bit-field; the byte ranges are compared as well."""
    d = os.path.join(vlib.BUILD, "desc_layout")
    os.makedirs(d, exist_ok=True)
    src = os.path.join(d, "layout.c")
    with open(src, "w") as f:
        f.write('#include <stddef.h>\n#include <stdio.h>\n#include "myth/myth.h"\n#include "myth_config.h"\n#include "myth_thread.h"\n'
                "int main(void) {\n" +
                "".join('  printf("%s %%zu %%zu\\n", offsetof(struct myth_thread, %s), sizeof(((struct myth_thread *)0)->%s));\n' % (w, w, w)
                        for w in DESC_WORDS) + "  return 0;\n}\n")
    exe = os.path.join(d, "layout")
    rc, out = vlib.sh(["gcc"] + vlib.lib_cflags() + [src, "-o", exe], timeout=120)
    if rc != 0:
        msg = [l for l in out.split("\n") if "error" in l][:2]
        return ["descriptor words are not separately addressable members of struct myth_thread (a bit-field shares its memory "
                "location with its neighbours; the model and the lock discipline treat them as independent words): " + " / ".join(msg)]
    rc, out = vlib.sh([exe], timeout=30)
    rng = []
    for l in out.split("\n"):
        w = l.split()
        if len(w) == 3:
            rng.append((int(w[1]), int(w[1]) + int(w[2]), w[0]))
    rng.sort()
    bad = []
    if len(rng) != len(DESC_WORDS):
        bad.append("layout probe of struct myth_thread gave no result: " + out[-200:])
    for (a0, a1, an), (b0, b1, bn) in zip(rng, rng[1:]):
        if b0 < a1:
            bad.append("descriptor words %s and %s overlap in struct myth_thread" % (an, bn))
    return bad


def oracle_cancel(r):
    """cancellation, stated on the trace: a thread terminates itself at a testcancel only if cancellation is enabled
    for it and a cancel naming THIS incarnation was issued before; it goes on only if no such cancel had completed
    before the testcancel began (or cancellation is disabled); cancel / setcancelstate return 0, setcancelstate reports
    the previous state; (the join value of a thread that acted is PTHREAD_CANCELED: checked with the other join values)"""
    P = r["proj"]
    bad = []
    enabled = {}
    for cl in P.calls:                      # P.calls is in trace order of the call lines
        x = cl["actor"]
        if cl["op"] == "setcancel" and "ret" in cl:
            if cl["ret"] != 0:
                bad.append("setcancelstate returned %d" % cl["ret"])
            if cl.get("old", enabled.get(x, 1)) != enabled.get(x, 1):
                bad.append("setcancelstate of t%d reports previous state %s, it was %d" % (x, cl.get("old"), enabled.get(x, 1)))
            enabled[x] = cl["arg"]
        elif cl["op"] == "cancel" and "ret" in cl and cl["ret"] != 0:
            bad.append("cancel returned %d" % cl["ret"])
        elif cl["op"] == "testcancel":
            en = enabled.get(x, 1)
            started = [c for c in P.calls if c["op"] == "cancel" and c["target"] == x and c["pos"] < cl.get("ret_pos", 1 << 60)]
            done = [c for c in P.calls if c["op"] == "cancel" and c["target"] == x and c.get("ret_pos", 1 << 60) < cl["pos"]]
            if cl["acted"] and not (en and started):
                bad.append("t%d (tag %d) terminated itself at a testcancel although %s" % (
                    x, P.tag.get(x, -1), "its cancellation is disabled" if not en else "nobody cancelled this incarnation"))
            if not cl["acted"] and "ret" in cl and en and done:
                bad.append("t%d (tag %d) went on past a testcancel although a cancel of it had completed and cancellation is enabled" % (x, P.tag.get(x, -1)))
    return bad
