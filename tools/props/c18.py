"""C18 — DAG Recorder totals do not depend on how the DAG was contracted (DESIGN.md section 4, C18).

prove -> build (harness + profiler sources of the CURRENT tree; extracted model) -> generate timed
task trees -> run both under every contraction setting -> diff -> independent oracle on the raw
interval stream delivered by the recorder's hooks.
"""
import glob, json, os, shutil
import vlib

VF = ["Dag/DagTreeModel.v", "Dag/DagRecordModel.v", "Dag/DagProofs.v"]
KNOWN_ID = "C18-stat-edges-lost"
CMAX_DEFAULT = 1 << 60          # dr_options_default_values.collapse_max of the pinned tree
PRUNE_DEFAULT = 100000
EK = ["end", "create", "create_cont", "wait_cont", "other_cont"]


# ------------------------------------------------------------------------------------------
# build
# ------------------------------------------------------------------------------------------
def build(ctx):
    pdir = os.path.join(vlib.REPO, "src", "profiler")
    srcs = sorted(glob.glob(os.path.join(pdir, "*.c")))
    if not srcs:
        raise vlib.BuildError("no profiler sources in " + pdir)
    harness = os.path.join(vlib.VERIF, "harness", "c18_sim.c")
    flags = ["-O0", "-g", "-w", "-DMYTH_VERIF", "-I" + pdir]
    key = vlib.sha(vlib.repo_src_hash(os.path.join("src", "profiler")), vlib.file_sha(harness), " ".join(flags))[:16]
    d = os.path.join(vlib.BUILD, "C18", "bin", key)
    exe = os.path.join(d, "c18_sim")
    with vlib.Lock("c18-" + key):
        if not os.path.exists(exe):
            vlib.cc(exe + ".tmp", [harness] + srcs, flags=flags, libs=["-lpthread"])
            os.rename(exe + ".tmp", exe)
            vlib.prune_cache(os.path.join(vlib.BUILD, "C18", "bin"), keep=4)
    drv = vlib.build_driver("C18", "Extract_C18.v", "driver_C18.ml", VF[:2])
    return exe, drv


# ------------------------------------------------------------------------------------------
# generator: a random fork-join program, its "parallel" timing and its worker assignment
# ------------------------------------------------------------------------------------------
class Gen:
    def __init__(self, r, maxdepth, fan, nw, budget, sticky, p_other, zero_dur):
        self.r, self.maxdepth, self.fan, self.nw = r, maxdepth, fan, nw
        self.budget, self.sticky, self.p_other, self.zero_dur = budget, sticky, p_other, zero_dur

    # structure: ('T', items) ; ('S'|'B', items) ; ('o',) ; ('c', task)
    def task(self, d):
        r = self.r
        items = []
        n = 0 if self.budget <= 0 else r.choice([0, 1, 1, 1, 2, 2, 3]) if d > 0 else r.choice([0, 1, 1, 2, 2, 3, 4])
        if d == self.maxdepth and d > 0 and r.chance(1, 2):
            n = 0
        if d == 0 and n == 0 and r.chance(11, 12):
            n = r.rng(1, 3)
        for _ in range(n):
            if r.chance(self.p_other, 10):
                items.append(('o',)); self.budget -= 1
            else:
                items.append(self.section(d, 0))
        self.budget -= 1
        return ('T', items)

    def section(self, d, nest):
        r = self.r
        tag = 'B' if r.chance(1, 3) else 'S'
        items = []
        n = 0 if self.budget <= 0 else r.rng(0, self.fan)
        if d == 0 and nest == 0 and self.maxdepth > 0 and n == 0 and self.budget > 0 and r.chance(3, 4):
            n = 1
        for k in range(n):
            x = r.below(10)
            if d == 0 and nest == 0 and k == 0 and self.maxdepth > 0 and r.chance(3, 4):
                x = 9
            if x < self.p_other:
                items.append(('o',)); self.budget -= 1
            elif x < self.p_other + 1 and nest < 2:
                items.append(self.section(d, nest + 1))
            elif d < self.maxdepth:
                items.append(('c', self.task(d + 1))); self.budget -= 1
            else:
                items.append(('o',)); self.budget -= 1
        self.budget -= 1
        return (tag, items)

    def dur(self):
        r = self.r
        if r.chance(self.zero_dur, 10):
            return 0
        return r.choice([1, 1, 2, 3, 5, 8, 13, r.rng(1, 40), r.rng(1, 400)])

    def gap(self):
        return self.r.choice([0, 0, 0, 1, 1, 2, 5])

    def nextw(self, w):
        return w if self.r.below(100) < self.sticky else self.r.below(self.nw)

    # timing: out = token list; returns (end time of the task, worker of its last interval)
    def emit_task(self, t, start, w, out):
        out.append('T')
        now, cw = start, w
        for it in t[1]:
            if it[0] == 'o':
                now, cw = self.emit_leaf('o', now, cw, out)
            else:
                now, cw = self.emit_section(it, now, cw, out)
        e = now + self.dur()
        out += ['e', str(now), str(e), str(cw)]
        return e

    def emit_leaf(self, tag, now, cw, out):
        e = now + self.dur()
        out += [tag, str(now), str(e), str(cw)]
        return e + self.gap(), self.nextw(cw)

    def emit_section(self, s, now, cw, out):
        out.append(s[0])
        child_end = 0
        for it in s[1]:
            if it[0] == 'o':
                now, cw = self.emit_leaf('o', now, cw, out)
            elif it[0] == 'c':
                e = now + self.dur()
                out += ['c', str(now), str(e), str(cw)]
                ce = self.emit_task(it[1], e + self.gap(), self.nextw(cw), out)
                child_end = max(child_end, ce)
                now, cw = e + self.gap(), self.nextw(cw)
            else:
                now, cw = self.emit_section(it, now, cw, out)
        e = now + self.dur()
        out += ['w', str(now), str(e), str(cw)]
        return max(e, child_end) + self.gap(), self.nextw(cw)


def gen_tree(r, size_class):
    """returns (nw, tree token list)"""
    nw = r.rng(1, 8)
    maxdepth = r.choice([0, 1, 2, 3, 3, 4, 4, 5])
    fan = r.choice([0, 1, 2, 2, 3, 3, 4, 6])
    budget = {0: 12, 1: 60, 2: 250, 3: 1200}[size_class]
    sticky = r.choice([100, 100, 95, 80, 50, 0])
    g = Gen(r, maxdepth, fan, nw, budget, sticky, p_other=r.choice([0, 0, 1, 2, 4]), zero_dur=r.choice([0, 1, 3, 10]))
    t = g.task(0)
    out = []
    g.emit_task(t, r.choice([1, 1, 7, 1000, 1 << 40]), r.below(nw), out)
    return nw, out


def tree_stats(toks):
    """(number of intervals, total span, depth) straight from the token list"""
    n, lo, hi, d, md = 0, None, 0, 0, 0
    i = 0
    while i < len(toks):
        t = toks[i]
        if t in ('o', 'c', 'w', 'e'):
            s, e = int(toks[i + 1]), int(toks[i + 2])
            lo = s if lo is None else min(lo, s)
            hi = max(hi, e)
            n += 1
            i += 4
            if t == 'e':
                d -= 1
        else:
            if t == 'T':
                d += 1
                md = max(md, d)
            i += 1
    return n, (hi - (lo or 0)), md


def settings_for(r, toks):
    """contraction settings for one tree: (name, umin, cmax, nct, prune, cmc, chk).
    chk >= 10: the harness keeps the library's default thresholds (only totals are compared)."""
    n, span, _ = tree_stats(toks)
    S = [("none", 0, 0, 0, PRUNE_DEFAULT, 0, 0),
         ("none-chk", 0, 0, 0, PRUNE_DEFAULT, 0, 1),
         ("defaults", 0, CMAX_DEFAULT, 0, PRUNE_DEFAULT, 0, 10),
         ("cmax-inf-chk", 0, 1 << 62, 0, PRUNE_DEFAULT, 0, 1),
         ("all", 1 << 62, 0, 0, PRUNE_DEFAULT, 0, 0)]
    S.append(("span", r.choice([0, 0, 1, r.rng(0, span + 1), r.rng(0, span // 4 + 1)]),
              r.choice([0, 1, r.rng(0, span + 1), r.rng(0, span // 2 + 1), span + 1]), 0, PRUNE_DEFAULT, 0, 0))
    S.append(("cmax-chk", 0, r.choice([1, 2, r.rng(0, span + 1), r.rng(0, span // 3 + 1)]), 0, PRUNE_DEFAULT, 0, 1))
    S.append(("count", 0, 0, 0, PRUNE_DEFAULT, r.choice([1, 2, 3, 5, 10, r.rng(1, n + 2), n, n + 1]), 0))
    S.append(("count2", r.rng(0, 3), CMAX_DEFAULT, 0, PRUNE_DEFAULT, r.choice([2, 4, 8, r.rng(1, n + 2)]), 0))
    S.append(("target", 0, 0, r.choice([1, 2, 3, 5, r.rng(1, 2 * n + 2), r.rng(1, n + 1)]), r.choice([0, 0, 1, 3, 10, r.rng(0, 2 * n + 1)]), 0,
              r.choice([0, 1])))
    S.append(("target2", r.rng(0, 5), CMAX_DEFAULT, r.choice([1, 4, 16, r.rng(1, 2 * n + 2)]), r.choice([0, 5, 30]), r.choice([0, 3]), 0))
    return S


def case_line(nw, sets, toks):
    return " ".join([str(nw), str(len(sets))] + ["%d %d %d %d %d %d" % s[1:] for s in sets] + toks)


# ------------------------------------------------------------------------------------------
# independent oracle: the property itself, from the raw interval stream of the hooks
# ------------------------------------------------------------------------------------------
def oracle_dag(evs):
    """rebuild the explicit DAG from the hook events; returns dict(work, crit, nodes[4], edges[5], n)"""
    tasks = []          # stack of dicts: prev (edges into the next interval), secs (stack of lists of created-task records)
    nodes = {"c": 0, "w": 0, "o": 0, "e": 0}
    edges = dict.fromkeys(EK, 0)
    dist = []
    work = 0
    pending_child = None
    for tok in evs:
        if tok == "T":
            tasks.append({"prev": [pending_child] if pending_child is not None else [], "secs": [], "rec": None})
            pending_child = None
        elif tok == "B":
            tasks[-1]["secs"].append([])
        elif tok in ("rc", "rw", "ro"):
            pass
        else:
            k, s, e, w = tok.split(":")
            s, e = int(s), int(e)
            t = tasks[-1]
            v = len(dist)
            base = 0
            for (u, ek) in t["prev"]:
                edges[ek] += 1
                base = max(base, dist[u])
            dist.append(base + (e - s))
            work += e - s
            nodes[k] += 1
            if k == "o":
                t["prev"] = [(v, "other_cont")]
            elif k == "c":
                if not t["secs"]:
                    t["secs"].append([])
                rec = {"end": None}
                t["secs"][-1].append(rec)
                t["prev"] = [(v, "create_cont")]
                pending_child = (v, "create")
                t["childrec"] = rec
            elif k == "w":
                if not t["secs"]:
                    t["secs"].append([])
                sec = t["secs"].pop()
                t["prev"] = [(v, "wait_cont")] + [(c["end"], "end") for c in sec]
            elif k == "e":
                tasks.pop()
                if tasks:
                    tasks[-1]["childrec"]["end"] = v
            else:
                raise ValueError("bad interval kind " + k)
    return {"work": work, "crit": max(dist) if dist else 0, "nodes": [nodes[x] for x in "cwoe"],
            "edges": [edges[x] for x in EK], "n": len(dist)}


def parse_A(seg):
    """'rc=0 t1=.. tinf=.. nodes=a,b,c,d edges=.. cur=.. mat=..' -> dict (rc only if the run died)"""
    d = {}
    for w in seg.split():
        if "=" in w:
            k, v = w.split("=", 1)
            d[k] = v
    return d


def split_impl(line):
    """impl line -> list of (A-text, stat dict, events) per setting"""
    res = []
    for seg in line.split(" | "):
        parts = seg.split(" ; ")
        A = parts[0].strip()
        st = parse_A(parts[1]) if len(parts) > 1 else {}
        evs = parts[2].split()[1:] if len(parts) > 2 else []
        res.append((A, st, evs))
    return res


def ints(s):
    return [int(x) for x in s.split(",")]


def oracle_case(sets, impl_line, full_oc=False, full_end=False):
    """None if the property holds on this case's implementation output, else (message, known).
    full_oc / full_end: the library was probed to count other_cont / end edges completely, so these
    kinds are demanded exactly too (otherwise they are the listed finding: may be lost, never invented)."""
    segs = split_impl(impl_line)
    if len(segs) != len(sets):
        return ("implementation produced %d results for %d settings: %s" % (len(segs), len(sets), impl_line[:200]), False)
    ref = None
    others_lost = None
    for (name, *_), (A, st, evs) in zip(sets, segs):
        a = parse_A(A)
        if a.get("rc") != "0":
            return ("setting %s: the recording run died (%s)" % (name, A[:80]), False)
        try:
            o = oracle_dag(evs)
        except Exception as e:      # malformed stream
            return ("setting %s: hook stream not well nested (%s)" % (name, e), False)
        if ref is None:
            ref = (name, evs, o)
        elif evs != ref[1]:
            return ("setting %s: the interval stream differs from the one under %s" % (name, ref[0]), False)
        t1, tinf = int(a["t1"]), int(a["tinf"])
        nodes, edges = ints(a["nodes"]), ints(a["edges"])
        if t1 != o["work"]:
            return ("setting %s: reported work t_1=%d, sum of interval lengths=%d" % (name, t1, o["work"]), False)
        if tinf != o["crit"]:
            return ("setting %s: reported critical path t_inf=%d, longest dependency chain=%d" % (name, tinf, o["crit"]), False)
        if tinf > t1:
            return ("setting %s: critical path %d exceeds work %d" % (name, tinf, t1), False)
        if nodes != o["nodes"]:
            return ("setting %s: reported interval counts (create,wait,other,end)=%s, in the stream %s" % (name, nodes, o["nodes"]), False)
        if edges[:4] != o["edges"][:4]:
            return ("setting %s: reported edge counts (end,create,create_cont,wait_cont)=%s, in the uncontracted DAG %s"
                    % (name, edges[:4], o["edges"][:4]), False)
        # the generated report
        if not st or "work" not in st:
            return ("setting %s: no .stat report" % name, False)
        if int(st["work"]) != o["work"] or int(st["tinf"]) != o["crit"]:
            return ("setting %s: .stat work/T_inf = %s/%s, expected %d/%d" % (name, st["work"], st["tinf"], o["work"], o["crit"]), False)
        if [int(st["cr"]), int(st["wt"]), int(st["en"])] != [o["nodes"][0], o["nodes"][1], o["nodes"][3]]:
            return ("setting %s: .stat create/wait/end = %s/%s/%s, in the stream %s" % (name, st["cr"], st["wt"], st["en"], o["nodes"]), False)
        if int(st["dagnodes"]) != o["n"] + o["nodes"][1] + o["nodes"][0] + 1:
            return ("setting %s: .stat dag nodes = %s, expected %d" % (name, st["dagnodes"], o["n"] + o["nodes"][1] + o["nodes"][0] + 1), False)
        se = ints(st["sedges"])
        if se[1:4] != o["edges"][1:4]:
            return ("setting %s: .stat edge totals (create,create_cont,wait_cont)=%s, in the uncontracted DAG %s"
                    % (name, se[1:4], o["edges"][1:4]), False)
        # candidate defects C18-stat-edges-lost (see notes/C18.md), guarded exactly like the _partial theorems:
        #  - other_cont: dr_accumulate_stats never counts other -> next, so these edges vanish with every contracted
        #    subgraph (and the root's logical count is always 0);
        #  - end: the end edges of the tasks created in a contracted *section* are attributed to its parent's summary,
        #    which the report does not use while the parent is materialised.
        # The other kinds are exact; these two may only be lost, never invented, and never when nothing is contracted.
        if edges[4] != (o["edges"][4] if full_oc else 0):
            return ("setting %s: root other_cont count %d, expected %d" % (name, edges[4], o["edges"][4] if full_oc else 0), False)
        for k, full in ((0, full_end), (4, full_oc)):
            if full and se[k] != o["edges"][k]:
                return ("setting %s: .stat reports %d %s edges, the uncontracted DAG has %d" % (name, se[k], EK[k], o["edges"][k]), False)
            if se[k] > o["edges"][k]:
                return ("setting %s: .stat reports %d %s edges, the DAG has only %d" % (name, se[k], EK[k], o["edges"][k]), False)
            if int(st["mat"]) == int(st["dagnodes"]) and se[k] != o["edges"][k]:
                return ("setting %s: nothing contracted, yet .stat %s edges = %d, the DAG has %d" % (name, EK[k], se[k], o["edges"][k]), False)
            if int(a["mat"]) == 1 and k == 0 and se[k] != o["edges"][k]:
                return ("setting %s: everything contracted, yet .stat end edges = %d, the DAG has %d" % (name, se[k], o["edges"][k]), False)
            if se[k] != o["edges"][k] and others_lost is None:
                others_lost = "setting %s: .stat reports %d %s edges, the uncontracted DAG has %d" % (name, se[k], EK[k], o["edges"][k])
    if others_lost:
        return (others_lost, True)
    return None


# ------------------------------------------------------------------------------------------
# model vs implementation
# ------------------------------------------------------------------------------------------
def totals_only(A):
    return " ".join(w for w in A.split() if not w.startswith(("cur=", "mat=")))


def correspondence(sets, impl_line, model_line):
    """list of messages where the extracted model and the implementation disagree"""
    bad = []
    segs = split_impl(impl_line)
    mparts = model_line.split(" # ")
    msegs = mparts[0].split(" | ")
    if len(segs) != len(sets) or len(msegs) != len(sets):
        return ["different number of results: impl %d model %d settings %d" % (len(segs), len(msegs), len(sets))]
    isegs = impl_line.split(" | ")
    for s, iseg, M in zip(sets, isegs, msegs):
        A = " ; ".join(x.strip() for x in iseg.split(" ; ")[:2])
        M = " ; ".join(x.strip() for x in M.split(" ; ")[:2])
        if s[6] >= 10:      # library defaults: the thresholds are not part of the model
            A, M = totals_only(A.split(" ; ")[0]), totals_only(M.split(" ; ")[0])
        if A != M:
            bad.append("setting %s: impl [%s] model [%s]" % (s[0], A, M))
    # model-internal consistency (statements of the theorems, evaluated): totals under arbitrary
    # contraction choices equal the uncontracted ones; they equal the quantities of the explicit DAG
    if len(mparts) >= 3:
        spec = parse_A(mparts[1])
        none = parse_A(mparts[2])
        for extra in mparts[3:]:
            if totals_only(extra.replace("choice ", "").split(" ; ")[0]).strip() != totals_only(mparts[2].replace("none ", "")).strip():
                bad.append("model: totals under a contraction choice differ from the uncontracted ones")
        if spec.get("wf") != "1":
            bad.append("model: generated tree is not well nested")
        if spec.get("nonneg") == "1":
            if none.get("t1") != spec.get("work") or none.get("tinf") != spec.get("longest") or none.get("nodes") != spec.get("nodes"):
                bad.append("model: recorded totals differ from the explicit DAG: %s vs %s" % (mparts[2], mparts[1]))
    else:
        bad.append("model line malformed: " + model_line[:200])
    return bad


def run_cases(exe, drv, lines, workdir, variant=(False, False)):
    os.makedirs(workdir, exist_ok=True)
    impl, rc1, raw1 = vlib.run_lines([exe, workdir], lines, timeout=900)
    model, rc2, raw2 = vlib.run_lines([drv, "1" if variant[0] else "0", "1" if variant[1] else "0"], lines, timeout=900)
    return impl, model, rc1, rc2


# the two witnesses of finding C18-stat-edges-lost (known_findings.json); both use what a user gets
# without touching any option (collapse_max = 2^60) against the uncontracted run
W_END = "2 T S c 1 3 0 T e 3 6 0 w 3 5 0 e 6 7 1"
W_OTHER = "2 T S c 1 3 0 T o 3 4 1 e 4 6 1 w 3 5 0 e 6 7 0"
W_SETS = [("none", 0, 0, 0, PRUNE_DEFAULT, 0, 0), ("defaults", 0, CMAX_DEFAULT, 0, PRUNE_DEFAULT, 0, 10)]


def probe(exe, workdir):
    """which variant is the library?  returns (oc, fe, messages): oc = other_cont edges are counted by
    dr_accumulate_stats; fe = the report keeps the end edges of contracted sections"""
    os.makedirs(workdir, exist_ok=True)
    lines = [case_line(int(w.split()[0]), W_SETS, w.split()[1:]) for w in (W_END, W_OTHER)]
    impl, rc, raw = vlib.run_lines([exe, workdir], lines, timeout=120)
    msgs = []
    try:
        e_none, e_def = [ints(st["sedges"]) for (A, st, evs) in split_impl(impl[0])]
        o_segs = split_impl(impl[1])
        o_root = ints(parse_A(o_segs[1][0])["edges"])
        o_none, o_def = [ints(st["sedges"]) for (A, st, evs) in o_segs]
    except (KeyError, IndexError, ValueError):
        return False, False, ["probe could not be evaluated: " + raw[:300]]
    fe = e_def[0] == e_none[0] == 1
    oc = o_root[4] == 1 and o_def[4] == o_none[4] == 1
    if not fe:
        msgs.append("witness `%s`: .stat end-parent edges = %d uncontracted, %d with the default options" % (W_END, e_none[0], e_def[0]))
    if not oc:
        msgs.append("witness `%s`: .stat other-cont edges = %d uncontracted, %d with the default options (root summary: %d)"
                    % (W_OTHER, o_none[4], o_def[4], o_root[4]))
    return oc, fe, msgs


def make_cases(ctx, n, sizes):
    r = ctx.rng
    cases = []
    for i in range(n):
        nw, toks = gen_tree(r, r.choice(sizes))
        sets = settings_for(r, toks)
        cases.append((nw, sets, toks))
    return cases


def corpus_cases(ctx):
    cp = os.path.join(vlib.VERIF, "corpus", "C18", "cases.txt")
    res = []
    if os.path.exists(cp):
        for l in open(cp):
            l = l.strip()
            if not l or l.startswith("#"):
                continue
            w = l.split()
            nw, toks = int(w[0]), w[1:]
            res.append((nw, settings_for(ctx.rng, toks), toks))
    return res


def judge(ctx, cases, exe, drv, broken, log, search=True):
    lines = [case_line(nw, sets, toks) for nw, sets, toks in cases]
    oc, fe, probe_msgs = probe(exe, os.path.join(ctx.dir, "run"))
    impl, model, rc1, rc2 = run_cases(exe, drv, lines, os.path.join(ctx.dir, "run"), (oc, fe))
    failing, known, diffs = [], [], []
    dist_size, dist_depth, dist_w, res_dist = {}, {}, {}, {"contracted_to_1": 0, "uncontracted": 0, "partial": 0}
    nsettings = 0
    for i, (nw, sets, toks) in enumerate(cases):
        il = impl[i] if i < len(impl) else "<no output>"
        ml = model[i] if i < len(model) else "<no output>"
        n, span, depth = tree_stats(toks)
        b = "1" if n == 1 else "2-9" if n < 10 else "10-49" if n < 50 else "50-199" if n < 200 else "200+"
        dist_size[b] = dist_size.get(b, 0) + 1
        dist_depth[depth] = dist_depth.get(depth, 0) + 1
        dist_w[nw] = dist_w.get(nw, 0) + 1
        nsettings += len(sets)
        for (A, st, evs) in split_impl(il):
            a = parse_A(A)
            if a.get("mat") == "1":
                res_dist["contracted_to_1"] += 1
            elif st and a.get("mat") == st.get("dagnodes"):
                res_dist["uncontracted"] += 1
            else:
                res_dist["partial"] += 1
        o = oracle_case(sets, il, full_oc=oc, full_end=fe)
        if o and o[1]:
            known.append((lines[i], il, o[0]))
        elif o:
            failing.append((lines[i], il, o[0]))
        d = correspondence(sets, il, ml)
        if d:
            diffs.append((lines[i], il, ml, d))
    ctx.cov["correspondence"] = {
        "cases": len(cases), "recordings": nsettings, "disagreements": len(diffs), "oracle_failures": len(failing),
        "library_variant": {"other_cont_counted": oc, "end_edges_of_contracted_sections_reported": fe},
        "cases_showing_finding_%s" % KNOWN_ID: len(known),
        "input_distribution": {"intervals": dist_size, "task_depth": dist_depth, "workers": dist_w},
        "impl_result_distribution": res_dist, "impl_exit": rc1, "model_exit": rc2}
    ctx.cov["evaluations"] = nsettings
    ctx.cov["distinct_nontrivial"] = len(set(" ".join(t) for _, _, t in cases if tree_stats(t)[0] > 1))
    for i in (0, len(cases) // 2, len(cases) - 1):
        if 0 <= i < len(cases):
            ctx.cov["samples"].append({"case": lines[i][:600], "impl": (impl[i] if i < len(impl) else None or "")[:600],
                                       "model": (model[i] if i < len(model) else None or "")[:600]})
    ctx.cov["trusted_base"] += [
        "extraction: ExtrOcamlBasic only; ocaml/driver_C18.ml (parser of the case language, printing), ocaml/zio.ml",
        "harness/c18_sim.c: serial simulator of multi-worker executions on the dr_*__ entry points, virtual clock through the "
        "MYTH_VERIF hook g_dr_verif_clock, hooks of dr_options as interval stream, .stat parsed back",
        "tools/props/c18.py: generator and the Python oracle (explicit DAG rebuilt from the hook stream)",
        "modelled, not verified: the instrumentation state machine that builds the tree from the calls (checked only by the "
        "correspondence run), 64-bit wrap of clock sums, est / t_ready / counters fields, dr_check debug assertions"]
    listed = any(f.get("id") == KNOWN_ID for f in vlib.known_findings("C18"))
    if probe_msgs:
        ctx.notes.append("finding %s present (model branch oc=%s fe=%s, oracle guarded for the affected edge kinds); "
                         "also seen on %d generated case(s)" % (KNOWN_ID, oc, fe, len(known)))
        if listed:
            ctx.known("%s: .stat edge totals depend on contraction: %s" % (KNOWN_ID, "; ".join(probe_msgs)))
        else:
            ctx.violation("oracle", "edge totals of the .stat report depend on contraction: " + "; ".join(probe_msgs),
                          {"case": case_line(2, W_SETS, (W_OTHER if oc is False else W_END).split()[1:]), "observed": "; ".join(probe_msgs),
                           "expected": "the same edge totals by kind with and without contraction (property C18)",
                           "level": "profiler public instrumentation API"}, found=True)
    elif listed:
        ctx.notes.append("finding %s is listed but no longer reproduces: full-strength oracle and the repaired model branch used" % KNOWN_ID)
    if failing:
        c, o, msg = min(failing, key=lambda f: len(f[0]))
        ctx.violation("oracle", msg, {"case": c, "observed": o[:4000], "expected": "see property C18: " + msg,
                                      "level": "profiler public instrumentation API", "all_failing": [f[2] for f in failing[:20]]}, found=True)
    elif diffs:
        found = search_failing(ctx, exe, drv) if search else None
        if found:
            c, o, msg = found
            ctx.violation("oracle", msg, {"case": c, "observed": o[:4000], "expected": "see property C18: " + msg,
                                          "level": "profiler public instrumentation API (found by the search after a correspondence break)"},
                          found=True)
        else:
            c, il, ml, d = min(diffs, key=lambda f: len(f[0]))
            ctx.violation("correspondence", "model and implementation disagree on %d case(s); first: %s" % (len(diffs), d[0][:300]),
                          {"theorem_or_correspondence": "correspondence Dag/DagRecordModel.v <-> src/profiler/dag_recorder_inl.h",
                           "case": c, "observed": il[:4000], "expected": ml[:4000], "all": [x[3][0] for x in diffs[:20]]}, found=False)
    if broken:
        found = None
        if not failing and not diffs and search:
            found = search_failing(ctx, exe, drv)
        if found:
            c, o, msg = found
            ctx.violation("oracle", msg, {"case": c, "observed": o[:4000], "expected": msg}, found=True)
        else:
            ctx.violation("proof", "theorem(s) no longer check: " + ", ".join(broken),
                          {"theorem_or_correspondence": ", ".join(broken), "log": getattr(ctx, "proof_log", log[-3000:])}, found=False)
    return ctx.finish(assumptions=[
        "interval lengths are non-negative (the clock does not run backwards) for the critical-path theorems",
        "sums of 64-bit clock differences do not wrap",
        "the execution is well nested: task ::= (section | other)* end, section ::= (section | create task | other)* wait",
        "finding C18-stat-edges-lost: while it is present (probed on every run) the end / other_cont edge totals of the .stat "
        "report are only required not to exceed the uncontracted DAG's and to be exact when nothing is contracted "
        "(C18_edges_partial, C18_stat_edges_partial); once repaired the full-strength oracle and C18_edges / C18_stat_edges apply"])


def search_failing(ctx, exe, drv):
    """after a correspondence break: look for an input on which the property itself fails"""
    oc, fe, _ = probe(exe, os.path.join(ctx.dir, "run"))
    cases = make_cases(ctx, 150, [0, 0, 1, 1, 2])
    lines = [case_line(nw, sets, toks) for nw, sets, toks in cases]
    impl, rc, raw = vlib.run_lines([exe, os.path.join(ctx.dir, "run")], lines, timeout=900)
    best = None
    for i, (nw, sets, toks) in enumerate(cases):
        il = impl[i] if i < len(impl) else "<no output>"
        o = oracle_case(sets, il, full_oc=oc, full_end=fe)
        if o and not o[1]:
            if best is None or len(lines[i]) < len(best[0]):
                best = (lines[i], il, o[0])
    return best


def run(ctx):
    broken, log = ctx.prove("Properties_C18.v", "Properties_C18")
    exe, drv = build(ctx)
    cases = corpus_cases(ctx)
    if ctx.thorough:
        cases += make_cases(ctx, 2500, [0, 1, 1, 2, 2, 2, 3])
    else:
        cases += make_cases(ctx, 380, [0, 1, 1, 2, 2, 2])
    return judge(ctx, cases, exe, drv, broken, log)


def replay(ctx, path):
    body = json.load(open(path))
    exe, drv = build(ctx)
    if "case" not in body:
        print("no case in replay file (broken obligation: %s)" % body.get("theorem_or_correspondence"))
        return 0
    c = body["case"]
    oc, fe, msgs = probe(exe, os.path.join(ctx.dir, "run"))
    print("library variant: other_cont counted=%s, end edges of contracted sections reported=%s" % (oc, fe))
    impl, model, _, _ = run_cases(exe, drv, [c], os.path.join(ctx.dir, "run"), (oc, fe))
    w = c.split()
    nset = int(w[1])
    sets = [("s%d" % k,) + tuple(int(x) for x in w[2 + 6 * k: 8 + 6 * k]) for k in range(nset)]
    print("case:  ", c)
    for k, seg in enumerate((impl[0] if impl else "").split(" | ")):
        print("impl  [%s]: %s" % (sets[k][0] if k < len(sets) else "?", seg[:1500]))
    print("model: ", model[0] if model else None)
    print("oracle:", oracle_case(sets, impl[0] if impl else "<no output>", full_oc=oc, full_end=fe))
    print("correspondence:", correspondence(sets, impl[0] if impl else "", model[0] if model else ""))
    return 0
