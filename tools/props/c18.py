"""C18 — DAG Recorder totals do not depend on how the DAG was contracted (DESIGN.md section 4, C18).

prove -> build (harnesses + profiler sources of the CURRENT tree; extracted model) -> generate timed
task trees -> record them under every contraction setting and three driving orders, diff against the
extracted model -> independent oracle on the interval stream delivered by the recorder's hooks, itself
compared with what the generated tree says must have been recorded -> a real MassiveThreads / mtbb
program recorded on 1, 2, 4 workers -> coverage gates (every contraction policy fired, every incoming
edge kind seen under every order).
"""
import glob, json, os, shutil, subprocess
import vlib

VF = ["Dag/DagTreeModel.v", "Dag/DagRecordModel.v", "Dag/DagProofs.v"]
KNOWN_ID = "C18-stat-edges-lost"
LIST_ID = "C18-stat-matrix-list-mode"
W_LIST = "4 T S c 1 3 0 T e 3 6 3 w 3 5 0 e 6 7 0"      # workers 0 and 3 of 4
CMAX_DEFAULT = 1 << 60          # dr_options_default_values.collapse_max of the pinned tree
PRUNE_DEFAULT = 100000
EK = ["end", "create", "create_cont", "wait_cont", "other_cont"]
EKL = {"E": "end", "C": "create", "K": "create_cont", "W": "wait_cont", "O": "other_cont"}
ORDERS = {0: "work-first", 1: "help-first"}


# ------------------------------------------------------------------------------------------
# build
# ------------------------------------------------------------------------------------------
def build(ctx):
    pdir = os.path.join(vlib.REPO, "src", "profiler")
    srcs = sorted(glob.glob(os.path.join(pdir, "*.c")))
    if not srcs:
        raise vlib.BuildError("no profiler sources in " + pdir)
    sim = os.path.join(vlib.VERIF, "harness", "c18_sim.c")
    real = os.path.join(vlib.VERIF, "harness", "c18_real.cc")
    flags = ["-O0", "-g", "-w", "-DMYTH_VERIF", "-I" + pdir]
    lib = vlib.build_lib()
    rflags = vlib.lib_cflags() + ["-O0", "-g", "-std=c++11", "-DTO_MTHREAD_NATIVE", "-I" + pdir]
    key = vlib.sha(vlib.repo_src_hash(os.path.join("src", "profiler")), vlib.repo_src_hash(os.path.join("src", "mtbb")),
                   vlib.file_sha(sim), vlib.file_sha(real), vlib.file_sha(lib), " ".join(flags), " ".join(rflags))[:16]
    d = os.path.join(vlib.BUILD, "C18", "bin", key)
    exe, rexe = os.path.join(d, "c18_sim"), os.path.join(d, "c18_real")
    with vlib.Lock("c18-" + key):
        if not (os.path.exists(exe) and os.path.exists(rexe)):
            os.makedirs(d, exist_ok=True)
            procs, objs = [], []
            for sfile in srcs:           # the recorder's translation units are C; the real program is C++
                o = os.path.join(d, os.path.basename(sfile)[:-2] + ".o")
                objs.append(o)
                procs.append((sfile, subprocess.Popen(["gcc"] + flags + ["-c", sfile, "-o", o],
                                                      stdout=subprocess.PIPE, stderr=subprocess.STDOUT, text=True)))
            errs = []
            for sfile, pr in procs:
                out, _ = pr.communicate()
                if pr.returncode != 0:
                    errs.append(sfile + ":\n" + out[-1500:])
            if errs:
                raise vlib.BuildError("profiler sources do not compile:\n" + "\n".join(errs))
            vlib.cc(exe + ".tmp", [sim] + objs, flags=flags, libs=["-lpthread"])
            vlib.cc(rexe + ".tmp", [real], flags=rflags, libs=objs + [lib, "-lpthread", "-ldl", "-lrt"], cxx=True)
            os.rename(exe + ".tmp", exe)
            os.rename(rexe + ".tmp", rexe)
            vlib.prune_cache(os.path.join(vlib.BUILD, "C18", "bin"), keep=4)
    drv = vlib.build_driver("C18", "Extract_C18.v", "driver_C18.ml", VF[:2])
    ctx.real_exe = rexe
    return exe, drv


# ------------------------------------------------------------------------------------------
# generator: a random fork-join program, its "parallel" timing and its worker assignment
# ------------------------------------------------------------------------------------------
class Gen:
    def __init__(self, r, maxdepth, fan, nw, budget, sticky, p_other, zero_dur, wset=None):
        self.r, self.maxdepth, self.fan, self.nw = r, maxdepth, fan, nw
        self.wset = wset or list(range(nw))     # the workers that take part (may be a sparse subset)
        self.budget, self.sticky, self.p_other, self.zero_dur = budget, sticky, p_other, zero_dur

    # structure: ('T', items) ; ('S'|'B', items) ; ('o',) ; ('c', task)
    def task(self, d):
        r = self.r
        items = []
        n = 0 if self.budget <= 0 else r.choice([0, 1, 1, 1, 2, 2, 3]) if d > 0 else r.choice([0, 1, 1, 2, 2, 3, 4])
        if d == self.maxdepth and d > 0 and r.chance(1, 2):
            n = 0
        if d == 0 and n == 0 and r.chance(11, 12):
            n = r.rng(1, 3)
        for _ in range(n):
            if r.chance(self.p_other, 10):
                items.append(('o',)); self.budget -= 1
            else:
                items.append(self.section(d, 0))
        self.budget -= 1
        return ('T', items)

    def section(self, d, nest):
        r = self.r
        tag = 'B' if r.chance(1, 3) else 'S'
        items = []
        n = 0 if self.budget <= 0 else r.rng(0, self.fan)
        if d == 0 and nest == 0 and self.maxdepth > 0 and n == 0 and self.budget > 0 and r.chance(3, 4):
            n = 1
        for k in range(n):
            x = r.below(10)
            if d == 0 and nest == 0 and k == 0 and self.maxdepth > 0 and r.chance(3, 4):
                x = 9
            if x < self.p_other:
                items.append(('o',)); self.budget -= 1
            elif x < self.p_other + 1 and nest < 2:
                items.append(self.section(d, nest + 1))
            elif d < self.maxdepth:
                items.append(('c', self.task(d + 1))); self.budget -= 1
            else:
                items.append(('o',)); self.budget -= 1
        self.budget -= 1
        return (tag, items)

    def dur(self):
        r = self.r
        if r.chance(self.zero_dur, 10):
            return 0
        return r.choice([1, 1, 2, 3, 5, 8, 13, r.rng(1, 40), r.rng(1, 400)])

    def gap(self):
        return self.r.choice([0, 0, 0, 1, 1, 2, 5])

    def nextw(self, w):
        return w if self.r.below(100) < self.sticky else self.r.choice(self.wset)

    # timing: out = token list; returns (end time of the task, worker of its last interval)
    def emit_task(self, t, start, w, out):
        out.append('T')
        now, cw = start, w
        for it in t[1]:
            if it[0] == 'o':
                now, cw = self.emit_leaf('o', now, cw, out)
            else:
                now, cw = self.emit_section(it, now, cw, out)
        e = now + self.dur()
        out += ['e', str(now), str(e), str(cw)]
        return e

    def emit_leaf(self, tag, now, cw, out):
        e = now + self.dur()
        out += [tag, str(now), str(e), str(cw)]
        return e + self.gap(), self.nextw(cw)

    def emit_section(self, s, now, cw, out):
        out.append(s[0])
        child_end = 0
        for it in s[1]:
            if it[0] == 'o':
                now, cw = self.emit_leaf('o', now, cw, out)
            elif it[0] == 'c':
                e = now + self.dur()
                out += ['c', str(now), str(e), str(cw)]
                ce = self.emit_task(it[1], e + self.gap(), self.nextw(cw), out)
                child_end = max(child_end, ce)
                now, cw = e + self.gap(), self.nextw(cw)
            else:
                now, cw = self.emit_section(it, now, cw, out)
        e = now + self.dur()
        out += ['w', str(now), str(e), str(cw)]
        return max(e, child_end) + self.gap(), self.nextw(cw)


def worker_set(r, nw):
    """the workers that take part in the execution: all of them, or a sparse subset of 0..nw-1 (the
    recorder is told nw workers and keeps its per-worker state in an array indexed by worker id)"""
    x = r.below(10)
    if x < 5 or nw == 1:
        return list(range(nw))
    if x < 7 and nw >= 3:
        return r.choice([[0, nw - 1], [nw - 2], [1, nw - 1], [nw - 1]])
    ws = [w for w in range(nw) if r.chance(1, 2)]
    return ws or [r.below(nw)]


def gen_tree(r, size_class):
    """returns (nw, tree token list)"""
    nw = r.rng(1, 8)
    maxdepth = r.choice([0, 1, 2, 3, 3, 4, 4, 5])
    fan = r.choice([0, 1, 2, 2, 3, 3, 4, 6])
    budget = {0: 12, 1: 60, 2: 250, 3: 1200}[size_class]
    sticky = r.choice([100, 100, 95, 80, 50, 0])
    wset = worker_set(r, nw)
    g = Gen(r, maxdepth, fan, nw, budget, sticky, p_other=r.choice([0, 0, 1, 2, 4]), zero_dur=r.choice([0, 1, 3, 10]), wset=wset)
    t = g.task(0)
    out = []
    g.emit_task(t, r.choice([1, 1, 7, 1000, 1 << 40]), r.choice(wset), out)
    return nw, out


def tree_stats(toks):
    """(number of intervals, total span, depth) straight from the token list"""
    n, lo, hi, d, md = 0, None, 0, 0, 0
    i = 0
    while i < len(toks):
        t = toks[i]
        if t in ('o', 'c', 'w', 'e'):
            s, e = int(toks[i + 1]), int(toks[i + 2])
            lo = s if lo is None else min(lo, s)
            hi = max(hi, e)
            n += 1
            i += 4
            if t == 'e':
                d -= 1
        else:
            if t == 'T':
                d += 1
                md = max(md, d)
            i += 1
    return n, (hi - (lo or 0)), md


def settings_for(r, toks):
    """contraction settings for one tree: (name, umin, cmax, nct, prune, cmc, chk, order, array).
    chk >= 10: the harness keeps the library's default thresholds (only totals are compared).
    order: 0 work-first, 1 help-first, >= 2 seeded random interleaving of the tasks.
    array: dr_options.worker_specific_state_array (0 = the library's default: state per OS thread,
    the simulator then runs every worker on a thread of its own)."""
    n, span, _ = tree_stats(toks)
    rnd = lambda: r.choice([0, 1, r.rng(2, 1 << 20)])
    arr = lambda: 0 if r.chance(1, 4) else 1
    S = [("none", 0, 0, 0, PRUNE_DEFAULT, 0, 0, 0, 1),
         ("none-hf", 0, 0, 0, PRUNE_DEFAULT, 0, 0, 1, 1),
         ("none-list", 0, 0, 0, PRUNE_DEFAULT, 0, 0, rnd(), 0),
         ("none-chk", 0, 0, 0, PRUNE_DEFAULT, 0, 1, r.rng(2, 1 << 20), 1),
         ("defaults", 0, CMAX_DEFAULT, 0, PRUNE_DEFAULT, 0, 10, rnd(), arr()),
         ("cmax-inf-chk", 0, 1 << 62, 0, PRUNE_DEFAULT, 0, 1, 1, 1),
         ("all", 1 << 62, 0, 0, PRUNE_DEFAULT, 0, 0, rnd(), arr())]
    S.append(("span", r.choice([0, 0, 1, r.rng(0, span + 1), r.rng(0, span // 4 + 1)]),
              r.choice([0, 1, r.rng(0, span + 1), r.rng(0, span // 2 + 1), span + 1]), 0, PRUNE_DEFAULT, 0, 0, rnd(), arr()))
    S.append(("umin", r.choice([1, 2, r.rng(1, span + 1), r.rng(1, span // 4 + 1), r.rng(1, span // 16 + 1)]), 0, 0, PRUNE_DEFAULT, 0, 0,
              rnd(), arr()))
    S.append(("cmax-chk", 0, r.choice([1, 2, r.rng(0, span + 1), r.rng(0, span // 3 + 1)]), 0, PRUNE_DEFAULT, 0, 1, rnd(), 1))
    S.append(("count", 0, 0, 0, PRUNE_DEFAULT, r.choice([1, 2, 3, 5, 10, r.rng(1, n + 2), n, n + 1]), 0, rnd(), arr()))
    S.append(("count2", r.rng(0, 3), CMAX_DEFAULT, 0, PRUNE_DEFAULT, r.choice([2, 4, 8, r.rng(1, n + 2)]), 0, rnd(), 1))
    S.append(("target", 0, 0, r.choice([1, 2, 3, 5, r.rng(1, 2 * n + 2), r.rng(1, n + 1)]), r.choice([0, 0, 1, 3, 10, r.rng(0, 2 * n + 1)]), 0,
              r.choice([0, 1]), rnd(), 1))
    S.append(("target2", r.rng(0, 5), CMAX_DEFAULT, r.choice([1, 4, 16, r.rng(1, 2 * n + 2)]), r.choice([0, 5, 30]), r.choice([0, 3]), 0,
              rnd(), arr()))
    S.append(("target3", 0, 0, r.choice([r.rng(2, n + 2), r.rng(n // 4 + 1, n + 2), r.rng(n // 2 + 1, 2 * n + 2)]), r.choice([0, r.rng(0, n + 1)]),
              0, 0, rnd(), 1))
    return S


def policy_class(s):
    """which contraction rule of dr_summarize_section_or_task a setting exercises"""
    name, umin, cmax, nct, prune, cmc, chk, order, array = s
    if nct:
        return "target(node_count_target/prune_threshold)"
    if cmc:
        return "count(collapse_max_count)"
    if umin and cmax:
        return "span(uncollapse_min+collapse_max)"
    if umin:
        return "span(uncollapse_min)"
    if cmax:
        return "span(collapse_max)"
    return "none"


def case_line(nw, sets, toks):
    return " ".join([str(nw), str(len(sets))] + ["%d %d %d %d %d %d %d %d" % s[1:] for s in sets] + toks)


# ------------------------------------------------------------------------------------------
# what the generated tree says must be recorded (from the INPUT tokens only)
# ------------------------------------------------------------------------------------------
def expected_from_tokens(toks):
    """per-task event lists exactly as the recorder's hooks must deliver them (tasks numbered in program
    order), and the totals by plain counting.  Mirrors only the calling convention of the simulator:
    a section is opened by dr_begin_section unless it sits directly in a task, is written 'S' and starts
    with a create (or is empty), in which case the first create / the wait opens it."""
    pos = [0]
    tasks = []
    tot = {"work": 0, "c": 0, "w": 0, "o": 0, "e": 0}

    def leaf():
        s, e, w = int(toks[pos[0]]), int(toks[pos[0] + 1]), int(toks[pos[0] + 2])
        pos[0] += 3
        return s, e, w

    def task():                      # after 'T'; returns (task id, end time of its end interval)
        tid = len(tasks)
        tasks.append(["T@%d" % tid])
        st = {"pend": 0, "last": "C"}          # begin_section calls pending, kind of the incoming edge

        def emit(kind, lf, extra=""):
            tasks[tid].extend(["B@%d" % tid] * st["pend"])
            st["pend"] = 0
            tasks[tid].append("%s:%d:%d:%d:%s@%d%s" % (kind, lf[0], lf[1], lf[2], st["last"], tid, extra))
            tot["work"] += lf[1] - lf[0]
            tot[kind] += 1

        def section(tag, under_task):
            # look ahead: first token of the section body
            first = toks[pos[0]]
            explicit = tag == "B" or not under_task or first not in ("c", "w")
            if explicit:
                st["pend"] += 1
            child_end = None
            while True:
                t = toks[pos[0]]; pos[0] += 1
                if t == "w":
                    lf = leaf()
                    emit("w", lf)
                    tasks[tid].append("rw@%d" % tid)
                    st["last"] = "E" if (child_end is not None and child_end > lf[1]) else "W"
                    return
                if t == "o":
                    emit("o", leaf()); tasks[tid].append("ro@%d" % tid); st["last"] = "O"
                elif t == "c":
                    lf = leaf()
                    assert toks[pos[0]] == "T"; pos[0] += 1
                    emit("c", lf, ">%d" % len(tasks))      # tasks are numbered in program order
                    cid, cend = task()
                    child_end = cend if child_end is None else max(child_end, cend)
                    tasks[tid].append("rc@%d" % tid); st["last"] = "K"
                else:
                    section(t, False)

        while True:
            t = toks[pos[0]]; pos[0] += 1
            if t == "e":
                lf = leaf()
                emit("e", lf)
                return tid, lf[1]
            if t == "o":
                emit("o", leaf()); tasks[tid].append("ro@%d" % tid); st["last"] = "O"
            else:
                section(t, True)

    assert toks[0] == "T"
    pos[0] = 1
    task()
    nodes = [tot["c"], tot["w"], tot["o"], tot["e"]]
    return tasks, {"work": tot["work"], "nodes": nodes, "edges": [tot["c"], tot["c"], tot["c"], tot["w"], tot["o"]],
                   "n": sum(nodes)}


# ------------------------------------------------------------------------------------------
# independent oracle: the property itself, from the raw interval stream of the hooks
# ------------------------------------------------------------------------------------------
def split_events(evs):
    """hook events -> {task id: [events]} (every event is tagged with the task the simulator was driving)"""
    per = {}
    for tok in evs:
        tid = int(tok.split("@")[1].split(">")[0])
        per.setdefault(tid, []).append(tok)
    return per


def oracle_dag(evs):
    """rebuild the explicit DAG from the hook events, whatever the order in which the tasks were driven;
    returns dict(work, crit, nodes[4], edges[5], n, ek_errors, ek_seen)"""
    per = split_events(evs)
    nodes = {"c": 0, "w": 0, "o": 0, "e": 0}
    edges = dict.fromkeys(EK, 0)
    dist = []
    st = {"work": 0}
    ek_errors, ek_seen = [], {}
    visited = set()

    def run_task(tid, ins):
        """returns (node id of the end interval, its end time)"""
        if tid in visited or tid not in per:
            raise ValueError("task %d created twice or never started" % tid)
        visited.add(tid)
        prev, want = ins, "C"
        secs = []
        for tok in per[tid]:
            head = tok.split("@")[0]
            if head == "T" or head in ("rc", "rw", "ro"):
                continue
            if head == "B":
                secs.append([])
                continue
            k, s, e, w, ek = head.split(":")
            s, e = int(s), int(e)
            v = len(dist)
            base = 0
            for (u, kind) in prev:
                edges[kind] += 1
                base = max(base, dist[u])
            dist.append(base + (e - s))
            st["work"] += e - s
            nodes[k] += 1
            ek_seen[ek] = ek_seen.get(ek, 0) + 1
            if ek != want:
                ek_errors.append("interval %s of task %d: incoming edge recorded as %s, expected %s"
                                 % (head, tid, EKL.get(ek, ek), EKL[want]))
            if k == "o":
                prev, want = [(v, "other_cont")], "O"
            elif k == "c":
                if not secs:
                    secs.append([])
                child = int(tok.split(">")[1])
                cend = run_task(child, [(v, "create")])
                secs[-1].append(cend)
                prev, want = [(v, "create_cont")], "K"
            elif k == "w":
                if not secs:
                    secs.append([])
                sec = secs.pop()
                prev = [(v, "wait_cont")] + [(c[0], "end") for c in sec]
                want = "E" if any(c[1] > e for c in sec) else "W"
            elif k == "e":
                return (v, e)
            else:
                raise ValueError("bad interval kind " + k)
        raise ValueError("task %d has no end interval" % tid)

    run_task(0, [])
    if visited != set(per):
        raise ValueError("events of tasks that nobody created: %s" % sorted(set(per) - visited)[:5])
    return {"work": st["work"], "crit": max(dist) if dist else 0, "nodes": [nodes[x] for x in "cwoe"],
            "edges": [edges[x] for x in EK], "n": len(dist), "ek_errors": ek_errors, "ek_seen": ek_seen}


def parse_A(seg):
    """'rc=0 t1=.. tinf=.. nodes=a,b,c,d edges=.. cur=.. mat=..' -> dict (rc only if the run died)"""
    d = {}
    for w in seg.split():
        if "=" in w:
            k, v = w.split("=", 1)
            d[k] = v
    return d


def split_impl(line):
    """impl line -> list of (A-text, stat dict, events, cov dict) per setting"""
    res = []
    for seg in line.split(" | "):
        parts = seg.split(" ; ")
        A = parts[0].strip()
        st = parse_A(parts[1]) if len(parts) > 1 else {}
        evs = parts[2].split()[1:] if len(parts) > 2 else []
        cov = parse_A(parts[3]) if len(parts) > 3 else {}
        res.append((A, st, evs, cov))
    return res


def ints(s):
    return [int(x) for x in s.split(",")]


LIST_NOTE = "list mode with a sparse set of participating workers: .stat edge matrices mis-indexed (candidate defect C18-stat-matrix-list-mode)"


def oracle_case(sets, impl_line, full_oc=False, full_end=False, toks=None, nw=None, list_guard=False):
    """None if the property holds on this case's implementation output, else (message, known).
    full_oc / full_end: the library was probed to count other_cont / end edges completely, so these
    kinds are demanded exactly too (otherwise they are the listed finding: may be lost, never invented).
    toks: the generated tree; the recorder's stream is compared with what the tree says must be recorded."""
    segs = split_impl(impl_line)
    if len(segs) != len(sets):
        return ("implementation produced %d results for %d settings: %s" % (len(segs), len(sets), impl_line[:200]), False)
    others_lost = None
    exp_tasks, exp_tot = expected_from_tokens(toks) if toks is not None else (None, None)
    used = sorted(set(int(toks[j + 3]) for j in range(len(toks)) if toks[j] in ("o", "c", "w", "e"))) if toks is not None else []
    for sfull, (A, st, evs, cov) in zip(sets, segs):
        name = sfull[0]
        # defect C18-stat-matrix-list-mode (repaired by e76d04b): the report sized its worker x worker edge matrices by the
        # NUMBER of participating workers but indexed them by worker id.  list_guard is off: the repaired behaviour is required.
        sparse_list = list_guard and len(sfull) > 8 and sfull[8] == 0 and used and max(used) > len(used)
        a = parse_A(A)
        if a.get("rc") != "0":
            if sparse_list and a.get("rc", "").startswith("sig"):
                others_lost = others_lost or LIST_NOTE
                continue
            return ("setting %s: the recording run died (%s)" % (name, A[:80]), False)
        if sparse_list and (not st or "sedges" not in st or not evs):
            others_lost = others_lost or LIST_NOTE      # the overrun of the report's matrices took the rest of the run with it
            continue
        # the stream the recorder delivered against the input
        if exp_tasks is not None:
            per = split_events(evs)
            if sorted(per) != list(range(len(exp_tasks))):
                return ("setting %s: the hooks reported %d tasks, the program has %d" % (name, len(per), len(exp_tasks)), False)
            for tid, want in enumerate(exp_tasks):
                if per[tid] != want:
                    k = next((i for i in range(min(len(want), len(per[tid]))) if want[i] != per[tid][i]), min(len(want), len(per[tid])))
                    return ("setting %s: task %d: the recorder's hooks delivered %s where the program did %s (event %d of %d/%d)"
                            % (name, tid, per[tid][k] if k < len(per[tid]) else "nothing", want[k] if k < len(want) else "nothing",
                               k, len(per[tid]), len(want)), False)
        try:
            o = oracle_dag(evs)
        except Exception as e:      # malformed stream
            return ("setting %s: hook stream not well formed (%s)" % (name, e), False)
        if o["ek_errors"]:
            return ("setting %s: %s" % (name, o["ek_errors"][0]), False)
        if exp_tot is not None:
            for key in ("work", "nodes", "edges", "n"):
                if o[key] != exp_tot[key]:
                    return ("setting %s: the DAG rebuilt from the recorder's stream has %s=%s, the program has %s" % (name, key, o[key], exp_tot[key]), False)
        t1, tinf = int(a["t1"]), int(a["tinf"])
        nodes, edges = ints(a["nodes"]), ints(a["edges"])
        if t1 != o["work"]:
            return ("setting %s: reported work t_1=%d, sum of interval lengths=%d" % (name, t1, o["work"]), False)
        if tinf != o["crit"]:
            return ("setting %s: reported critical path t_inf=%d, longest dependency chain=%d" % (name, tinf, o["crit"]), False)
        if tinf > t1:
            return ("setting %s: critical path %d exceeds work %d" % (name, tinf, t1), False)
        if nodes != o["nodes"]:
            return ("setting %s: reported interval counts (create,wait,other,end)=%s, in the stream %s" % (name, nodes, o["nodes"]), False)
        if edges[:4] != o["edges"][:4]:
            return ("setting %s: reported edge counts (end,create,create_cont,wait_cont)=%s, in the uncontracted DAG %s"
                    % (name, edges[:4], o["edges"][:4]), False)
        # the generated report
        if not st or "work" not in st:
            return ("setting %s: no .stat report" % name, False)
        if int(st["work"]) != o["work"] or int(st["tinf"]) != o["crit"]:
            return ("setting %s: .stat work/T_inf = %s/%s, expected %d/%d" % (name, st["work"], st["tinf"], o["work"], o["crit"]), False)
        if [int(st["cr"]), int(st["wt"]), int(st["en"])] != [o["nodes"][0], o["nodes"][1], o["nodes"][3]]:
            return ("setting %s: .stat create/wait/end = %s/%s/%s, in the stream %s" % (name, st["cr"], st["wt"], st["en"], o["nodes"]), False)
        if int(st["dagnodes"]) != o["n"] + o["nodes"][1] + o["nodes"][0] + 1:
            return ("setting %s: .stat dag nodes = %s, expected %d" % (name, st["dagnodes"], o["n"] + o["nodes"][1] + o["nodes"][0] + 1), False)
        se = ints(st["sedges"])
        if sparse_list:
            if se != o["edges"]:
                others_lost = others_lost or LIST_NOTE
            continue
        if min(se) < 0:
            return ("setting %s: the edge matrices of the .stat report cannot be read with its own n_workers (P) = %s"
                    % (name, cov.get("P")), False)
        if se[1:4] != o["edges"][1:4]:
            return ("setting %s: .stat edge totals (create,create_cont,wait_cont)=%s, in the uncontracted DAG %s (n_workers (P) = %s, workers told to dr_start: %s)"
                    % (name, se[1:4], o["edges"][1:4], cov.get("P"), nw), False)
        # finding C18-stat-edges-lost (notes/C18.md), guarded exactly like the _partial theorems while it is present:
        #  - other_cont: dr_accumulate_stats never counted other -> next;
        #  - end: the end edges of the tasks created in a contracted *section* were attributed to its parent's summary.
        # The other kinds are exact; these two may only be lost, never invented, and never when nothing is contracted.
        if edges[4] != (o["edges"][4] if full_oc else 0):
            return ("setting %s: root other_cont count %d, expected %d" % (name, edges[4], o["edges"][4] if full_oc else 0), False)
        for k, full in ((0, full_end), (4, full_oc)):
            if full and se[k] != o["edges"][k]:
                return ("setting %s: .stat reports %d %s edges, the uncontracted DAG has %d (n_workers (P) = %s, workers told to dr_start: %s)"
                        % (name, se[k], EK[k], o["edges"][k], cov.get("P"), nw), False)
            if se[k] > o["edges"][k]:
                return ("setting %s: .stat reports %d %s edges, the DAG has only %d" % (name, se[k], EK[k], o["edges"][k]), False)
            if int(st["mat"]) == int(st["dagnodes"]) and se[k] != o["edges"][k]:
                return ("setting %s: nothing contracted, yet .stat %s edges = %d, the DAG has %d" % (name, EK[k], se[k], o["edges"][k]), False)
            if int(a["mat"]) == 1 and k == 0 and se[k] != o["edges"][k]:
                return ("setting %s: everything contracted, yet .stat end edges = %d, the DAG has %d" % (name, se[k], o["edges"][k]), False)
            if se[k] != o["edges"][k] and others_lost is None:
                others_lost = "setting %s: .stat reports %d %s edges, the uncontracted DAG has %d" % (name, se[k], EK[k], o["edges"][k])
    if others_lost:
        return (others_lost, True)
    return None


# ------------------------------------------------------------------------------------------
# model vs implementation
# ------------------------------------------------------------------------------------------
def totals_only(A):
    return " ".join(w for w in A.split() if not w.startswith(("cur=", "mat=")))


def correspondence(sets, impl_line, model_line, toks=None, list_guard=False):
    """list of messages where the extracted model and the implementation disagree"""
    bad = []
    used = sorted(set(int(toks[j + 3]) for j in range(len(toks)) if toks[j] in ("o", "c", "w", "e"))) if toks else []
    segs = split_impl(impl_line)
    mparts = model_line.split(" # ")
    msegs = mparts[0].split(" | ")
    if len(segs) != len(sets) or len(msegs) != len(sets):
        return ["different number of results: impl %d model %d settings %d" % (len(segs), len(msegs), len(sets))]
    isegs = impl_line.split(" | ")
    for s, iseg, M in zip(sets, isegs, msegs):
        A = " ; ".join(x.strip() for x in iseg.split(" ; ")[:2])
        M = " ; ".join(x.strip() for x in M.split(" ; ")[:2])
        guarded = list_guard and len(s) > 8 and s[8] == 0 and used and max(used) > len(used)   # candidate defect C18-stat-matrix-list-mode
        if guarded and A.startswith("rc=sig"):
            continue
        if s[6] >= 10:      # library defaults: the thresholds are not part of the model
            A, M = totals_only(A.split(" ; ")[0]), totals_only(M.split(" ; ")[0])
        elif guarded:
            A = " ".join(w for w in A.split() if not w.startswith("sedges="))
            M = " ".join(w for w in M.split() if not w.startswith("sedges="))
            if " ; " not in A:          # the overrun of the report's matrices took the rest of the run with it
                M = M.split(" ; ")[0]
        if A != M:
            bad.append("setting %s: impl [%s] model [%s]" % (s[0], A, M))
    # model-internal consistency (statements of the theorems, evaluated): totals under arbitrary
    # contraction choices equal the uncontracted ones; they equal the quantities of the explicit DAG
    if len(mparts) >= 3:
        spec = parse_A(mparts[1])
        none = parse_A(mparts[2])
        for extra in mparts[3:]:
            if totals_only(extra.replace("choice ", "").split(" ; ")[0]).strip() != totals_only(mparts[2].replace("none ", "")).strip():
                bad.append("model: totals under a contraction choice differ from the uncontracted ones")
        if spec.get("wf") != "1":
            bad.append("model: generated tree is not well nested")
        if spec.get("nonneg") == "1":
            if none.get("t1") != spec.get("work") or none.get("tinf") != spec.get("longest") or none.get("nodes") != spec.get("nodes"):
                bad.append("model: recorded totals differ from the explicit DAG: %s vs %s" % (mparts[2], mparts[1]))
    else:
        bad.append("model line malformed: " + model_line[:200])
    return bad


def run_cases(exe, drv, lines, workdir, variant=(False, False)):
    os.makedirs(workdir, exist_ok=True)
    impl, rc1, raw1 = vlib.run_lines([exe, workdir], lines, timeout=900)
    model, rc2, raw2 = vlib.run_lines([drv, "1" if variant[0] else "0", "1" if variant[1] else "0"], lines, timeout=900)
    return impl, model, rc1, rc2


# the two witnesses of finding C18-stat-edges-lost (known_findings.json); both use what a user gets
# without touching any option (collapse_max = 2^60) against the uncontracted run
W_END = "2 T S c 1 3 0 T e 3 6 0 w 3 5 0 e 6 7 1"
W_OTHER = "2 T S c 1 3 0 T o 3 4 1 e 4 6 1 w 3 5 0 e 6 7 0"
W_SETS = [("none", 0, 0, 0, PRUNE_DEFAULT, 0, 0, 0, 1), ("defaults", 0, CMAX_DEFAULT, 0, PRUNE_DEFAULT, 0, 10, 0, 1)]


def probe(exe, workdir):
    """which variant is the library?  returns (oc, fe, messages): oc = other_cont edges are counted by
    dr_accumulate_stats; fe = the report keeps the end edges of contracted sections"""
    os.makedirs(workdir, exist_ok=True)
    lines = [case_line(int(w.split()[0]), W_SETS, w.split()[1:]) for w in (W_END, W_OTHER)]
    impl, rc, raw = vlib.run_lines([exe, workdir], lines, timeout=120)
    msgs = []
    try:
        e_none, e_def = [ints(st["sedges"]) for (A, st, evs, cov) in split_impl(impl[0])]
        o_segs = split_impl(impl[1])
        o_root = ints(parse_A(o_segs[1][0])["edges"])
        o_none, o_def = [ints(st["sedges"]) for (A, st, evs, cov) in o_segs]
    except (KeyError, IndexError, ValueError):
        return False, False, ["probe could not be evaluated: " + raw[:300]]
    fe = e_def[0] == e_none[0] == 1
    oc = o_root[4] == 1 and o_def[4] == o_none[4] == 1
    if not fe:
        msgs.append("witness `%s`: .stat end-parent edges = %d uncontracted, %d with the default options" % (W_END, e_none[0], e_def[0]))
    if not oc:
        msgs.append("witness `%s`: .stat other-cont edges = %d uncontracted, %d with the default options (root summary: %d)"
                    % (W_OTHER, o_none[4], o_def[4], o_root[4]))
    return oc, fe, msgs


def probe_list(exe, workdir):
    """candidate defect C18-stat-matrix-list-mode: deterministic witness, workers 0 and 3 of 4, default (list) mode against
    array mode; returns (present, [(sedges, P) array, (sedges, P) list])"""
    lsets = [("none-array", 0, 0, 0, PRUNE_DEFAULT, 0, 0, 0, 1), ("none-list", 0, 0, 0, PRUNE_DEFAULT, 0, 0, 0, 0)]
    lw = W_LIST.split()
    limpl, _, _ = vlib.run_lines([exe, workdir], [case_line(int(lw[0]), lsets, lw[1:])], timeout=120)
    lsegs = split_impl(limpl[0]) if limpl else []
    lres = [(sg[1].get("sedges"), sg[3].get("P")) for sg in lsegs]
    return (len(lres) == 2 and lres[0][0] == "1,1,1,1,0" and lres[1][0] != lres[0][0]), lres


def make_cases(ctx, n, sizes):
    r = ctx.rng
    cases = []
    for i in range(n):
        nw, toks = gen_tree(r, r.choice(sizes))
        sets = settings_for(r, toks)
        cases.append((nw, sets, toks))
    return cases


def corpus_cases(ctx):
    cp = os.path.join(vlib.VERIF, "corpus", "C18", "cases.txt")
    res = []
    if os.path.exists(cp):
        for l in open(cp):
            l = l.strip()
            if not l or l.startswith("#"):
                continue
            w = l.split()
            nw, toks = int(w[0]), w[1:]
            res.append((nw, settings_for(ctx.rng, toks), toks))
    return res


# ------------------------------------------------------------------------------------------
# a real recording: harness/c18_real.cc on the real scheduler, real clock
# ------------------------------------------------------------------------------------------
REAL_N = 8
REAL_SETTINGS = [("none", 0, 0, 0, PRUNE_DEFAULT, 0), ("defaults", 0, CMAX_DEFAULT, 0, PRUNE_DEFAULT, 0),
                 ("all", 1 << 62, 0, 0, PRUNE_DEFAULT, 0), ("umin", 20000, 0, 0, PRUNE_DEFAULT, 0),
                 ("count", 0, 0, 0, PRUNE_DEFAULT, 12), ("target", 0, 0, 40, 0, 0), ("target-thr", 0, 0, 15, 100, 0)]


def fibv(n):
    a, b = 0, 1
    for _ in range(n):
        a, b = b, a + b
    return a


def read_stat(path):
    """(dict of the scalar lines, [sum of each of the five edge matrices], P) of a .stat file"""
    txt = open(path, errors="replace").read()
    d = {}
    for l in txt.split("\n"):
        if "=" in l and not l.startswith("***"):
            k, v = l.split("=", 1)
            d[k.strip()] = v.strip()
    P = int(d.get("n_workers (P)", "-1"))
    sums = []
    for h in ("end-parent edges:", "create-child edges:", "create-cont edges:", "wait-cont edges:", "other-cont edges:"):
        i = txt.find(h)
        if i < 0 or P < 0:
            sums.append(-1)
            continue
        nums = txt[i + len(h):].split()[:(P + 1) * (P + 1)]
        try:
            sums.append(sum(int(x) for x in nums) if len(nums) == (P + 1) * (P + 1) else -1)
        except ValueError:
            sums.append(-1)
    return d, sums, P


def real_run(rexe, workdir, n, setting, workers, array, tag, list_guard=False):
    """one real recording; returns (message or None, observation dict)"""
    name, umin, cmax, nct, prune, cmc = setting
    prefix = os.path.join(workdir, "real_%s_%d" % (tag, os.getpid()))
    cmd = [rexe, str(n), str(umin), str(cmax), str(nct), str(prune), str(cmc), str(array), prefix]
    env = dict(os.environ, MYTH_NUM_WORKERS=str(workers))
    for k in list(env):
        if k.startswith(("DAG_RECORDER", "DR_")):
            del env[k]
    rc, out = vlib.sh(cmd, timeout=60, env=env)
    what = "real recording fibx(%d), %d workers, setting %s, worker state %s" % (n, workers, name, "array" if array else "list")
    obs = {"cmd": " ".join(cmd[1:8]), "workers": workers, "setting": name, "rc": rc, "out": out[-400:]}
    try:
        if rc != 0:
            return what + ": the run died (rc=%s) %s" % (rc, out[-200:].strip()), obs
        line = [l for l in out.split("\n") if l.startswith("prog ")][-1]
        prog, root = [parse_A(x) for x in line.split(" ; ")]
        d, sums, P = read_stat(prefix + ".stat")
        os.unlink(prefix + ".stat")
    except (IndexError, OSError, ValueError) as e:
        return what + ": no usable output (%s) %s" % (e, out[-200:].strip()), obs
    c, w, o = int(prog["creates"]), int(prog["waits"]), int(prog["others"])
    obs.update({"prog": [c, w, o, int(prog["tasks"])], "root_nodes": root["nodes"], "root_edges": root["edges"], "stat_edges": sums,
                "mat": int(root["cur"]), "P": P})
    if int(prog["value"]) != fibv(n) or int(prog["tasks"]) != c:
        return what + ": the program itself computed value %s with %s tasks for %d creations" % (prog["value"], prog["tasks"], c), obs
    if ints(root["nodes"]) != [c, w, o, c + 1]:
        return what + ": root interval counts (create,wait,other,end)=%s, the program did %s" % (root["nodes"], [c, w, o, c + 1]), obs
    if ints(root["edges"]) != [c, c, c, w, o]:
        return what + ": root edge counts (end,create,create_cont,wait_cont,other_cont)=%s, the program's DAG has %s" % (root["edges"], [c, c, c, w, o]), obs
    obs["list_mode_sparse"] = (not array) and P < workers
    if sums != [c, c, c, w, o] and not (list_guard and obs["list_mode_sparse"]):     # guarded: candidate defect C18-stat-matrix-list-mode
        return what + ": .stat edge totals %s, the program's DAG has %s (n_workers (P) = %d)" % (sums, [c, c, c, w, o], P), obs
    if [int(d.get("create_task", -1)), int(d.get("wait_tasks", -1)), int(d.get("end_task", -1))] != [c, w, c + 1]:
        return what + ": .stat create/wait/end lines %s/%s/%s, the program did %d/%d/%d" % (
            d.get("create_task"), d.get("wait_tasks"), d.get("end_task"), c, w, c + 1), obs
    if int(d.get("dag nodes", -1)) != (2 * c + w + o + 1) + w + c + 1:
        return what + ": .stat dag nodes %s, expected %d" % (d.get("dag nodes"), (2 * c + w + o + 1) + w + c + 1), obs
    if int(d.get("work (T1)", -1)) != int(root["t1"]) or int(d.get("critical_path (T_inf)", -1)) != int(root["tinf"]):
        return what + ": .stat work/T_inf %s/%s, root summary %s/%s" % (d.get("work (T1)"), d.get("critical_path (T_inf)"), root["t1"], root["tinf"]), obs
    if int(root["tinf"]) > int(root["t1"]):
        return what + ": critical path %s exceeds work %s" % (root["tinf"], root["t1"]), obs
    if (array and P != workers) or not (1 <= P <= workers):
        return what + ": the report says n_workers (P) = %d" % P, obs
    obs["stat_edges_ok"] = sums == [c, c, c, w, o]
    return None, obs


def real_recordings(ctx, list_guard):
    rexe = ctx.real_exe
    workdir = os.path.join(ctx.dir, "run")
    os.makedirs(workdir, exist_ok=True)
    runs, fails, counts, mats = 0, [], set(), {}
    sparse, sparse_wrong = 0, 0
    k = 0
    for workers in (1, 2, 4):
        for st in REAL_SETTINGS:
            for array in ((0, 1) if ctx.thorough else (k % 2,)):
                k += 1
                msg, obs = real_run(rexe, workdir, REAL_N, st, workers, array, "%d" % k, list_guard)
                runs += 1
                if msg:
                    fails.append((msg, obs))
                if obs.get("list_mode_sparse"):
                    sparse += 1
                    sparse_wrong += not obs.get("stat_edges_ok", True)
                if "prog" in obs:
                    counts.add(tuple(obs["prog"]))
                    mats.setdefault(st[0], set()).add(obs["mat"])
    if not fails and len(counts) > 1:
        fails.append(("real recording: the program's own counts differ between runs: %s" % sorted(counts), {}))
    ctx.cov["real_recording"] = {
        "program": "harness/c18_real.cc fibx(%d): mtbb::task_group, nested groups tg1.run; tg2.run; tg2.wait; tg1.wait, "
                   "other intervals around myth_yield, public macro layer, real clock" % REAL_N,
        "runs": runs, "workers": [1, 2, 4], "settings": [s[0] for s in REAL_SETTINGS], "failures": len(fails),
        "program_counts(create,wait,other,tasks)": sorted(counts),
        "list_mode_runs_in_which_not_all_workers_took_part": sparse, "of_which_with_wrong_stat_edge_totals(guarded)": sparse_wrong,
        "materialised_nodes_seen_per_setting": {k: sorted(v) for k, v in mats.items()}}
    return fails


# ------------------------------------------------------------------------------------------
# judge
# ------------------------------------------------------------------------------------------
def judge(ctx, cases, exe, drv, broken, log, search=True):
    lines = [case_line(nw, sets, toks) for nw, sets, toks in cases]
    oc, fe, probe_msgs = probe(exe, os.path.join(ctx.dir, "run"))
    list_present, lres = probe_list(exe, os.path.join(ctx.dir, "run"))
    impl, model, rc1, rc2 = run_cases(exe, drv, lines, os.path.join(ctx.dir, "run"), (oc, fe))
    failing, known, diffs = [], [], []
    dist_size, dist_depth, dist_w, res_dist = {}, {}, {}, {"contracted_to_1": 0, "uncontracted": 0, "partial": 0}
    dist_wset = {"all workers": 0, "sparse subset": 0, "single worker": 0}
    policy = {}
    ek_order = {}
    list_recs = {"list_mode_recordings": 0, "of_which_with_sparse_worker_ids(max id > participants)": 0}
    nsettings = 0
    for i, (nw, sets, toks) in enumerate(cases):
        il = impl[i] if i < len(impl) else "<no output>"
        ml = model[i] if i < len(model) else "<no output>"
        n, span, depth = tree_stats(toks)
        b = "1" if n == 1 else "2-9" if n < 10 else "10-49" if n < 50 else "50-199" if n < 200 else "200+"
        dist_size[b] = dist_size.get(b, 0) + 1
        dist_depth[depth] = dist_depth.get(depth, 0) + 1
        dist_w[nw] = dist_w.get(nw, 0) + 1
        used = set(int(toks[j + 3]) for j in range(len(toks)) if toks[j] in ("o", "c", "w", "e"))
        dist_wset["single worker" if len(used) == 1 and nw == 1 else "all workers" if used == set(range(nw)) else "sparse subset"] += 1
        nsettings += len(sets)
        segs = split_impl(il)
        for s_, (A, st, evs, cov) in zip(sets, segs) if len(segs) == len(sets) else []:
            a = parse_A(A)
            if a.get("mat") == "1":
                res_dist["contracted_to_1"] += 1
            elif st and a.get("mat") == st.get("dagnodes"):
                res_dist["uncontracted"] += 1
            else:
                res_dist["partial"] += 1
            if s_[8] == 0:
                list_recs["list_mode_recordings"] += 1
                list_recs["of_which_with_sparse_worker_ids(max id > participants)"] += bool(used and max(used) > len(used))
            pc = policy.setdefault(policy_class(s_), {"recordings": 0, "fired": 0, "partly_contracted": 0, "contracted_subgraphs": 0,
                                                       "contraction_below_the_closing_node": 0})
            pc["recordings"] += 1
            try:
                col, inter, mat = int(cov.get("col", 0)), int(cov.get("interior", 0)), int(a.get("mat", 0))
            except ValueError:
                col = inter = mat = 0
            pc["fired"] += col > 0
            pc["partly_contracted"] += col > 0 and mat > 1
            pc["contracted_subgraphs"] += col
            pc["contraction_below_the_closing_node"] += inter > 0
            oname = ORDERS.get(s_[7], "random-interleaving")
            eo = ek_order.setdefault(oname, {})
            for tok in evs:
                h = tok.split("@")[0].split(":")
                if len(h) == 5:
                    eo[EKL.get(h[4], h[4])] = eo.get(EKL.get(h[4], h[4]), 0) + 1
        o = oracle_case(sets, il, full_oc=oc, full_end=fe, toks=toks, nw=nw)
        if o and o[1]:
            known.append((lines[i], il, o[0]))
        elif o:
            failing.append((lines[i], il, o[0]))
        d = correspondence(sets, il, ml, toks)
        if d:
            diffs.append((lines[i], il, ml, d))
    real_fails = real_recordings(ctx, False)
    ctx.cov["correspondence"] = {
        "cases": len(cases), "recordings": nsettings, "disagreements": len(diffs), "oracle_failures": len(failing),
        "library_variant": {"other_cont_counted": oc, "end_edges_of_contracted_sections_reported": fe},
        "cases_showing_finding_%s" % KNOWN_ID: len(known),
        "input_distribution": {"intervals": dist_size, "task_depth": dist_depth, "workers_told_to_dr_start": dist_w,
                               "participating_workers": dist_wset},
        "impl_result_distribution": res_dist, "impl_exit": rc1, "model_exit": rc2}
    ctx.cov["policy_coverage"] = policy
    ctx.cov["worker_state_mode"] = list_recs
    ctx.cov["in_edge_kind_by_driving_order"] = ek_order
    ctx.cov["evaluations"] = nsettings
    ctx.cov["distinct_nontrivial"] = len(set(" ".join(t) for _, _, t in cases if tree_stats(t)[0] > 1))
    for i in (0, len(cases) // 2, len(cases) - 1):
        if 0 <= i < len(cases):
            ctx.cov["samples"].append({"case": lines[i][:600], "impl": (impl[i] if i < len(impl) else None or "")[:600],
                                       "model": (model[i] if i < len(model) else None or "")[:600]})
    ctx.cov["trusted_base"] += [
        "extraction: ExtrOcamlBasic only; ocaml/driver_C18.ml (parser of the case language, printing), ocaml/zio.ml",
        "harness/c18_sim.c: simulator of multi-worker executions on the recorder's public macro layer (work-first, help-first and "
        "random interleavings at interval granularity), virtual clock through the MYTH_VERIF hook g_dr_verif_clock, hooks of "
        "dr_options as interval stream, .stat parsed back; harness/c18_real.cc: a real mtbb / MassiveThreads program",
        "tools/props/c18.py: generator, the expectation computed from the input tokens, and the Python oracle (explicit DAG rebuilt "
        "from the hook stream)",
        "modelled, not verified: the instrumentation state machine that builds the tree from the calls (checked only by the "
        "correspondence run), 64-bit wrap of clock sums, est / t_ready / counters fields, dr_check debug assertions"]
    listed = any(f.get("id") == KNOWN_ID for f in vlib.known_findings("C18"))
    if probe_msgs:
        ctx.notes.append("finding %s present (model branch oc=%s fe=%s, oracle guarded for the affected edge kinds); "
                         "also seen on %d generated case(s)" % (KNOWN_ID, oc, fe, len(known)))
        if listed:
            ctx.known("%s: .stat edge totals depend on contraction: %s" % (KNOWN_ID, "; ".join(probe_msgs)))
        else:
            ctx.violation("oracle", "edge totals of the .stat report depend on contraction: " + "; ".join(probe_msgs),
                          {"case": case_line(2, W_SETS, (W_OTHER if oc is False else W_END).split()[1:]), "observed": "; ".join(probe_msgs),
                           "expected": "the same edge totals by kind with and without contraction (property C18)",
                           "level": "profiler public instrumentation API"}, found=True)
    elif listed:
        ctx.notes.append("finding %s is listed but no longer reproduces: full-strength oracle and the repaired model branch used" % KNOWN_ID)
    # candidate defect in the default (list) mode of the recorder: deterministic witness, workers 0 and 3 of 4
    ctx.cov["list_mode_witness"] = {"case": W_LIST, "array_mode(sedges,P)": lres[0] if lres else None,
                                    "list_mode(sedges,P)": lres[1] if len(lres) > 1 else None, "finding_present": list_present}
    if list_present:     # defect repaired by e76d04b came back: one-way probe, reported with the witness as a failing input
        msg = ("without worker_specific_state_array (the default) and workers {0,3} of 4 taking part, .stat edge totals "
               "(end,create,create_cont,wait_cont,other_cont) = %s with n_workers (P) = %s; with the array: %s" % (
                   lres[1][0], lres[1][1], lres[0][0]))
        lsets = [("none-array", 0, 0, 0, PRUNE_DEFAULT, 0, 0, 0, 1), ("none-list", 0, 0, 0, PRUNE_DEFAULT, 0, 0, 0, 0)]
        ctx.violation("oracle", msg, {"case": case_line(4, lsets, W_LIST.split()[1:]), "observed": msg,
                                      "expected": ".stat edge totals 1,1,1,1,0 whichever workers took part (property C18; repaired by e76d04b)",
                                      "level": "profiler public instrumentation API, default worker-state mode"}, found=True)
    if failing:
        c, o, msg = min(failing, key=lambda f: len(f[0]))
        ctx.violation("oracle", msg, {"case": c, "observed": o[:4000], "expected": "see property C18: " + msg,
                                      "level": "profiler public instrumentation API", "all_failing": [f[2] for f in failing[:20]]}, found=True)
    elif real_fails:
        msg, obs = real_fails[0]
        ctx.violation("oracle", msg, {"real": obs, "observed": obs.get("out", ""), "expected": "see property C18: " + msg,
                                      "level": "real mtbb program on the real scheduler (harness/c18_real.cc)",
                                      "all_failing": [f[0] for f in real_fails[:20]]}, found=True)
    elif diffs:
        found = search_failing(ctx, exe, drv) if search else None
        if found:
            c, o, msg = found
            ctx.violation("oracle", msg, {"case": c, "observed": o[:4000], "expected": "see property C18: " + msg,
                                          "level": "profiler public instrumentation API (found by the search after a correspondence break)"},
                          found=True)
        else:
            c, il, ml, d = min(diffs, key=lambda f: len(f[0]))
            ctx.violation("correspondence", "model and implementation disagree on %d case(s); first: %s" % (len(diffs), d[0][:300]),
                          {"theorem_or_correspondence": "correspondence Dag/DagRecordModel.v <-> src/profiler/dag_recorder_inl.h",
                           "case": c, "observed": il[:4000], "expected": ml[:4000], "all": [x[3][0] for x in diffs[:20]]}, found=False)
    if broken:
        found = None
        if not failing and not diffs and search:
            found = search_failing(ctx, exe, drv)
        if found:
            c, o, msg = found
            ctx.violation("oracle", msg, {"case": c, "observed": o[:4000], "expected": msg}, found=True)
        else:
            ctx.violation("proof", "theorem(s) no longer check: " + ", ".join(broken),
                          {"theorem_or_correspondence": ", ".join(broken), "log": getattr(ctx, "proof_log", log[-3000:])}, found=False)
    # coverage gates: a run in which a contraction policy never fired, or an incoming edge kind never occurred under one
    # of the driving orders, shows nothing about that policy / order
    if not failing and not ctx.violations:
        gaps = []
        need = 40 if ctx.thorough else 12
        for cls in ("span(collapse_max)", "span(uncollapse_min)", "count(collapse_max_count)", "target(node_count_target/prune_threshold)"):
            pc = policy.get(cls, {})
            if pc.get("fired", 0) < need or pc.get("partly_contracted", 0) < need:
                gaps.append("policy %s fired on %d recordings (%d partly contracted), at least %d wanted" % (
                    cls, pc.get("fired", 0), pc.get("partly_contracted", 0), need))
        if policy.get("target(node_count_target/prune_threshold)", {}).get("contraction_below_the_closing_node", 0) < need:
            gaps.append("target-size pruning contracted a subgraph below the closing node on fewer than %d recordings" % need)
        for oname in ("work-first", "help-first", "random-interleaving"):
            miss = [k for k in EK if ek_order.get(oname, {}).get(k, 0) < 5]
            if miss:
                gaps.append("incoming edge kinds %s hardly occur under the %s order" % (miss, oname))
        if dist_wset["sparse subset"] < 10:
            gaps.append("fewer than 10 trees with a sparse set of participating workers")
        if gaps:
            ctx.violation("coverage", "the run does not exercise what it claims: " + "; ".join(gaps),
                          {"theorem_or_correspondence": "coverage gate of tools/props/c18.py", "gaps": gaps}, found=False)
    return ctx.finish(assumptions=[
        "interval lengths are non-negative (the clock does not run backwards) for the critical-path theorems",
        "sums of 64-bit clock differences do not wrap",
        "the execution is well nested: task ::= (section | other)* end, section ::= (section | create task | other)* wait",
        "finding C18-stat-edges-lost (repaired in /repo by e6ceb89, 28d3a8a) is probed on every run: if it came back the end / "
        "other_cont edge totals would only be required not to exceed the uncontracted DAG's (C18_edges_partial, "
        "C18_stat_edges_partial) and the finding would be reported; absent, the full-strength oracle and C18_edges / "
        "C18_stat_edges apply"])


def search_failing(ctx, exe, drv):
    """after a correspondence break: look for an input on which the property itself fails"""
    oc, fe, _ = probe(exe, os.path.join(ctx.dir, "run"))
    list_present, _ = probe_list(exe, os.path.join(ctx.dir, "run"))
    cases = make_cases(ctx, 150, [0, 0, 1, 1, 2])
    lines = [case_line(nw, sets, toks) for nw, sets, toks in cases]
    impl, rc, raw = vlib.run_lines([exe, os.path.join(ctx.dir, "run")], lines, timeout=900)
    best = None
    for i, (nw, sets, toks) in enumerate(cases):
        il = impl[i] if i < len(impl) else "<no output>"
        o = oracle_case(sets, il, full_oc=oc, full_end=fe, toks=toks, nw=nw)
        if o and not o[1]:
            if best is None or len(lines[i]) < len(best[0]):
                best = (lines[i], il, o[0])
    return best


def run(ctx):
    broken, log = ctx.prove("Properties_C18.v", "Properties_C18")
    exe, drv = build(ctx)
    cases = corpus_cases(ctx)
    if ctx.thorough:
        cases += make_cases(ctx, 2200, [0, 1, 1, 2, 2, 2, 3])
    else:
        cases += make_cases(ctx, 330, [0, 1, 1, 2, 2, 2])
    return judge(ctx, cases, exe, drv, broken, log)


def replay(ctx, path):
    body = json.load(open(path))
    exe, drv = build(ctx)
    if "real" in body:
        obs = body["real"]
        a = obs.get("cmd", "").split()
        if len(a) >= 7:
            st = (obs.get("setting", "?"),) + tuple(int(x) for x in a[1:6])
            msg, o2 = real_run(ctx.real_exe, os.path.join(ctx.dir, "run"), int(a[0]), st, int(obs.get("workers", 1)), int(a[6]), "replay")
            print("real recording:", o2)
            print("oracle:", msg)
        return 0
    if "case" not in body:
        print("no case in replay file (broken obligation: %s)" % body.get("theorem_or_correspondence"))
        return 0
    c = body["case"]
    oc, fe, msgs = probe(exe, os.path.join(ctx.dir, "run"))
    list_present, lres = probe_list(exe, os.path.join(ctx.dir, "run"))
    print("library variant: other_cont counted=%s, end edges of contracted sections reported=%s, list-mode matrix defect present=%s"
          % (oc, fe, list_present))
    impl, model, _, _ = run_cases(exe, drv, [c], os.path.join(ctx.dir, "run"), (oc, fe))
    w = c.split()
    nset = int(w[1])
    sets = [("s%d" % k,) + tuple(int(x) for x in w[2 + 8 * k: 10 + 8 * k]) for k in range(nset)]
    toks = w[2 + 8 * nset:]
    print("case:  ", c)
    for k, seg in enumerate((impl[0] if impl else "").split(" | ")):
        print("impl  [%s %s]: %s" % (sets[k][0] if k < len(sets) else "?", policy_class(sets[k]) if k < len(sets) else "", seg[:1500]))
    print("model: ", model[0] if model else None)
    print("oracle:", oracle_case(sets, impl[0] if impl else "<no output>", full_oc=oc, full_end=fe, toks=toks, nw=int(w[0])))
    print("correspondence:", correspondence(sets, impl[0] if impl else "", model[0] if model else "", toks))
    return 0
