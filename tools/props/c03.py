"""C03 - a thread's registers and stack survive every context switch and migration
(DESIGN.md section 4, C03).  Translator tie: the context-switch asm statements, their operand
lists and the make_context constants are regenerated from gcc -S / gcc -E of the CURRENT tree on
every run (tools/translate_ctx.py) and the verified checker of coq/Ctx is run on them by
vm_compute in build/C03/gen/CtxAsmGen.v.  A dynamic probe (harness/c03_probe.c) cross-checks the
conclusion of the theorems on the real binary."""
import os, re, json, subprocess, time
import vlib
import translate_ctx as T

REGNAMES = ["rsp", "rbp", "rbx", "r12", "r13", "r14", "r15", "rax", "rcx", "rdx", "rsi", "rdi", "r8", "r9", "r10", "r11"]
REASONS = {1: "the instruction sequence is not of the form [save; mov %rsp,(ctx)]; mov (ctx'),%rsp; call*; pop r; jmp *r; [label; restore]",
           2: "the registers read by the tail (context pointers, callback arguments) are not declared input operands, or the scratch register of pop/jmp is rsp",
           3: "symbolic execution of the save or restore part failed (push into the red zone, instruction form outside the model, or the resume address is not the word at the saved rsp)",
           4: "the saved rsp is not a multiple of 16 below the rsp of the asm statement (callbacks and resumed code run misaligned)",
           5: "the saved rsp is not below the 128-byte red zone",
           6: "rsp is not restored by the code after the label",
           7: "a callee-saved register is not restored by the code after the label",
           8: "a register is neither restored nor declared dead (dummy output / clobber) to the compiler",
           9: "the asm statement has no \"memory\" clobber"}

THEOREMS_GEN = '''
Theorem C03_all_sites : forallb ctx_check sites = true.
Proof. vm_compute; reflexivity. Qed.
Print Assumptions C03_all_sites.

Theorem C03_make_context : mk_check_empty mk_empty_ops && mk_check_voidcall mk_voidcall_ops = true.
Proof. vm_compute; reflexivity. Qed.
Print Assumptions C03_make_context.

(* the custom-data carve-out of the current myth_create_ex_body *)
Theorem C03_custom_data : cd_check cd_layout = true.
Proof. vm_compute; reflexivity. Qed.
Print Assumptions C03_custom_data.

(* no body of the current tree publishes the running thread before its context is saved *)
Theorem C03_publish_after_save : forallb pub_check bodies = true.
Proof. vm_compute; reflexivity. Qed.
Print Assumptions C03_publish_after_save.

(* the soundness theorem instantiated on every pair of context-switch sites of the current tree *)
Theorem C03_current_tree :
  forall (lblf : Z -> Z -> Z) (cb : Z -> state -> state) (hi : Z), abi_callee hi cb ->
  forall A B, In A sites -> In B sites ->
  forall pa pb depth r0,
    site_parts (code A) = Some pa -> site_parts (code B) = Some pb -> site_summary A = Some (depth, r0) ->
    forall s0, rg s0 RSP <= hi -> ~ (rg s0 RSP - depth <= rg s0 r0 < hi) ->
    exists s1,
      run (lblf (sid A)) cb (save_code pa) s0 = Next s1 /\\
      rg s1 RSP = rg s0 RSP - depth /\\ mem s1 (rg s0 r0) = rg s1 RSP /\\
      forall sB,
        (forall a, rg s1 RSP <= a < hi -> mem sB a = mem s1 a) ->
        mem sB (rg sB (p_load pb)) = rg s1 RSP ->
        exists s2 l rs,
          p_cont pa = Some (l, rs) /\\
          run (lblf (sid B)) cb (tail_code pb) sB = Jump (lblf (sid A) l) s2 /\\
          exists s3,
            run (lblf (sid A)) cb rs s2 = Next s3 /\\
            rg s3 RSP = rg s0 RSP /\\
            (forall r, In r callee_saved -> rg s3 r = rg s0 r) /\\
            (forall r, r <> RSP -> declared_dead A r = false -> rg s3 r = rg s0 r) /\\
            (forall a, rg s0 RSP - 128 <= a < hi -> mem s3 a = mem s0 a).
Proof.
  intros lblf cb hi Habi A B HA HB pa pb depth r0 HpA HpB Hsum.
  pose proof C03_all_sites as Hall. rewrite forallb_forall in Hall.
  exact (ctx_check_sound lblf cb hi Habi A B pa pb depth r0 (Hall A HA) (Hall B HB) HpA HpB Hsum).
Qed.
Print Assumptions C03_current_tree.

(* every suspending site of the current tree, its depth and context register; every site's kind *)
Eval vm_compute in (map (fun s => (sid s, site_summary s)) sites).
'''
GEN_THEOREMS = ["C03_all_sites", "C03_make_context", "C03_custom_data", "C03_publish_after_save", "C03_current_tree"]


def gen_dir(ctx):
    d = os.path.join(ctx.dir, "gen")
    os.makedirs(d, exist_ok=True)
    return d


def coqc(d, name, timeout=600):
    return vlib.sh(["coqc", "-Q", vlib.COQ, "MT", name], cwd=d, timeout=timeout)


def site_desc(st):
    f = st["file"]
    if f.startswith(vlib.REPO):
        f = os.path.relpath(f, vlib.REPO)
    return "%s:%d (in %s, %s)" % (f, st["line"], st["tu"], st["opt"])


def diag_run(d, data_txt, nsites):
    """evaluate checker, reasons and the concrete diagnosis run on the generated data"""
    txt = data_txt + '''
Goal True. idtac "@@CHECK". Abort.
Eval vm_compute in (map (fun s => (sid s, ctx_check s)) sites).
Goal True. idtac "@@REASONS". Abort.
Eval vm_compute in (flat_map (fun s => map (fun r => (sid s, r)) (reasons s)) sites).
Goal True. idtac "@@DIAG". Abort.
Eval vm_compute in (flat_map (fun s => map (fun x => (sid s, x)) (diagnose s)) (filter (fun s => negb (ctx_check s)) sites)).
Goal True. idtac "@@MK". Abort.
Eval vm_compute in (mk_check_empty mk_empty_ops, mk_check_voidcall mk_voidcall_ops).
Goal True. idtac "@@MKDIAG". Abort.
Eval vm_compute in (map (fun x => (0, x)) (diag_mk false mk_empty_ops) ++ map (fun x => (1, x)) (diag_mk true mk_voidcall_ops)).
Goal True. idtac "@@PUB". Abort.
Eval vm_compute in (map (fun b => (Z.of_nat (length b), pub_check b)) bodies).
Goal True. idtac "@@CD". Abort.
Eval vm_compute in (cd_check cd_layout, cd_check cd_layout).
Goal True. idtac "@@CDDIAG". Abort.
Eval vm_compute in (map (fun x => (0, x)) (diag_cd cd_layout)).
Goal True. idtac "@@END". Abort.
'''
    open(os.path.join(d, "CtxAsmDiag.v"), "w").write(txt)
    rc, out = coqc(d, "CtxAsmDiag.v")
    if rc != 0:
        return None, out
    flat = " ".join(out.split())
    sec = {}
    for m in re.finditer(r"@@(\w+) (.*?)(?=@@\w+)", flat + " @@", re.S):
        sec[m.group(1)] = m.group(2)
    res = {"check": {}, "reasons": {}, "diag": {}, "mk": None, "mkdiag": []}
    for m in re.finditer(r"\(\s*(\d+), (true|false)\)", sec.get("CHECK", "")):
        res["check"][int(m.group(1))] = (m.group(2) == "true")
    for m in re.finditer(r"\(\s*(\d+), (\d+)\)", sec.get("REASONS", "")):
        res["reasons"].setdefault(int(m.group(1)), []).append(int(m.group(2)))
    q = r"\(\s*(\d+),\s*\(\s*(-?\d+),\s*(-?\d+),\s*(-?\d+),\s*(-?\d+)\)\)"
    for m in re.finditer(q, sec.get("DIAG", "")):
        res["diag"].setdefault(int(m.group(1)), []).append(tuple(int(x) for x in m.groups()[1:]))
    m = re.search(r"\(\s*(true|false),\s*(true|false)\)", sec.get("MK", ""))
    if m:
        res["mk"] = (m.group(1) == "true", m.group(2) == "true")
    for m in re.finditer(q, sec.get("MKDIAG", "")):
        res["mkdiag"].append((int(m.group(1)),) + tuple(int(x) for x in m.groups()[1:]))
    res["pub"] = [m.group(2) == "true" for m in re.finditer(r"\(\s*(\d+), (true|false)\)", sec.get("PUB", ""))]
    m = re.search(r"\(\s*(true|false),\s*(true|false)\)", sec.get("CD", ""))
    res["cd"] = (m.group(1) == "true") if m else None
    res["cddiag"] = list(dict.fromkeys(tuple(int(x) for x in m.groups()[1:]) for m in re.finditer(q, sec.get("CDDIAG", ""))))
    return res, out


def describe_diag(e):
    k, a, b, c = e
    if k == 1:
        return "after suspend + resume register %%%s = 0x%x, it was 0x%x at the asm statement" % (REGNAMES[a], c, b)
    if k == 2:
        return "after suspend + resume the stack word at rsp%+d (address 0x%x) = 0x%x, it was 0x%x" % (a - 140737488347136, a, c, b)
    if k == 3:
        return ("rsp = 0x%x (= %d mod 16) at callback call number %d while the context is resumed" % (b, b % 16, a)) if a >= 0 \
            else "the saved rsp 0x%x is %d mod 16 although the asm statement was entered with rsp = 0 mod 16" % (b, b % 16)
    if k == 4:
        return "the machine gets stuck in phase %d (1 save, 2 switch tail, 3 code after the label)" % a
    if k == 5:
        return "the resumed context continues at 0x%x instead of the resume label 0x%x" % (b, a)
    if k == 6:
        return "stack top 0x%x gives an initial context with rsp = 0x%x = %d mod 16" % (a, b, b % 16)
    if k == 7:
        return "stack top 0x%x gives an initial context with rsp = 0x%x outside (top-32, top]" % (a, b)
    if k == 8:
        return "stack top 0x%x: saved rsp 0x%x but the function address is stored at 0x%x" % (a, b, c)
    if k == 10:
        return ("custom_data_size = %d: the hint region [0x%x, 0x%x) starts %d bytes BELOW the stack top 0x%x handed to myth_make_context_*; "
                "bytes [hint+0, hint+%d) overlap the thread's initial frames (which grow down from that top)"
                % (a, b, b + a, c - b if c - b < a else (140737488347136 - b), c if c - b < a else 140737488347136, c - b))
    if k == 11:
        return "custom_data_size = %d: the hint region ends at 0x%x, above the block's size word at 0x%x" % (a, b, c)
    if k == 12:
        return "custom_data_size = %d: the stack top 0x%x handed to myth_make_context_* is %d mod 16" % (a, b, b % 16)
    if k == 13:
        return "custom_data_size = %d: the creation-time copy goes to 0x%x, length %d, not to the hint region" % (a, b, c)
    return "stack top 0x%x: no rsp stored" % a


DIAG_INPUT = ("registers at the asm statement: rsp = 0x7fffffffe000, every other register r = 0x700000000000 + 4096*index(r) "
              "(index: rsp 0, rbp 1, rbx 2, r12..r15 3..6, rax 7, rcx 8, rdx 9, rsi 10, rdi 11, r8..r11 12..15); "
              "memory word at address a = 7a+3; between suspension and resumption every register is overwritten and every "
              "stack word below the saved rsp is scribbled; callbacks clobber all caller-saved registers and scribble below their rsp; "
              "the site's own tail resumes the context (Ctx/CtxCheckModel.v : diagnose)")


def static_part(ctx, hand_ok):
    """translator + generated theorems; returns number of violations raised"""
    d = gen_dir(ctx)
    opts = ["-O0", "-O2"] if ctx.thorough else ["-O0"]
    tr = T.translate(d, opts)
    sites = tr["sites"]
    header = ("(* generated by tools/translate_ctx.py from %s (gcc -S / -E, %s) on this run - do not edit *)"
              % (vlib.REPO, " ".join(opts)))
    data_txt = T.coq_data(tr, header, module_imports="Ctx.X86Model Ctx.CtxCheckModel Ctx.CtxProofs")
    gen_txt = data_txt + THEOREMS_GEN
    gpath = os.path.join(d, "CtxAsmGen.v")
    open(gpath, "w").write(gen_txt)
    for f in ("CtxAsmGen.vo", "CtxAsmGen.glob"):
        try:
            os.remove(os.path.join(d, f))
        except OSError:
            pass
    kinds = {}
    for st in sites:
        k = ("swap" if any(c.startswith("IStoreRsp") for c in st["coq"]) else "set") + \
            ("_withcall" if any(c.startswith("ICall") for c in st["coq"]) else "")
        kinds[k] = kinds.get(k, 0) + 1
    ctx.cov["translator"] = {
        "sites_total": len(sites), "sites_distinct": len(T.distinct_sites(tr)),
        "sites_per_translation_unit": tr["per_tu"], "site_kinds": kinds,
        "callbacks_called": tr["calls"],
        "asm_statements_touching_rsp_but_not_writing_it": tr["others"],
        "make_context_empty": {"source_statements": tr["mk"]["empty_src"], "ops": tr["mk"]["empty"]},
        "make_context_voidcall": {"source_statements": tr["mk"]["voidcall_src"], "ops": tr["mk"]["voidcall"]},
        "fp_control_instructions_in_sites": sum(1 for st in sites for x in st["text"] if re.match(r"^(stmxcsr|ldmxcsr|fnstcw|fstcw|fldcw)\b", x)),
        "publication_order": {"callbacks": tr["publish"]["callbacks"],
                              "helpers_publishing_a_parameter": tr["publish"]["helpers_publishing_a_parameter"],
                              "bodies": [{"function": b["name"], "line": b["line"], "events": ["%s %s" % e for e in b["events"]]}
                                         for b in tr["publish"]["bodies"]]},
        "custom_data_carve": {"interpretation": tr["carve"]["notes"], "not_understood": tr["carve"]["unknown"],
                              "stack_top_empty": repr(tr["carve"]["empty"]), "stack_top_voidcall": repr(tr["carve"]["voidcall"]),
                              "custom_data_ptr": repr(tr["carve"]["ptr"])},
        "generated_file": os.path.relpath(gpath, vlib.VERIF), "generated_file_sha256": vlib.sha(gen_txt),
        "extracted_data_sha256": T.digest(tr), "source_sha256": {os.path.relpath(k, vlib.REPO) if k.startswith(vlib.REPO) else k: v
                                                                 for k, v in tr["sources"].items()},
        "gcc_flags": " ".join(T.flags(opts[0])[:-3]) + " {" + ",".join(opts) + "} -g -fPIC"}
    for st in T.distinct_sites(tr)[:4]:
        ctx.cov["samples"].append({"site": site_desc(st), "asm": st["text"], "coq": st["coq"],
                                   "outputs": (st["decl"] or {}).get("outs_text"), "inputs": (st["decl"] or {}).get("ins_text"),
                                   "clobbers": (st["decl"] or {}).get("clobbers_text")})
    ctx.cov["obligations"] += len(GEN_THEOREMS)
    nviol = 0
    if not sites:
        for n in GEN_THEOREMS:
            ctx.cov["theorems"][n] = {"statement": "(generated)", "status": "FAILED", "assumptions": None}
        ctx.violation("translator", "no context-switch asm statement found in the compiler output of the current tree "
                      "(the library no longer uses the inline amd64 context switch, or the translator is out of date)",
                      {"theorem_or_correspondence": "C03_all_sites (would hold vacuously)", "per_tu": tr["per_tu"]}, found=False)
        return 1, tr
    if not tr["publish"]["bodies"]:
        ctx.violation("translator", "no function body containing a context-switch statement found in the preprocessed sources",
                      {"theorem_or_correspondence": "C03_publish_after_save (would hold vacuously)"}, found=False)
        nviol += 1
    rc, out = (1, "hand-written Coq development did not build") if not hand_ok else coqc(d, "CtxAsmGen.v")
    stm = {"C03_all_sites": "forallb ctx_check sites = true   (sites = the %d asm statements extracted on this run)" % len(sites),
           "C03_make_context": "mk_check_empty mk_empty_ops && mk_check_voidcall mk_voidcall_ops = true",
           "C03_custom_data": "cd_check cd_layout = true   (cd_layout = linear forms extracted from myth_create_ex_body on this run)",
           "C03_publish_after_save": "forallb pub_check bodies = true   (bodies = event lists of the %d switching function bodies extracted on this run)" % len(tr["publish"]["bodies"]),
           "C03_current_tree": "conclusion of C03_ctx_check_sound for all A, B in sites"}
    if rc == 0:
        blocks = re.split(r"(?=Closed under the global context|Axioms:)", out)
        closed = out.count("Closed under the global context")
        for n in GEN_THEOREMS:
            ctx.cov["theorems"][n] = {"statement": stm[n], "status": "checked",
                                      "assumptions": "Closed under the global context" if closed >= len(GEN_THEOREMS) else out[-400:]}
        ctx.cov["discharged"] += len(GEN_THEOREMS)
        m = re.findall(r"\(\s*(\d+),\s*Some\s*\(\s*(\d+),\s*(\w+)\)\)", " ".join(out.split()))
        ctx.cov["translator"]["suspending_sites_depth_ctxreg"] = sorted(set((int(b), c) for a, b, c in m))
        return 0, tr
    # ---- the checker rejects something (or the file does not compile): find out what, search for a failing input
    res, dout = diag_run(d, data_txt, len(sites)) if hand_ok else (None, out)
    for n in GEN_THEOREMS:
        ctx.cov["theorems"][n] = {"statement": stm[n], "status": "FAILED", "assumptions": None}
    if res is None:
        ctx.violation("proof", "generated file build/C03/gen/CtxAsmGen.v does not compile and the diagnosis file does not either",
                      {"theorem_or_correspondence": "C03_all_sites", "log": (out + "\n" + dout)[-3000:]}, found=False)
        return 1, tr
    bad = [k for k in range(len(sites)) if not res["check"].get(k, False)]
    mk_ok = res["mk"] == (True, True)
    if mk_ok:
        ctx.cov["theorems"]["C03_make_context"]["status"] = "checked (in the diagnosis file)"
        ctx.cov["discharged"] += 1
    # group rejected sites by source statement
    groups = {}
    for k in bad:
        st = sites[k]
        shape = tuple(re.sub(r"ICall \d+", "ICall _", c) for c in st["coq"])
        groups.setdefault((shape, repr((st["decl"] or {}).get("clobbers_text")), tuple(res["reasons"].get(k, []))), []).append(k)
    for _, ks in sorted(groups.items(), key=lambda kv: kv[1][0]):
        k = ks[0]
        st = sites[k]
        why = [REASONS.get(r, str(r)) for r in res["reasons"].get(k, [])]
        dg = res["diag"].get(k, [])
        unknown = [st["text"][i] for i, c in enumerate(st["coq"]) if c.startswith("IUnknown")]
        body = {"theorem_or_correspondence": "C03_all_sites (forallb ctx_check sites = true), site_%d" % k,
                "site": site_desc(st), "also_at": [site_desc(sites[j]) for j in ks[1:]], "asm": st["text"], "coq": st["coq"],
                "site_coq": T.coq_site(k, st), "operands": st["decl"], "rejected_because": why,
                "unparsed_instructions": unknown, "level": "model (x86-64 machine of Ctx/X86Model.v run on the extracted instructions)"}
        if st["decl"] is None:
            why.append("no asm statement with the same mnemonics at that file:line in the preprocessed source (operand lists unknown)")
        # a caller-saved register that is neither restored nor declared dead: the model run shows it changing,
        # but a failing run of the library needs the compiler to keep a live value in it across the statement,
        # which cannot be forced -> not counted as a failing input
        undeclared = [e for e in dg if e[0] == 1 and e[1] >= 7]
        real = [e for e in dg if not (e[0] == 4 and unknown) and e not in undeclared]
        if undeclared and not real:
            why.append("model run: " + "; ".join(describe_diag(e) for e in undeclared[:4]) +
                       " - a failing run of the library would need the compiler to keep a live value in that register across "
                       "the asm statement (a register allocation we cannot force): no failing input")
            body["model_only_differences"] = [describe_diag(e) for e in undeclared]
        if real and not unknown:
            body.update({"case": DIAG_INPUT, "observed": [describe_diag(e) for e in real[:12]],
                         "expected": "rsp, rbp, rbx, r12-r15 and every stack word at or above rsp-128 unchanged; rsp = 0 mod 16 at every callback call",
                         "raw": real[:40]})
            ctx.violation("checker", "context switch at %s%s: %s" % (site_desc(st), (" and %d more sites" % (len(ks) - 1)) if len(ks) > 1 else "",
                                                                      describe_diag(real[0])), body, found=True)
        else:
            ctx.violation("checker", "context switch at %s%s rejected by ctx_check: %s%s" %
                          (site_desc(st), (" and %d more sites" % (len(ks) - 1)) if len(ks) > 1 else "", "; ".join(why) or "?", (" [unparsed: %s]" % "; ".join(unknown)) if unknown else ""),
                          body, found=False)
        nviol += 1
    if not mk_ok:
        dm = res["mkdiag"]
        which = "myth_make_context_empty" if not res["mk"][0] else "myth_make_context_voidcall"
        body = {"theorem_or_correspondence": "C03_make_context", "ops": tr["mk"], "level": "model (mk_run of Ctx/CtxCheckModel.v)"}
        mine = [e for e in dm if e[0] == (0 if not res["mk"][0] else 1)]
        if mine:
            body.update({"case": "stack top 0x%x passed to %s" % (mine[0][2], which),
                         "observed": [describe_diag(e[1:]) for e in mine[:8]],
                         "expected": "saved rsp = 0 mod 16, within 32 bytes below the stack top; for voidcall the function address stored exactly at the saved rsp"})
            ctx.violation("checker", "%s: %s" % (which, describe_diag(mine[0][1:])), body, found=True)
        else:
            ctx.violation("checker", "%s: statement sequence not accepted by the checker (%s)" %
                          (which, "; ".join(tr["mk"]["empty_src" if not res["mk"][0] else "voidcall_src"])), body, found=False)
        nviol += 1
    cd_ok = res.get("cd") is True
    if cd_ok:
        ctx.cov["theorems"]["C03_custom_data"]["status"] = "checked (in the diagnosis file)"
        ctx.cov["discharged"] += 1
    else:
        cv = tr["carve"]
        body = {"theorem_or_correspondence": "C03_custom_data (cd_check cd_layout = true)",
                "extracted": {k: repr(cv[k]) for k in ("empty", "voidcall", "ptr", "copy_dst", "copy_len")},
                "interpretation_of_myth_create_ex_body": cv["notes"], "not_understood": cv["unknown"],
                "level": "model (linear forms of Ctx/CtxCheckModel.v evaluated at stack top 0x7fffffffe000)"}
        dd = res.get("cddiag") or []
        if dd:
            body.update({"case": "myth_create_ex with attr.custom_data_size = %d (allocator stack top 0x7fffffffe000)" % dd[0][1],
                         "observed": [describe_diag(e) for e in dd[:12]],
                         "expected": "hint region [custom_data_ptr, +size) at or above the stack top the context is made on, at or below the size word"})
            ctx.violation("checker", "custom-data carve-out of myth_create_ex_body: " + describe_diag(dd[0]), body, found=True)
        else:
            ctx.violation("checker", "custom-data carve-out of myth_create_ex_body not accepted by cd_check: " +
                          ("; ".join(cv["unknown"]) or "shape of the linear forms"), body, found=False)
        nviol += 1
    pbs = tr["publish"]["bodies"]
    pub_bad = [k for k, ok in enumerate(res.get("pub", [])) if not ok] if len(res.get("pub", [])) == len(pbs) else list(range(len(pbs)))
    if not pub_bad and pbs:
        ctx.cov["theorems"]["C03_publish_after_save"]["status"] = "checked (in the diagnosis file)"
        ctx.cov["discharged"] += 1
    for k in pub_bad:
        b = pbs[k]
        f = os.path.relpath(b["file"], vlib.REPO) if b["file"].startswith(vlib.REPO) else b["file"]
        evs = ["%s %s" % e for e in b["events"]]
        culprit = [e for e in evs if e.startswith(("PPubSelf", "PSwitchPlainThread"))]
        ctx.violation("checker", "%s (%s:%d) makes the running thread visible before its context is saved: %s" %
                      (b["name"], f, b["line"], "; ".join(culprit)),
                      {"theorem_or_correspondence": "C03_publish_after_save (forallb pub_check bodies = true), body of " + b["name"],
                       "function": b["name"], "where": "%s:%d" % (f, b["line"]), "events_in_source_order": evs,
                       "aliases_of_the_running_thread": b["self_aliases"], "translation_units": b["tus"],
                       "level": "model (event list of the function body; the failing input is an interleaving with a thief, searched by the yield storm of the probe)"},
                      found=False)
        nviol += 1
    if not bad and mk_ok and cd_ok and not pub_bad:
        ctx.violation("proof", "build/C03/gen/CtxAsmGen.v does not compile although every site passes the checker",
                      {"theorem_or_correspondence": "C03_current_tree", "log": out[-3000:]}, found=False)
        nviol += 1
    return nviol, tr


# ---------------------------------------------------------------------------------------------
# dynamic cross-check
# ---------------------------------------------------------------------------------------------

def build_probe(ctx, opt):
    lib = vlib.build_lib(opt=opt)
    return vlib.cc(os.path.join(ctx.dir, "c03_probe" + opt), [os.path.join(vlib.VERIF, "harness", "c03_probe.c")],
                   flags=vlib.lib_cflags() + ["-O0", "-g", "-fno-omit-frame-pointer"], libs=[lib, "-lpthread", "-ldl", "-lrt"])


def run_case(exe, case, timeout=90):
    """case = "workers nthreads iters seed" | "P workers nthreads iters seed" (MYTH_CHILD_FIRST=0) |
    "Y workers batch yields_per_thread seed rounds" (yield storm) | "F workers nthreads iters seed" (fp control state)"""
    f = case.split()
    extra = {}
    if f[0] == "Y":
        w, args = f[1], [f[2], f[3], f[4], "yield", f[5]]
    elif f[0] == "F":                                   # floating-point control state probe (own process)
        w, args = f[1], [f[2], f[3], f[4], "fp"]
    elif f[0] == "P":                                   # main probe with the global default set to parent-first
        w, args, extra = f[1], f[2:5], {"MYTH_CHILD_FIRST": "0"}
    else:
        w, args = f[0], f[1:4]
    env = dict(os.environ, MYTH_NUM_WORKERS=w, **extra)
    try:
        p = subprocess.run([exe] + args, env=env, stdout=subprocess.PIPE, stderr=subprocess.STDOUT, text=True,
                           errors="replace", timeout=timeout)
        return p.returncode, p.stdout.strip()
    except subprocess.TimeoutExpired:
        return 124, "<timeout after %ds>" % timeout


def oracle(case, rc, out):
    """the property itself on one run of the real library; None if it holds"""
    last = out.split("\n")[-1] if out else ""
    if case.startswith("Y"):
        _, w, n, it, seed, rounds = case.split()
        f = dict(m.groups() for m in re.finditer(r"(\w+)=(-?\d+)", last))
        if rc == 124:
            return "yield storm did not terminate"
        if rc not in (0, 1) or not last.startswith(("ok", "FAIL")):
            return "yield storm crashed (exit status %d%s): %s" % (rc, ", SIGSEGV" if rc in (-11, 139) else "", last[-200:] or "no output")
        for k in ("two_workers", "reg_bad", "stack_bad"):
            if int(f.get(k, "1")) != 0:
                return "%s=%s: %s" % (k, f.get(k), last.split("first=", 1)[-1])
        if int(f.get("yields", "-1")) != int(n) * int(it) * int(rounds):
            return "yield storm executed %s yields instead of %d" % (f.get("yields"), int(n) * int(it) * int(rounds))
        return None
    if case.startswith("F"):
        f = dict(m.groups() for m in re.finditer(r"(\w+)=(-?\d+)", last))
        if rc != 0 or not last.startswith("fp mode=fp"):
            return "fp probe crashed or did not finish (exit status %d): %s" % (rc, last[-200:])
        if int(f.get("checks", "0")) != int(case.split()[2]) * int(case.split()[3]):
            return "fp probe made %s checks instead of %d" % (f.get("checks"), int(case.split()[2]) * int(case.split()[3]))
        return None       # whether the control state survived is judged by fp_verdict (known finding)
    w, n, it, seed = [int(x) for x in (case.split()[1:] if case.startswith("P") else case.split())]
    f = dict(m.groups() for m in re.finditer(r"(\w+)=(-?\d+)", " ".join(out.split("\n")[-2:])))
    if rc == 124:
        return "probe did not terminate"
    if rc < 0 or rc > 1 or not last.startswith(("ok", "FAIL")):
        return "probe crashed (exit status %d): %s" % (rc, out[-200:])
    for k in ("hint_overlap", "reg_bad", "stack_bad", "cb_misaligned", "entry_misaligned", "first_child_first_misaligned",
              "first_parent_first_misaligned", "sched_loop_misaligned", "hint_bad", "hint_local_bad"):
        if int(f.get(k, "1")) != 0:
            extra = ""
            if k.startswith("hint"):
                ov = [l for l in out.split("\n") if l.startswith("hint ") and " overlap=0" not in l]
                extra = " | " + " | ".join(ov[:3]) if ov else ""
            return "%s=%s: %s%s" % (k, f.get(k), last.split("first=", 1)[-1], extra)
    if int(f.get("hint_cases", "0")) != 8:
        return "hint phase ran %s of 8 cases" % f.get("hint_cases")
    if int(f.get("ops", "-1")) != n * it:
        return "probe executed %s switching calls instead of %d" % (f.get("ops"), n * it)
    if int(f.get("switches_cb", "0")) <= 0 or int(f.get("entries", "0")) < n:
        return "no callback / thread entry was sampled (hooks missing?)"
    return None


def gen_cases(ctx, n):
    r = ctx.rng
    cases = []
    for w in (1, 2, 3, 4, 8):
        cases.append("%d %d %d %d" % (w, r.choice([2, 4, 6, 8]), r.rng(30, 70), r.rng(1, 10 ** 6)))
    for _ in range(n):
        cases.append("%d %d %d %d" % (r.rng(1, 8), r.rng(1, 10), r.rng(10, 80), r.rng(1, 10 ** 6)))
    # parent-first as the global default (MYTH_CHILD_FIRST=0): every thread created with default attributes and the
    # scheduler entry path myth_make_context_voidcall / myth_entry_point carry the register / stack / alignment probe
    for w in ((1, 3) if not ctx.thorough else (1, 2, 3, 4, 8)):
        cases.append("P %d %d %d %d" % (w, r.choice([2, 4, 6]), r.rng(30, 60), r.rng(1, 10 ** 6)))
    # floating-point control state (known finding C03-fp-control-not-preserved), own processes
    for w, n in ((1, 3), (4, 4), (2, 2)):
        cases.append("F %d %d %d %d" % (w, n, r.rng(40, 80), r.rng(1, 10 ** 6)))
    # yield storm: batches of short threads rotating through one worker's run queue with myth_yield_ex of every
    # option while the other workers steal; registers, stack array and the running-on-two-workers detector
    # are checked after every yield
    rounds = 1200 if not ctx.thorough else 4000
    for w in ([4, 8, 2, 3, 6] if not ctx.thorough else [2, 3, 4, 5, 6, 7, 8, 4, 8]):
        cases.append("Y %d %d %d %d %d" % (w, r.choice([32, 48]), r.choice([30, 40]), r.rng(1, 10 ** 6), rounds))
    return cases


def py_mk_run(ops, stack):
    """mirror of Ctx/CtxCheckModel.v : mk_run (used only to compare the extracted model with the measured layout)"""
    tail, rsp = stack, None
    for o in ops:
        m = re.match(r"(\w+) \(?(-?\d+)\)?", o)
        k, v = m.group(1), int(m.group(2))
        if k == "MkSub":
            tail = (tail - v) % 2 ** 64
        elif k == "MkAdd":
            tail = (tail + v) % 2 ** 64
        elif k == "MkAnd":
            tail &= v
        elif k == "MkSetRsp":
            rsp = (tail + v) % 2 ** 64
    return rsp


def layout_model(tr, order, size):
    """(stk - custom_data_ptr, stk - initial rsp) predicted by the extracted model, for a 16-aligned stack top"""
    cv = tr["carve"]
    top = cv["empty" if order == "child" else "voidcall"]
    if not cv["ok"] or top is None or cv["ptr"] is None:
        return None
    stk, r16 = 2 ** 40, (size + 15) // 16 * 16
    ev = lambda l: l.s * stk + l.c + l.r * r16 + l.l * size
    rsp = py_mk_run(tr["mk"]["empty" if order == "child" else "voidcall"], ev(top))
    return (stk - ev(cv["ptr"]), stk - rsp if rsp is not None else None)


FP_FINDING = "C03-fp-control-not-preserved"


def fp_listed():
    listed = {f.get("id") for f in vlib.known_findings("C03")}
    # test hooks for the validation of the three branches (same idea as C10_TEST_UNLISTED)
    listed |= set(x for x in os.environ.get("C03_TEST_LISTED", "").split(",") if x)
    listed -= set(x for x in os.environ.get("C03_TEST_UNLISTED", "").split(",") if x)
    return FP_FINDING in listed


def fp_verdict(ctx, stats):
    fp = stats.get("fp_control")
    if not fp or not fp["checks"]:
        return
    listed = fp_listed()
    fails = fp.pop("failing_cases")
    fp["listed_in_known_findings"] = listed
    if fails:
        opt, c, out = fails[0]
        first = out.split("first=", 1)[-1].strip()
        msg = ("%s: the MXCSR control bits / x87 control word of a thread are not preserved across a context switch "
               "(MYTH_SAVE_FPCSR is 0): %d of %d read-backs differ for MXCSR, %d for the x87 control word, %d of them after a migration; "
               "first: %s [case F %s, library %s]" % (FP_FINDING, fp["mxcsr_bad"], fp["checks"], fp["x87_bad"], fp["bad_after_migration"],
                                                     first[:260], c[2:], opt))
        if listed:
            fp["branch"] = "reproduced and listed in known_findings.json -> KNOWN-FINDING"
            ctx.known(msg)
        else:
            fp["branch"] = "reproduced but NOT listed in known_findings.json -> VIOLATION"
            ctx.violation("oracle", msg, {"case": c, "library_opt": opt, "observed": out, "level": "library",
                                          "expected": "mxcsr_bad=0 x87_bad=0 (control bits of MXCSR and the x87 control word are callee-saved)",
                                          "finding": FP_FINDING + " (not listed in known_findings.json)",
                                          "program": "harness/c03_probe.c, mode fp (fp_thread / fp_child)",
                                          "model": "Properties_C03.v : C03_fp_control_refuted"}, found=True)
    else:
        fp["branch"] = ("not reproduced: every read-back of the control state matched (the switch sequences of this tree preserve it)" +
                        ("; the finding is still listed in known_findings.json - it can be retired" if listed else ""))
        ctx.notes.append("fp control state: " + fp["branch"])


def dynamic_part(ctx, tr):
    corpus = []
    cp = os.path.join(vlib.VERIF, "corpus", "C03", "cases.txt")
    if os.path.exists(cp):
        corpus = [l.strip() for l in open(cp) if l.strip() and not l.startswith("#")]
    cases = corpus + gen_cases(ctx, 10 if not ctx.thorough else 120)
    stats = {"cases": 0, "oracle_failures": 0, "by_workers": {}, "ops": 0, "callback_entries_sampled": 0,
             "thread_entries_sampled": 0, "migrations": 0, "children": 0, "library_opt": []}
    failing, layout_diffs = [], []
    stats["hint_layout_samples"] = []
    for opt in (["-O0", "-O2"] if ctx.thorough else ["-O0"]):
        exe = build_probe(ctx, opt)
        stats["library_opt"].append(opt)
        for c in cases:
            rc, out = run_case(exe, c)
            stats["cases"] += 1
            w = c.split()[1] if c[0] in "YFP" else c.split()[0]
            if c.startswith("F"):
                ff = dict(m.groups() for m in re.finditer(r"(\w+)=(-?\d+)", out.split("\n")[-1] if out else ""))
                fp = stats.setdefault("fp_control", {"runs": 0, "checks": 0, "mxcsr_bad": 0, "x87_bad": 0, "bad_after_migration": 0, "failing_cases": []})
                fp["runs"] += 1
                for k in ("checks", "mxcsr_bad", "x87_bad", "bad_after_migration"):
                    fp[k] += int(ff.get(k, "0"))
                if int(ff.get("mxcsr_bad", "0")) or int(ff.get("x87_bad", "0")):
                    fp["failing_cases"].append((opt, c, out[-600:]))
            elif not c.startswith("Y"):
                ff = dict(m.groups() for m in re.finditer(r"(\w+)=(-?\d+)", " ".join(out.split("\n")[-2:])))
                for k in ("first_child_first", "first_parent_first", "sched_loop_samples"):
                    stats[k] = stats.get(k, 0) + int(ff.get(k, "0"))
                if c.startswith("P"):
                    stats["runs_with_MYTH_CHILD_FIRST_0"] = stats.get("runs_with_MYTH_CHILD_FIRST_0", 0) + 1
            stats["by_workers"][w] = stats["by_workers"].get(w, 0) + 1
            if c.startswith("Y"):
                stats["yield_storm_cases"] = stats.get("yield_storm_cases", 0) + 1
                ym = re.search(r"yields=(\d+)", out)
                stats["yield_storm_yields"] = stats.get("yield_storm_yields", 0) + (int(ym.group(1)) if ym else 0)
            f = dict(m.groups() for m in re.finditer(r"(\w+)=(-?\d+)", out.split("\n")[-1] if out else ""))
            for k, fk in (("ops", "ops"), ("callback_entries_sampled", "switches_cb"), ("thread_entries_sampled", "entries"),
                          ("migrations", "migrations"), ("children", "children")):
                stats[k] += int(f.get(fk, "0"))
            msg = oracle(c, rc, out)
            if msg:
                failing.append((opt, c, out[-1500:], msg))
            for hl in [l for l in out.split("\n") if l.startswith("hint ")]:
                hf = dict(m.groups() for m in re.finditer(r"(\w+)=(-?\w+)", hl))
                stats["hint_threads"] = stats.get("hint_threads", 0) + 1
                pred = layout_model(tr, hf.get("order"), int(hf.get("size", "0")))
                got = (int(hf.get("stk_minus_hint", "0")), int(hf.get("stk_minus_rsp0", "0")))
                if pred is not None and pred != got:
                    layout_diffs.append((opt, c, hl, "model (stk-hint, stk-rsp0) = %s, measured %s" % (pred, got)))
                if len(stats["hint_layout_samples"]) < 8 and hl not in stats["hint_layout_samples"]:
                    stats["hint_layout_samples"].append(hl)
            if len(ctx.cov["samples"]) < 11 and (c == cases[len(corpus)] or c == cases[-1] or c.startswith(("F 1", "P 1"))):
                ctx.cov["samples"].append({"case": ("yield storm: Y workers batch yields seed rounds = " if c.startswith("Y") else "[F fp / P parent-first default] workers nthreads iters seed = ") + c, "library": opt, "impl": out[-300:]})
    stats["oracle_failures"] = len(failing)
    stats["disagreements"] = len(layout_diffs)
    for k, what in (("first_child_first", "first function of a child-first thread (myth_create_1)"),
                    ("first_parent_first", "first function of a parent-first thread (myth_entry_point)"),
                    ("sched_loop_samples", "scheduler loop (myth_sched_loop)")):
        if stats.get(k, 0) <= 0 and not failing:
            ctx.violation("coverage", "the probe never sampled rsp alignment in the " + what,
                          {"theorem_or_correspondence": "dynamic cross-check coverage gate " + k, "stats": {x: stats.get(x) for x in
                           ("first_child_first", "first_parent_first", "sched_loop_samples")}}, found=False)
    fp_verdict(ctx, stats)
    ctx.cov["correspondence"] = stats
    if failing:
        opt, c, out, msg = failing[0]
        ctx.violation("oracle", "probe thread on the real library (%s): %s" % (opt, msg),
                      {"case": c, "library_opt": opt, "observed": out, "level": "library",
                       "expected": "reg_bad=0 stack_bad=0 cb_misaligned=0 entry_misaligned=0 hint_overlap=0 hint_bad=0 hint_local_bad=0",
                       "all_failing": [(o, cc, m) for o, cc, _, m in failing[:20]]}, found=True)
    elif layout_diffs:
        opt, c, hl, msg = layout_diffs[0]
        ctx.violation("correspondence", "custom-data layout: extracted model and library disagree (%d thread(s)); first: %s: %s" % (len(layout_diffs), hl, msg),
                      {"theorem_or_correspondence": "correspondence cd_layout / mk ops (tools/translate_ctx.py) <-> myth_create_ex_body as executed",
                       "case": c, "library_opt": opt, "observed": hl, "expected": msg, "all": layout_diffs[:20]}, found=False)
    return len(failing)


def run(ctx):
    broken, log = ctx.prove("Properties_C03.v", "Properties_C03")
    nstat, tr = static_part(ctx, hand_ok=not broken)
    ndyn = dynamic_part(ctx, tr)
    ctx.cov["trusted_base"] += [
        "translator tools/translate_ctx.py (regex parser of gcc -S #APP blocks and of the asm statements / make_context bodies in gcc -E output; "
        "everything it extracted is listed under coverage.translator and in build/C03/gen/CtxAsmGen.v)",
        "gcc: the instructions between #APP/#NO_APP are what is assembled; an asm statement's registers are live/dead exactly as its constraint and clobber lists say",
        "x86-64 semantics of the 12 instruction forms as written in coq/Ctx/X86Model.v (word-granular memory; flags and vector registers not modelled; the MXCSR control bits and the x87 control word are state that none of these instructions touches - Ctx/X86Model.v : xstate)",
        "abi_callee: callbacks (and the code of other threads) follow the SysV ABI and do not write the suspended stack at or above the saved rsp",
        "premise 'rsp = 0 mod 16 at the asm statement' is a compiler fact; cross-checked dynamically (callback-entry alignment samples), not proved",
        "harness/c03_probe.c (dynamic cross-check only; supports the tie, not the proof)",
        "no extraction for this property: the diagnosis run after a rejection is vm_compute of Ctx/CtxCheckModel.v : diagnose"]
    if broken:
        ctx.violation("proof", "theorem(s) no longer check: " + ", ".join(broken),
                      {"theorem_or_correspondence": ", ".join(broken), "log": getattr(ctx, "proof_log", log[-3000:])}, found=False)
    ctx.cov["evaluations"] = len(tr["sites"]) + ctx.cov["correspondence"].get("cases", 0)
    ctx.cov["distinct_nontrivial"] = ctx.cov.get("translator", {}).get("sites_distinct", 0)
    return ctx.finish(assumptions=[
        "callbacks and other threads obey abi_callee (preserve rsp and callee-saved registers, write nothing in [saved rsp, stack top) of a suspended thread)",
        "a thread's context record is not inside its own live stack region [rsp-depth, top)",
        "custom data: the hint fits into the stack block (stack top after the carve-out >= 64); the allocator's stack top is block top - 16 with the size word at +8 (C12)",
        "rsp is 16-aligned and 8-aligned memory operands are used at every context-switch asm statement (compiler fact, sampled dynamically)",
        "the compiler honours the asm constraint/clobber lists; vector registers are outside the model",
        "floating-point control state (MXCSR control bits, x87 control word): NOT preserved - C03_fp_control_refuted, known finding "
        "C03-fp-control-not-preserved; the positive theorems are about rsp, rbp, rbx, r12-r15 and the stack; C03_fp_control_partial holds "
        "under the guard that the resuming worker's control state equals the suspended thread's"])


def replay(ctx, path):
    body = json.load(open(path))
    if "site_coq" in body:
        d = gen_dir(ctx)
        txt = ("From Coq Require Import ZArith List Bool.\nFrom MT Require Import Ctx.X86Model Ctx.CtxCheckModel.\n"
               "Import ListNotations.\nLocal Open Scope Z_scope.\n" + body["site_coq"])
        name = re.search(r"Definition (site_\d+)", body["site_coq"]).group(1)
        txt += "Eval vm_compute in (ctx_check %s, reasons %s).\nEval vm_compute in (diagnose %s).\n" % (name, name, name)
        open(os.path.join(d, "Replay.v"), "w").write(txt)
        rc, out = coqc(d, "Replay.v")
        print("site:   ", body.get("site"))
        print("asm:    ", "; ".join(body.get("asm", [])))
        print("model (ctx_check, reasons; diagnose = (kind, where, expected, got)):")
        print(out)
        for e in body.get("observed", []):
            print("recorded:", e)
        # what the current tree has at that place now
        tr = T.translate(d, [body["site"].rsplit(", ", 1)[-1].rstrip(")")] if "site" in body else ["-O0"])
        for st in tr["sites"]:
            if site_desc(st) == body.get("site"):
                print("current tree at that site:", "; ".join(st["text"]))
                break
        return 0
    if str(body.get("theorem_or_correspondence", "")).startswith("C03_publish_after_save"):
        print("recorded:", body.get("function"), body.get("where"))
        for e in body.get("events_in_source_order", []):
            print("    ", e)
        tr = T.translate(gen_dir(ctx), ["-O0"])
        print("current tree (%s):" % vlib.REPO)
        for b in tr["publish"]["bodies"]:
            if b["name"] == body.get("function"):
                evs = ["%s %s" % e for e in b["events"]]
                print("   %s: %s" % (b["name"], "; ".join(evs)))
                print("   model: pub_check =", not any(e.startswith(("PPubSelf", "PSwitchPlainThread")) for e in evs))
        return 0
    if str(body.get("theorem_or_correspondence", "")).startswith(("C03_custom_data", "C03_make_context")):
        print("recorded:")
        for e in body.get("observed", []) or [body.get("what")]:
            print("   ", e)
        tr = T.translate(gen_dir(ctx), ["-O0"])
        print("current tree (%s): myth_create_ex_body, case custom_data_size > 0, as interpreted by the translator:" % vlib.REPO)
        for n in tr["carve"]["notes"] + ["NOT UNDERSTOOD: " + u for u in tr["carve"]["unknown"]]:
            print("   ", n)
        print("make_context ops:", tr["mk"]["empty"], tr["mk"]["voidcall"])
        res, out = diag_run(gen_dir(ctx), T.coq_data(tr, "(* replay *)"), len(tr["sites"]))
        if res:
            print("model: cd_check =", res["cd"], " mk_check =", res["mk"])
            for e in res["cddiag"][:8] + [x[1:] for x in res["mkdiag"][:8]]:
                print("   ", describe_diag(e))
        return 0
    if "case" in body and "library_opt" in body:
        exe = build_probe(ctx, body["library_opt"])
        rc, out = run_case(exe, body["case"])
        if body["case"].startswith("Y"):
            # the failing input is an interleaving with a thief: repeat the same case until it shows again
            for attempt in range(1, 13):
                if oracle(body["case"], rc, out):
                    break
                rc, out = run_case(exe, body["case"])
            print("yield storm (timing dependent) - attempts:", attempt)
        print("case (workers nthreads iters seed):", body["case"], " library", body["library_opt"])
        print("impl:  ", out, "(exit %d)" % rc)
        print("oracle:", oracle(body["case"], rc, out))
        return 0
    print(json.dumps(body, indent=1)[:3000])
    return 0
