"""Source step-table obligation for the uncond (C08) and once (C14) routines.

The trace tie sees the library only through its MYTH_VERIF_POINTs on the runs that were made.  A branch
that no run takes (a spin loop that gives up after N seconds, a fast path for one worker, ...) is invisible to
it however many runs are made.  This check closes that class structurally: the functions the models
transliterate are read from the PREPROCESSED source of the current tree (vlib.REPO, -DMYTH_VERIF), reduced to
their protocol-relevant atoms

    HOOK(kind,"id",obj,val)     a MYTH_VERIF_POINT / _SPIN / _EVENT
    SWAP(cb;ctx,next,a1,a2,a3)  the context switch with callback
    CALL f(args)                every function call (except myth_ensure_init / myth_get_current_env)
    STORE / READ / ADDR x->th, x->state      every access to the object's words
    while(c) if(c) else for(..) do switch(c) return e break continue goto l ?: ASM

in textual order, locals and parameters renamed canonically (P0.. / L0.. in order of first appearance), and
compared with the table below, which is the model's step table (coq/Uncond/UncondModel.v, coq/Once/OnceModel.v)
written as atoms.  Anything missing or extra - a second exit from the spin loop, an extra CAS or store to the
word, a second push, a different loop condition - is a mismatch.  Whitespace, comments, renamed locals and
changes to statements that are not atoms (declarations, `x->env = env`, casts of unused values) are not."""
import os, re, difflib
import vlib

IGNORE_CALLS = {"myth_ensure_init", "myth_get_current_env"}
KEYWORDS = {"if", "else", "while", "for", "do", "switch", "case", "default", "return", "break", "continue", "goto",
            "sizeof", "asm", "__asm__", "volatile", "__volatile__", "const", "static", "inline", "struct", "union",
            "enum", "unsigned", "signed", "int", "long", "short", "char", "void", "float", "double", "register",
            "extern", "typedef", "_Bool", "__extension__", "__attribute__", "__inline", "__inline__", "restrict",
            "__restrict", "HOOK", "SWAP", "ASM"}
GLOBALS = {"g_myth_verif_cb", "myth_once_state_init", "myth_once_state_in_progress", "myth_once_state_completed",
           "NULL"}
WORDS = ("th", "state")

_TOK = re.compile(r'"(?:[^"\\]|\\.)*"|[A-Za-z_]\w*|\d\w*|->|==|!=|<=|>=|&&|\|\||\+\+|--|<<=|>>=|[-+*/%&|^]=|<<|>>|\S')
_HOOK = re.compile(r'do\s*\{\s*myth_verif_cb_t\s+cb__\s*=\s*g_myth_verif_cb\s*;\s*if\s*\(\s*cb__\s*\)\s*cb__\s*\(\s*\(\s*(\d)\s*\)\s*,'
                   r'\s*\(\s*("[^"]*")\s*\)\s*,\s*\(const void \*\)\((.*?)\)\s*,\s*\(long\)\((.*?)\)\s*\)\s*;\s*\}\s*while\s*\(\s*0\s*\)')


def preprocess(unit="myth_if_native.c"):
    rc, out = vlib.sh(["gcc", "-E", "-P"] + vlib.lib_cflags() + [os.path.join(vlib.REPO, "src", unit)], timeout=120)
    if rc != 0:
        raise vlib.BuildError("cannot preprocess src/%s: %s" % (unit, out[-400:]))
    return out


def func(txt, name):
    """(parameter text, body text) of the definition of `name`, or None"""
    for m in re.finditer(r"\b%s\s*\(([^;{}()]*(?:\([^()]*\)[^;{}()]*)*)\)\s*\{" % re.escape(name), txt):
        i, depth = m.end(), 1
        while i < len(txt) and depth:
            depth += {"{": 1, "}": -1}.get(txt[i], 0)
            i += 1
        return m.group(1), txt[m.end():i - 1]
    return None


def _match_paren(s, i):
    """s[i] == '(' -> index just after the matching ')'"""
    depth = 0
    while i < len(s):
        if s[i] == '"':
            i += 1
            while i < len(s) and s[i] != '"':
                i += 2 if s[i] == "\\" else 1
        elif s[i] == "(":
            depth += 1
        elif s[i] == ")":
            depth -= 1
            if depth == 0:
                return i + 1
        i += 1
    return len(s)


def collapse(body):
    body = _HOOK.sub(lambda m: "HOOK(%s,%s,%s,%s)" % (m.group(1), m.group(2), m.group(3), m.group(4)), body)
    out, i = [], 0
    for m in re.finditer(r"\b(?:asm|__asm__)\s*(?:volatile|__volatile__)?\s*\(", body):
        if m.start() < i:
            continue
        j = _match_paren(body, m.end() - 1)
        a = body[m.start():j]
        cb = re.search(r'"call\s*"\s*""\s*"(\w+)"', a)
        ops = re.search(r':\s*"0"\(\(void\*\)\((.*?)\)\)\s*,\s*"1"\(\(void\*\)\((.*?)\)\)\s*,\s*"4"\(\(void\*\)(.*?)\)\s*,'
                        r'\s*"3"\(\(void\*\)(.*?)\)\s*,\s*"2"\(\(void\*\)(.*?)\)\s*:', a)
        out.append(body[i:m.start()])
        out.append("SWAP(%s;%s,%s,%s,%s,%s)" % ((cb.group(1),) + ops.groups()) if cb and ops else "ASM")
        i = j
    out.append(body[i:])
    return re.sub(r"\(\s*\(\s*void\s*\*\s*\)\s*0\s*\)", "0", "".join(out))        # NULL


def _params(ptxt):
    ps = []
    for p in ptxt.split(","):
        ids = re.findall(r"[A-Za-z_]\w*", re.sub(r"\([^()]*\)\s*$", "", p.strip()))   # `void (*f)(void)` -> f
        m = re.search(r"\(\s*\*\s*([A-Za-z_]\w*)\s*\)", p)
        if m:
            ps.append(m.group(1))
        elif ids and ids[-1] not in KEYWORDS:
            ps.append(ids[-1])
    return ps


def atoms(ptxt, body, words=None, globals_=None, ignore_calls=None, keywords=None, renumber=False, let=False):
    """list of (canonical atom, readable atom).
    The optional arguments (defaults = the module constants, i.e. the behaviour the C08 / C14 tables were written
    against) let tools/props/sync_steps.py reuse the extractor for other objects: `words` = the fields whose accesses
    are atoms, `globals_` = identifiers never renamed, `ignore_calls` = calls that are no atoms, `keywords` = extra
    words that are neither calls nor locals, `renumber` = number the locals in order of first appearance IN THE ATOMS
    (instead of in the whole function text), so that an added declaration that is no atom does not shift the names,
    `let` = a read of a word inside a plain assignment / initialisation of a local (`long s = x->state;`,
    `new_s = s + (1L << x->bits);`) is reported as `LET local=expression` (once per statement) instead of `READ x->w`."""
    WORDS = globals()["WORDS"] if words is None else tuple(words)
    GLOBALS = globals()["GLOBALS"] if globals_ is None else set(globals_)
    IGNORE_CALLS = globals()["IGNORE_CALLS"] if ignore_calls is None else set(ignore_calls)
    KEYWORDS = globals()["KEYWORDS"] if keywords is None else (globals()["KEYWORDS"] | set(keywords))
    toks = _TOK.findall(collapse(body))
    params = _params(ptxt)
    ren = {p: "P%d" % i for i, p in enumerate(params)}
    nloc = [0]
    lname = "\x01%d\x02" if renumber else "L%d"

    def canon(k):
        t = toks[k]
        if not re.match(r"[A-Za-z_]", t) or t in KEYWORDS or t in GLOBALS:
            return t
        if k > 0 and toks[k - 1] in ("->", "."):
            return t                                  # a field
        if t in ren:
            return ren[t]
        if t.startswith("myth_") or t.startswith("g_myth"):
            return t                                  # a name of the library's global namespace
        if k + 1 < len(toks) and toks[k + 1] == "(":
            return t                                  # a function
        if t.endswith("_t") or t.isupper():
            return t                                  # a type / macro remnant
        ren[t] = lname % nloc[0]
        nloc[0] += 1
        return ren[t]

    ctoks = [canon(k) for k in range(len(toks))]

    def span(a, b):
        return "".join(ctoks[a:b]), " ".join(toks[a:b])

    def close(k):                                     # toks[k] == '(' -> index of the matching ')'
        d = 0
        for j in range(k, len(toks)):
            d += {"(": 1, ")": -1}.get(toks[j], 0)
            if d == 0:
                return j
        return len(toks) - 1

    def upto_semicolon(k):
        d = 0
        for j in range(k, len(toks)):
            if toks[j] in "({[":
                d += 1
            elif toks[j] in ")}]":
                d -= 1
            elif toks[j] == ";" and d <= 0:
                return j
        return len(toks)

    res = []
    let_done = {}
    k = 0
    while k < len(toks):
        t = toks[k]
        nxt = toks[k + 1] if k + 1 < len(toks) else ""
        if t in ("HOOK", "SWAP") and nxt == "(":
            e = close(k + 1)
            c, r = span(k, e + 1)
            res.append((c, r))
            k = e + 1
            continue
        if t == "ASM":
            res.append(("ASM", "inline asm that is not the context switch with callback"))
        elif t in ("while", "if", "switch", "for") and nxt == "(":
            e = close(k + 1)
            c, r = span(k + 2, e)
            res.append(("%s(%s)" % (t, c), "%s (%s)" % (t, r)))
        elif t in ("else", "do", "break", "continue"):
            res.append((t, t))
        elif t == "goto":
            res.append(("goto", "goto " + nxt))
        elif t == "return":
            e = upto_semicolon(k + 1)
            c, r = span(k + 1, e)
            res.append(("return " + c, "return " + r))
        elif t == "?":
            res.append(("?:", "conditional expression ?:"))
        elif re.match(r"[A-Za-z_]", t) and nxt == "(" and t not in KEYWORDS and t not in IGNORE_CALLS:
            e = close(k + 1)
            c, r = span(k, e + 1)
            res.append(("CALL " + c, "call " + r))
        elif t in WORDS and k > 0 and toks[k - 1] in ("->", "."):
            b = k - 1                                 # start of the postfix expression
            while b - 1 >= 0 and ((re.match(r"[A-Za-z_]", toks[b - 1]) and toks[b - 1] not in KEYWORDS) or toks[b - 1] in ("->", ".")):
                b -= 1
            lhs_c, lhs_r = span(b, k + 1)
            pre = toks[b - 1] if b > 0 else ""
            if nxt == "=" or re.match(r"^(<<=|>>=|[-+*/%&|^]=)$", nxt) or nxt in ("++", "--") or pre in ("++", "--"):
                e = upto_semicolon(k + 1)
                c, r = span(k + 1, e)
                res.append(("STORE %s%s" % (lhs_c, c), "store %s %s" % (lhs_r, r)))
            elif pre == "&" and (b < 2 or not re.match(r"[A-Za-z_\d)\]]", toks[b - 2])):
                res.append(("ADDR " + lhs_c, "address of %s passed on" % lhs_r))
            else:
                s0 = b                                # start of the enclosing statement
                while s0 - 1 >= 0 and toks[s0 - 1] not in (";", "{", "}"):
                    s0 -= 1
                eq = [j for j in range(s0, b) if toks[j] == "="]
                if (let and eq and toks[s0] not in ("if", "while", "for", "return", "switch", "do", "else", "case", "default", "goto",
                                                    "sizeof", "HOOK", "SWAP", "ASM", "ASSERT")
                        and not any(toks[j] in ("(", ")", "[", "]", "->", ".", ",", "?") for j in range(s0, eq[0]))
                        and eq[0] - 1 >= s0 and re.match(r"[A-Za-z_]", toks[eq[0] - 1])):
                    if let_done.get(s0) is None:
                        let_done[s0] = True
                        c, r = span(eq[0] - 1, upto_semicolon(k + 1))
                        res.append(("LET " + c, "local " + r))
                else:
                    res.append(("READ " + lhs_c, "read of " + lhs_r))
        k += 1
    if renumber:
        order = {}
        res = [(re.sub("\x01(\\d+)\x02", lambda m: "L%d" % order.setdefault(m.group(1), len(order)), c), r) for c, r in res]
    return res


# ---------------------------------------------------------------------------------------------------------
# the tables (= the step tables of the models, as atoms)
# ---------------------------------------------------------------------------------------------------------

UNIT = "myth_if_native.c"      # the translation unit whose copies of the inline bodies the public API uses

UNCOND_TABLE = {
    # the public entry points do nothing but call the bodies
    "myth_uncond_wait": ['return myth_uncond_wait_body(P0)', 'CALL myth_uncond_wait_body(P0)'],
    "myth_uncond_signal": ['return myth_uncond_signal_body(P0)', 'CALL myth_uncond_signal_body(P0)'],
    "myth_uncond_init": ['return myth_uncond_init_body(P0)', 'CALL myth_uncond_init_body(P0)'],
    "myth_uncond_init_body": ['STORE P0->th=0', 'return 0'],
    # callback: one publication, blind store of the caller (P1 = arg2 = cur via L1)
    "myth_uncond_wait_cb": [
        'HOOK(2,"cb.enter",L1,0)',
        'HOOK(0,"uncond.publish",L0,L1)',
        'STORE L0->th=L1',
        'HOOK(2,"cb.leave",L1,0)',
    ],
    # wait: pop the next thread, switch with the callback (u, cur); no access to u->th, no other exit
    "myth_uncond_wait_body": [
        'CALL myth_queue_pop(&L1->runnable_q)',
        'if(L3)',
        'else',
        'SWAP(myth_uncond_wait_cb;&L2->context,L4,P0,L2,0)',
        'return 0',
    ],
    # signal: read; spin with exactly one exit (th != NULL); clear; exactly one push of the thread read
    "myth_uncond_signal_body": [
        'HOOK(0,"uncond.sig.read",P0,0)',
        'READ P0->th',
        'while(!L2)',
        'HOOK(1,"uncond.sig.spin",P0,0)',
        'HOOK(0,"uncond.sig.read",P0,0)',
        'READ P0->th',
        'HOOK(0,"uncond.sig.clear",P0,L2)',
        'STORE P0->th=0',
        'HOOK(0,"uncond.sig.push",P0,L2)',
        'CALL myth_queue_push(&L1->runnable_q,L2)',
        'return 0',
    ],
}

ONCE_TABLE = {
    "myth_once": ['return myth_once_body(P0,P1)', 'CALL myth_once_body(P0,P1)'],
    # exactly one CAS old -> new
    "myth_once_try_set": [
        'return __sync_bool_compare_and_swap(&P0->state,P1,P2)',
        'CALL __sync_bool_compare_and_swap(&P0->state,P1,P2)',
        'ADDR P0->state',
    ],
    # the wait loop exits only on state == the awaited value
    "myth_once_wait_until": [
        'HOOK(0,"once.wait.read",P0,0)',
        'READ P0->state',
        'while(L0!=P1)',
        'HOOK(1,"once.wait.spin",P0,0)',
        'CALL myth_yield()',
        'HOOK(0,"once.wait.read",P0,0)',
        'READ P0->state',
        'return 0',
    ],
    # read; one CAS init -> in_progress; init_routine; one store of completed; everybody else waits for completed
    "myth_once_body": [
        'HOOK(0,"once.read",P0,0)',
        'READ P0->state',
        'if(L0==myth_once_state_init)',
        'HOOK(0,"once.cas",P0,0)',
        'if(myth_once_try_set(P0,myth_once_state_init,myth_once_state_in_progress))',
        'CALL myth_once_try_set(P0,myth_once_state_init,myth_once_state_in_progress)',
        'CALL P1()',
        'HOOK(0,"once.done",P0,0)',
        'STORE P0->state=myth_once_state_completed',
        'return 0',
        'CALL myth_once_wait_until(P0,myth_once_state_completed)',
        'return 0',
    ],
}


def check(table, unit="myth_if_native.c"):
    """list of messages (empty = the source has exactly the steps of the table)"""
    txt = preprocess(unit)
    bad = []
    for fn, want in table.items():
        f = func(txt, fn)
        if f is None:
            bad.append("%s: definition not found in the preprocessed src/%s" % (fn, unit))
            continue
        got = atoms(f[0], f[1])
        gc = [a for a, _ in got]
        if gc == want:
            continue
        msgs = []
        for op, a0, a1, b0, b1 in difflib.SequenceMatcher(None, want, gc, autojunk=False).get_opcodes():
            if op in ("delete", "replace"):
                msgs += ["missing `%s`" % w for w in want[a0:a1]]
            if op in ("insert", "replace"):
                msgs += ["unexpected `%s`" % got[j][1] for j in range(b0, b1)]
        bad.append("%s: %s" % (fn, "; ".join(msgs[:8])))
    return bad


def dump(table, unit="myth_if_native.c"):
    txt = preprocess(unit)
    for fn in table:
        f = func(txt, fn)
        print("    %r: [" % fn)
        for c, r in (atoms(f[0], f[1]) if f else []):
            print("        %r,        # %s" % (c, r))
        print("    ],")
