"""Internal spin lock + sleep queue (coq/Spin): theorems and unit correspondence.  Not a property of its own:
`attach(ctx)` is called by the checks whose protocol models treat a spin-locked region as one step and the sleep
queue as a FIFO list (C04, C05, C07, C16); `./check SPIN` runs it alone."""
import os
import vlib


def _prove(ctx, vfile, module, tag):
    broken = []
    ok, log = vlib.coq_make([vfile[:-2] + ".vo"])
    names = vlib.theorems_in(vfile)
    pa = vlib.print_assumptions(module, names, os.path.join(ctx.dir, "pa_" + tag)) if ok else {}
    stm = vlib.theorem_statements(vfile)
    for n in names:
        a = pa.get(n)
        ctx.cov["theorems"][n] = {"statement": stm.get(n, "")[:600], "status": "checked" if a is not None else "FAILED", "assumptions": a}
        ctx.cov["obligations"] += 1
        if a is not None:
            ctx.cov["discharged"] += 1
        else:
            broken.append(n)
    bad = vlib.coq_hygiene([vfile])
    if bad:
        ctx.violation("hygiene", "forbidden tokens: " + "; ".join(bad[:10]), {"theorem_or_correspondence": "coq hygiene (%s)" % tag, "tokens": bad}, found=False)
    return broken


def gen_cases(r, n):
    cases = []
    for i in range(n):
        ops, inq, nxt = [], [], 1
        for _ in range(r.rng(0, 40)):
            k = r.below(5)
            if k <= 1 or not inq and k == 2:
                # enqueue a fresh item, or re-enqueue one that has left the queue (items are reused)
                t = nxt
                nxt += 1
                if r.chance(1, 4) and nxt > 3:
                    cand = [x for x in range(1, nxt - 1) if x not in inq]
                    if cand:
                        t = r.choice(cand)
                        nxt -= 1
                ops.append("e%d" % t)
                inq.append(t)
            else:
                ops.append("d")
                if inq:
                    inq.pop(0)
        cases.append("q " + " ".join(ops))
    for i in range(n):
        nt, rounds = r.rng(1, 4), r.rng(1, 3)
        sched = [str(r.below(nt)) for _ in range(r.rng(0, 60))]
        # bursts: one thread preempted right after its CAS while others hammer the lock
        if r.chance(1, 2):
            sched = ["0"] + [str(r.rng(0, nt - 1)) for _ in range(20)] + sched
        cases.append("s %d %d %s" % (nt, rounds, " ".join(sched)))
    return cases


def oracle(case, out):
    w = case.split()
    if w[0] == "q":
        # FIFO semantics stated directly
        q, deq = [], []
        for o in w[1:]:
            if o[0] == "e":
                q.append(o[1:])
            else:
                deq.append(q.pop(0) if q else "-")
        exp = "q deq=[%s] final=[%s] head=%s tail=%s" % (" ".join(deq), " ".join(q), q[0] if q else "-", q[-1] if q else "-")
        return None if out.strip() == exp else "sleep queue is not FIFO: expected '%s'" % exp
    if w[0] == "s":
        # mutual exclusion: a trylock that sees locked=0 acquires; nobody else may see 0 until the holder's unlock
        holder = None
        for ent in out.split()[1:]:
            if ent.startswith("final="):
                return None if ent == "final=0" else "lock left held"
            t, pid, lk = ent.rsplit(":", 2)
            if pid == "spin.trylock":
                if lk == "0":
                    if holder is not None:
                        return "two holders: %s acquired while %s holds" % (t, holder)
                    holder = t
            elif pid == "spin.unlock":
                if holder != t or lk != "1":
                    return "unlock by %s while holder is %s (locked=%s)" % (t, holder, lk)
                holder = None
        return None
    return None


def attach(ctx, n=60):
    broken = _prove(ctx, "Properties_Spin.v", "Properties_Spin", "spin")
    exe = vlib.cc(os.path.join(vlib.BUILD, "spin", "spin_unit-" + vlib.sha(vlib.repo_src_hash("src"))[:10]),
                  [os.path.join(vlib.VERIF, "harness", "spin_unit.c")], flags=vlib.lib_cflags() + ["-O0", "-g"], libs=["-lpthread"])
    drv = vlib.build_driver("Spin", "Extract_Spin.v", "driver_Spin.ml", ["Spin/SpinModel.v"])
    cases = gen_cases(ctx.rng, n)
    impl, rc1, _ = vlib.run_lines([exe], cases, timeout=120)
    model, rc2, _ = vlib.run_lines([drv], cases, timeout=120)
    diffs = vlib.diff_lines(cases, [l.strip() for l in impl], [l.strip() for l in model])
    fails = [(c, impl[i] if i < len(impl) else "<no output>", oracle(c, impl[i] if i < len(impl) else ""))
             for i, c in enumerate(cases)]
    fails = [f for f in fails if f[2]]
    ctx.cov.setdefault("correspondence", {})["spin"] = {"cases": len(cases), "disagreements": len(diffs), "oracle_failures": len(fails)}
    ctx.cov["trusted_base"] += ["spin lock / sleep queue tie: harness/spin_unit.c (explicit-schedule controller on the spin.trylock / "
                                "spin.unlock POINTs), ocaml/driver_Spin.ml, extraction of coq/Spin/SpinModel.v"]
    if fails:
        c, o, msg = fails[0]
        ctx.violation("spin-oracle", msg, {"case": c, "observed": o, "level": "unit"}, found=True)
    elif diffs:
        i, c, a, b = diffs[0]
        ctx.violation("spin-correspondence", "spin lock / sleep queue model and code disagree on: " + c,
                      {"theorem_or_correspondence": "correspondence coq/Spin/SpinModel.v <-> src/myth_spinlock_func.h, src/myth_sleep_queue_func.h",
                       "case": c, "observed": a, "expected": b}, found=False)
    if broken:
        ctx.violation("proof", "theorem(s) no longer check: " + ", ".join(broken), {"theorem_or_correspondence": ", ".join(broken)}, found=False)


def run(ctx):
    attach(ctx, 60 if not ctx.thorough else 1500)
    ctx.cov["checker_cmd"] = "cd /verif/coq && make Properties_Spin.vo"
    return ctx.finish(assumptions=["an item is enqueued only after it has left every queue (one next field per item)"])


def replay(ctx, path):
    import json
    print(json.load(open(path)).get("case"))
    return 0
