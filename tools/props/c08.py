"""C08 - uncondition variable: signal always hands over the one waiter, early or late
(DESIGN.md section 4 C08, Appendix A.6 / B.6).

Proof side : coq/Uncond/UncondModel.v, UncondProofs.v, Properties_C08.v.
Tie        : generated hand-off programs run on the REAL library under the schedule controller
             (harness/lib_interp.c); every trace is (1) projected per uncondition variable and replayed
             through the extracted model (ocaml/driver_C08.ml), (2) judged by an independent oracle of the
             property (resume count per rendezvous, no activity of a waiter before its hand-over, signal
             returns after its push, sequence numbers, verdict DONE).

Conventions of the generated programs: the announcement of a rendezvous on uncond `uK` is the operation
`add a_uK 1` (its R line is the atomic announcement of the documented protocol)."""
import os, json, re
import vlib, trace
import machine_common
from props import c08c14_steps as steps

VF = ["Uncond/UncondModel.v", "Uncond/UncondProofs.v"]
POINTS = ["uncond.publish", "uncond.sig.read", "uncond.sig.clear", "uncond.sig.push"]


def private_interp(ctx):
    """build harness/lib_interp.c against vlib.REPO and keep a private copy: the shared cache build/li is
    pruned by concurrent checks of other properties"""
    import shutil
    last = None
    for _ in range(4):
        exe = trace.build_interp()
        mine = os.path.join(ctx.dir, "interp", os.path.basename(exe))
        try:
            os.makedirs(os.path.dirname(mine), exist_ok=True)
            if not os.path.exists(mine):
                shutil.copy2(exe, mine + ".tmp%d" % os.getpid())
                os.rename(mine + ".tmp%d" % os.getpid(), mine)
            os.utime(mine, None)
            d = os.path.dirname(mine)
            olds = sorted((os.path.getmtime(os.path.join(d, f)), f) for f in os.listdir(d))
            for _, f in olds[:-3]:                      # keep the three most recent (concurrent runs of this check)
                try:
                    os.remove(os.path.join(d, f))
                except OSError:
                    pass
            return mine
        except (OSError, IOError) as e:
            last = e
    raise vlib.BuildError("lib_interp disappeared while copying: %s" % last)


def build(ctx):
    exe = private_interp(ctx)
    drv = vlib.build_driver("C08", "Extract_C08.v", "driver_C08.ml", VF)
    return exe, drv


# --------------------------------------------------------------------------------------------------
# projection of a trace onto Abs(uncond), one block per uncondition variable
# --------------------------------------------------------------------------------------------------

def _tv(v):
    if v and v[0] == "t" and v[1:].isdigit():
        return v[1:]
    if v in ("-", "0"):
        return "-"
    return "X" + v          # an unknown thread / unexpected value: never equal to a model value


def uncond_block(u, nthreads, events):
    lines, src = ["begin %d" % nthreads], [None]
    stack = {}
    for e in events:
        if e.kind == "C":
            stack.setdefault(e.actor, []).append(e.words)
            if e.words[0] in ("uwait", "usignal") and e.words[1] == u:
                lines.append("call %d %s" % (e.actor, "wait" if e.words[0] == "uwait" else "signal"))
                src.append(e)
        elif e.kind == "R":
            st = stack.get(e.actor)
            w = st.pop() if st else [""]
            if w[0] in ("uwait", "usignal") and w[1] == u:
                lines.append("ret %d %s" % (e.actor, e.words[1]))
                src.append(e)
            elif w[0] == "add" and w[1] == "a_" + u:
                lines.append("announce %d" % e.actor)
                src.append(e)
        elif e.kind == "P":
            pid, obj, val = e.words[0], e.words[1], e.words[2]
            if obj != u:
                continue
            m = re.search(r"th=(\S+)", e.snap)
            obs = _tv(m.group(1)) if m else "X?"
            a = e.actor if e.actor is not None else 9999
            lines.append("tick %d %s %s %s %s" % (a, e.ctx, pid, _tv(val), obs))
            src.append(e)
    lines.append("end")
    src.append(None)
    return lines, src


# --------------------------------------------------------------------------------------------------
# the independent oracle of the property (no model involved)
# --------------------------------------------------------------------------------------------------

_MS = re.compile(r"M cur=\[(.*?)\] dq=\[(.*)\]$")


def insertion_check(trace_text):
    """the real insertion behind C08_signal_hands_over, on every run that carries machine snapshots (`msnap 1`):
    the POINT uncond.sig.push sits BEFORE myth_queue_push.  The line is written immediately before the access and
    every participant writes its next line (with the snapshot) as soon as it proceeds, before it touches anything,
    so the snapshot of the FIRST line after the push line - whoever writes it - shows the machine right after the
    push: the handed-over thread must be exactly once in the SIGNALLER's run queue and nowhere else (no other
    queue, no worker's current thread).  Returns (message | None, number of insertions checked)."""
    lines = trace_text.split("\n")
    n = 0
    for i, line in enumerate(lines):
        if not line.startswith("P ") or " uncond.sig.push " not in line:
            continue
        w = line.split()
        if len(w) < 7:
            continue
        wk, x = w[2], w[6]
        j = i + 1
        while j < len(lines) and lines[j][:2] not in ("C ", "R ", "P ", "S ", "E "):
            j += 1
        if j + 1 >= len(lines) or not lines[j + 1].startswith("M "):
            continue                                    # no snapshot (run cut short / msnap off)
        m = _MS.match(lines[j + 1])
        if not m:
            continue
        cur = [c for c in m.group(1).split(",")]
        dqs = [q.split() for q in re.findall(r"\[([^\[\]]*)\]", m.group(2))]
        k = int(wk[1:])
        mine = dqs[k].count(x) if k < len(dqs) else 0
        total = sum(q.count(x) for q in dqs) + cur.count(x)
        n += 1
        if mine != 1 or total != 1:
            return ("after the push of %s (%s) it is %d time(s) in the signaller's run queue and %d time(s) in a run queue "
                    "or current anywhere (expected exactly once, in w%d's queue): %s"
                    % (x, line, mine, total, k, lines[j + 1])), n
    return None, n


def oracle(case, res):
    """returns (None | message, stats)"""
    objs, threads, scripts, _ = trace.parse_case(case)
    expect = {}
    for line in case.split("\n"):
        w = line.split()
        if len(w) == 5 and w[0] == "#" and w[1] == "expect":
            expect[(int(w[2]), int(w[3]))] = int(w[4])
    unconds = [n for n, (k, _) in objs.items() if k == "uncond"]
    evs = res["events"]
    stats = {"rendezvous": 0, "early": 0, "late": 0, "same_worker": 0, "diff_worker": 0, "resumed_elsewhere": 0,
             "main_waits": 0, "insertions_checked": 0}
    # per thread call stack, top-level op index
    stack, topidx = {}, {}
    wait_open = {}      # (u, T) -> {"pushes": n, "published": bool}
    sig_open = {}       # (u, T) -> {"pushes": n, "spun": bool}
    npush = {u: 0 for u in unconds}
    nwait = {u: 0 for u in unconds}
    nsig = {u: 0 for u in unconds}
    for e in evs:
        T = e.actor
        # a waiter must not run between its call of wait and its hand-over
        if e.ctx == "m" and T is not None and e.kind in "CRPE":
            for (u, W), w in wait_open.items():
                if W == T and w["pushes"] == 0 and not (e.kind == "C" and e is w["c"]):
                    if e.kind == "E" and e.words[0] in ("cb.enter", "cb.leave"):
                        continue
                    return ("t%d runs (%s) inside uwait %s before any signal handed it over (resume without a signal)"
                            % (T, e.raw, u)), stats
        if e.kind == "C":
            st = stack.setdefault(T, [])
            if not st:
                topidx[T] = topidx.get(T, -1) + 1
            st.append((e.words, topidx[T], len(st)))
            if e.words[0] == "uwait" and e.words[1] in npush:
                u = e.words[1]
                for (u2, W2), o2 in wait_open.items():
                    if u2 == u and o2["pushes"] == 0:      # handed over but not yet resumed does not count
                        return "generator error: two waits outstanding on %s" % u, stats
                wait_open[(u, T)] = {"pushes": 0, "published": False, "c": e, "w": e.w}
                nwait[u] += 1
                if T == 0:
                    stats["main_waits"] += 1
            elif e.words[0] == "usignal" and e.words[1] in npush:
                sig_open[(e.words[1], T)] = {"pushes": 0, "spun": False}
                nsig[e.words[1]] += 1
        elif e.kind == "R":
            st = stack.get(T) or []
            if not st:
                continue
            w, idx, depth = st.pop()
            if w[0] == "uwait" and w[1] in npush:
                o = wait_open.pop((w[1], T), None)
                if o is None or o["pushes"] != 1:
                    return "uwait %s of t%d returned after %s hand-overs (expected exactly 1)" % (
                        w[1], T, o["pushes"] if o else "?"), stats
                if e.words[1] != "0":
                    return "uwait returned %s" % e.words[1], stats
                stats["rendezvous"] += 1
                if o["w"] != e.w:
                    stats["resumed_elsewhere"] += 1
            elif w[0] == "usignal" and w[1] in npush:
                o = sig_open.pop((w[1], T), None)
                if o is None or o["pushes"] != 1:
                    return "usignal %s of t%d returned after %s pushes (it must hand over exactly one waiter before returning)" % (
                        w[1], T, o["pushes"] if o else "?"), stats
                if e.words[1] != "0":
                    return "usignal returned %s" % e.words[1], stats
                stats["early" if o["spun"] else "late"] += 1
            if depth == 0 and (T, idx) in expect and int(e.words[1]) != expect[(T, idx)]:
                return "t%d op %d (%s) returned %s, expected %d (sequence number / hand-off value)" % (
                    T, idx, " ".join(w), e.words[1], expect[(T, idx)]), stats
        elif e.kind == "S" and e.words[0] == "uncond.sig.spin":
            o = sig_open.get((e.words[1], T))
            if o:
                o["spun"] = True
                o["nspin"] = o.get("nspin", 0) + 1
                stats["maxspin"] = max(stats.get("maxspin", 0), o["nspin"])
        elif e.kind == "P" and e.words[1] in npush:
            u, pid = e.words[1], e.words[0]
            if pid == "uncond.publish":
                # the slot may only ever hold a thread whose context is saved: the publication must be made
                # by the context-switch callback of the waiter (which runs after the save), naming itself
                if e.ctx != "c" or ("t%s" % T) != e.words[2]:
                    return ("%s is published in %s from %s, i.e. while it is still running (not from its own switch callback: "
                            "its context is not saved yet), so a signal could resume a half-saved context (%s)"
                            % (e.words[2], u, "main context" if e.ctx == "m" else "the callback of t%s" % T, e.raw)), stats
                for (u2, W2), o in wait_open.items():
                    if u2 == u and ("t%d" % W2) == e.words[2]:
                        o["published"] = True
            elif pid == "uncond.sig.push":
                x = e.words[2]
                npush[u] += 1
                tgt = None
                for (u2, W2), o in wait_open.items():
                    if u2 == u and ("t%d" % W2) == x:
                        tgt = o
                if tgt is None:
                    return "push on %s hands over %s, which is not waiting on it (%s)" % (u, x, e.raw), stats
                if tgt["pushes"] >= 1:
                    return "double resume: %s handed over twice in one rendezvous on %s" % (x, u), stats
                if not tgt["published"]:
                    return "%s handed over before it published itself from the switch callback" % x, stats
                tgt["pushes"] += 1
                stats["same_worker" if tgt["w"] == e.w else "diff_worker"] += 1
                so = sig_open.get((u, T))
                if so is None:
                    return "push on %s outside a usignal call (%s)" % (u, e.raw), stats
                so["pushes"] += 1
    msg, nins = insertion_check(res["trace_text"])
    stats["insertions_checked"] = nins
    if msg:
        return msg, stats
    sp = machine_common.oracle_single_place(res["trace_text"])
    if sp:
        return sp, stats
    if res["verdict"] is None:
        return "run produced no verdict (the library crashed?) rc=%s: %s" % (res["rc"], res.get("stderr", "")[-200:]), stats
    if not res["verdict"].startswith("DONE"):
        return "verdict %s (a waiter was never resumed or a signal never completed)" % res["verdict"], stats
    for u in unconds:
        if not (npush[u] == nwait[u] == nsig[u]):
            return "%s: %d waits, %d signals, %d hand-overs" % (u, nwait[u], nsig[u], npush[u]), stats
    if wait_open or sig_open:
        return "calls still open at the end: %s %s" % (list(wait_open), list(sig_open)), stats
    missing = [k for k in expect if k[0] not in topidx or topidx[k[0]] < k[1]]
    if missing:
        return "operations with expected values never executed: %s" % missing[:4], stats
    return None, stats


# --------------------------------------------------------------------------------------------------
# program generators.  Every program respects the documented protocol by construction and cannot
# livelock on the unchanged library: a signal can find its waiter not yet published only while that
# waiter is running on another worker, except for the features marked "unsafe" (a yield or a
# parent-first creation between the announcement and the wait), which are used only when a worker
# is guaranteed to be free to run the waiter (workers >= 2, at most one such pair per program).
# --------------------------------------------------------------------------------------------------

class Prog:
    def __init__(self):
        self.objs, self.threads, self.expect, self.n = [], {0: []}, [], 1

    def new_thread(self):
        t = self.n
        self.n += 1
        self.threads[t] = []
        return t

    def op(self, t, s):
        self.threads[t].append(s)
        return len(self.threads[t]) - 1

    def exp(self, t, s, v):
        self.expect.append((t, self.op(t, s), v))

    def text(self, workers, seed, pswitch, maxsteps=30000):
        c = trace.case_text(workers, seed, self.objs, self.threads, pswitch=pswitch, maxsteps=maxsteps,
                            extra=({"msnap": 1} if maxsteps <= 30000 else None))
        return c + "".join("# expect %d %d %d\n" % e for e in self.expect)


def ysafe(r, p, t, k=2):
    for _ in range(r.below(k + 1)):
        p.op(t, "yield")


def pair_handoff(r, p, i, unsafe):
    """creator announces on behalf of the child; one rendezvous"""
    u = "u%d" % i
    p.objs += ["%s uncond" % u, "a_%s var 0" % u, "seq%d var 0" % i]
    P, C = p.new_thread(), p.new_thread()
    p.op(0, "create %d" % P)
    ysafe(r, p, P)
    p.op(P, "add a_%s 1" % u)
    p.op(P, "create %d%s" % (C, " pf" if unsafe and r.chance(1, 2) else ""))
    if unsafe:
        ysafe(r, p, C)
    p.op(C, "uwait %s" % u)
    p.exp(C, "get seq%d" % i, 7 + i)
    ysafe(r, p, P)
    p.op(P, "set seq%d %d" % (i, 7 + i))
    p.op(P, "usignal %s" % u)
    p.op(P, "join %d" % C)
    return [P]


def mainwait(r, p, i, unsafe, rounds):
    """the MAIN thread (t0) is the waiter: it announces, creates the signaller parent-first and waits; with
    rounds > 1 a ping-pong in which main waits on u and signals v"""
    u, v = "u%d" % i, "v%d" % i
    p.objs += ["%s uncond" % u, "%s uncond" % v, "a_%s var 0" % u, "a_%s var 0" % v, "seq%d var 0" % i, "ack%d var 0" % i]
    P = p.new_thread()
    p.op(0, "add a_%s 1" % u)
    p.op(0, "create %d pf" % P)
    for k in range(1, rounds + 1):
        ysafe(r, p, P, 1)
        p.op(P, "set seq%d %d" % (i, 60 + k))
        if k < rounds or rounds > 1:
            p.op(P, "add a_%s 1" % v)
        p.op(P, "usignal %s" % u)
        if rounds > 1:
            if unsafe:
                ysafe(r, p, P, 1)
            p.op(P, "uwait %s" % v)
            p.exp(P, "get ack%d" % i, 160 + k)
        if unsafe:
            ysafe(r, p, 0, 1)
        p.op(0, "uwait %s" % u)
        p.exp(0, "get seq%d" % i, 60 + k)
        if rounds > 1:
            p.op(0, "set ack%d %d" % (i, 160 + k))
            if k < rounds:
                p.op(0, "add a_%s 1" % u)
            p.op(0, "usignal %s" % v)
    return [P]


def pair_pingpong(r, p, i, unsafe, rounds):
    u, v = "u%d" % i, "v%d" % i
    p.objs += ["%s uncond" % u, "%s uncond" % v, "a_%s var 0" % u, "a_%s var 0" % v, "seq%d var 0" % i, "ack%d var 0" % i]
    P, C = p.new_thread(), p.new_thread()
    p.op(0, "add a_%s 1" % u)
    # safe mode: the consumer is created first and child-first, so it reaches its wait before the
    # producer exists; otherwise it has been announced but may not have run yet when the producer signals
    first_c = (not unsafe) or r.chance(1, 2)
    for x in ([C, P] if first_c else [P, C]):
        pf = " pf" if (unsafe and r.chance(1, 3)) else ""
        p.op(0, "create %d%s" % (x, pf))
    for k in range(1, rounds + 1):
        ysafe(r, p, P, 1)
        p.op(P, "set seq%d %d" % (i, k))
        p.op(P, "add a_%s 1" % v)
        p.op(P, "usignal %s" % u)
        if unsafe:
            ysafe(r, p, P, 1)
        p.op(P, "uwait %s" % v)
        p.exp(P, "get ack%d" % i, 100 + k)
        if unsafe and k == 1:
            ysafe(r, p, C, 1)
        p.op(C, "uwait %s" % u)
        p.exp(C, "get seq%d" % i, k)
        p.op(C, "set ack%d %d" % (i, 100 + k))
        if k < rounds:
            ysafe(r, p, C, 1)
            p.op(C, "add a_%s 1" % u)
        p.op(C, "usignal %s" % v)
        if unsafe and k < rounds:
            ysafe(r, p, C, 1)
    return [P, C]


def pair_spsc(r, p, i, unsafe, rounds):
    """one-directional hand-off with sequence numbers; the producer learns each announcement under a mutex"""
    u = "u%d" % i
    p.objs += ["%s uncond" % u, "a_%s var 0" % u, "seq%d var 0" % i, "m%d mutex" % i, "c%d cond" % i]
    P, C = p.new_thread(), p.new_thread()
    order = [P, C]
    if r.chance(1, 2):
        order.reverse()
    for x in order:
        p.op(0, "create %d" % x)
    for k in range(1, rounds + 1):
        p.op(C, "lock m%d" % i)
        p.op(C, "add a_%s 1" % u)
        p.op(C, "signal c%d" % i)
        p.op(C, "unlock m%d" % i)
        if unsafe:
            ysafe(r, p, C, 1)
        p.op(C, "uwait %s" % u)
        p.exp(C, "get seq%d" % i, 10 * k)
        ysafe(r, p, C, 1)
        p.op(P, "lock m%d" % i)
        p.op(P, "await c%d m%d a_%s ge %d" % (i, i, u, k))
        p.op(P, "unlock m%d" % i)
        ysafe(r, p, P, 1)
        p.op(P, "set seq%d %d" % (i, 10 * k))
        p.op(P, "usignal %s" % u)
    return [P, C]


def relay(r, p, i, unsafe, n):
    """main announces for everybody; a token is handed down a chain of n threads"""
    p.objs += ["tok%d var 0" % i]
    ts = []
    for j in range(n):
        u = "r%d_%d" % (i, j)
        p.objs += ["%s uncond" % u, "a_%s var 0" % u]
        t = p.new_thread()
        ts.append(t)
        p.op(0, "add a_%s 1" % u)
        p.op(0, "create %d%s" % (t, " pf" if unsafe and r.chance(1, 2) else ""))
        p.op(t, "uwait %s" % u)
        p.exp(t, "get tok%d" % i, j + 1)
        p.op(t, "set tok%d %d" % (i, j + 2))
        ysafe(r, p, t, 1)
        if j + 1 < n:
            p.op(t, "usignal r%d_%d" % (i, j + 1))
    ysafe(r, p, 0, 1)
    p.op(0, "set tok%d 1" % i)
    p.op(0, "usignal r%d_0" % i)
    return ts


def chain(r, p, i, unsafe, rounds):
    """repeated rendezvous on ONE variable with a fresh signaller each time: the waiter announces the next
    rendezvous and creates its signaller (parent-first) right after being resumed, so that it can wait again
    while the previous signal call has not returned yet"""
    u = "u%d" % i
    p.objs += ["%s uncond" % u, "a_%s var 0" % u, "seq%d var 0" % i]
    W = p.new_thread()
    p.op(0, "add a_%s 1" % u)
    p.op(0, "create %d" % W)
    sigs = []
    for k in range(1, rounds + 1):
        if unsafe and k == 1:
            ysafe(r, p, W, 1)
        p.op(W, "uwait %s" % u)
        if r.chance(1, 2) or k == rounds:
            p.exp(W, "get seq%d" % i, k)
        S = p.new_thread()
        sigs.append(S)
        ysafe(r, p, S, 1)
        p.op(S, "set seq%d %d" % (i, k))
        p.op(S, "usignal %s" % u)
        if k == 1:
            ysafe(r, p, 0, 1)
            p.op(0, "create %d" % S)
        if k < rounds:
            p.op(W, "add a_%s 1" % u)
    # thread S_{k+1} is created by the waiter after its k-th resumption
    ops, out, k = p.threads[W], [], 0
    for o in ops:
        out.append(o)
        if o.startswith("add a_"):
            k += 1
            out.append("create %d pf" % sigs[k])
    # re-number the expectations of W (ops were inserted)
    newexp = []
    for (t, idx, v) in p.expect:
        if t == W:
            idx = [j for j, o in enumerate(out) if o.startswith("get ")][[j for j, o in enumerate(ops) if o.startswith("get ")].index(idx)]
        newexp.append((t, idx, v))
    p.expect = newexp
    p.threads[W] = out
    for S in sigs[1:]:
        p.op(W, "join %d" % S)
    return [W, sigs[0]]


def twowaiters(r, p, i, unsafe, n):
    """n different waiters, one after the other, on ONE variable, all served by a single signaller thread
    which announces the next rendezvous (on behalf of the next waiter) right after its previous signal
    returned - i.e. possibly while the previous waiter, already handed over, still sits in a run queue"""
    u = "u%d" % i
    p.objs += ["%s uncond" % u, "a_%s var 0" % u] + ["s%d_%d var 0" % (i, k) for k in range(1, n + 1)]
    S = p.new_thread()
    p.op(0, "create %d" % S)
    ws = []
    for k in range(1, n + 1):
        W = p.new_thread()
        ws.append(W)
        p.op(S, "add a_%s 1" % u)
        p.op(S, "create %d%s" % (W, " pf" if unsafe and r.chance(1, 2) else ""))
        if unsafe:
            ysafe(r, p, W, 1)
        p.op(W, "uwait %s" % u)
        p.exp(W, "get s%d_%d" % (i, k), 40 + k)
        ysafe(r, p, W, 1)
        ysafe(r, p, S, 1)
        p.op(S, "set s%d_%d %d" % (i, k, 40 + k))
        p.op(S, "usignal %s" % u)
    for W in ws:
        p.op(S, "join %d" % W)
    return [S]


FAMILIES = ["handoff", "pingpong", "spsc", "relay", "chain", "twowaiters", "mainwait", "multi"]
HOLD_KS = [5, 20, 60]


def sweep_cases(r, reps=1):
    """targeted preemption (lib_interp `hold <point> <moves> <percent>`): for every POINT id of the uncond
    routines a participant arriving there is, with probability 1/2, held back until k real moves of the others
    have happened (a delayed publication = a long early-signal spin; a signaller delayed between read / clear /
    push while the waiter and third threads run on).  A ticker thread supplies moves when everybody else waits."""
    cases = []
    for _ in range(reps):
        for pid in POINTS:
            for k in HOLD_KS:
                for short in (True, False):
                    p = Prog()
                    ticker = r.chance(1, 2)
                    workers = r.rng(3, 4) if ticker else r.rng(2, 4)
                    joins = []
                    if ticker:
                        T = p.new_thread()
                        p.threads[T] = ["nop"] * r.rng(40, 90)
                        p.op(0, "create %d pf" % T)
                        joins.append(T)
                    unsafe = r.chance(2, 3)
                    f = r.choice(["handoff", "twowaiters", "pingpong"] if short else ["chain", "spsc", "pingpong", "twowaiters", "relay"])
                    if f == "handoff":
                        joins += pair_handoff(r, p, 0, unsafe)
                    elif f == "twowaiters":
                        joins += twowaiters(r, p, 0, unsafe, 2 if short else r.rng(3, 5))
                    elif f == "pingpong":
                        joins += pair_pingpong(r, p, 0, unsafe, 1 if short else r.rng(2, 4))
                    elif f == "chain":
                        joins += chain(r, p, 0, unsafe, r.rng(3, 6))
                    elif f == "spsc":
                        joins += pair_spsc(r, p, 0, unsafe, r.rng(2, 4))
                    else:
                        joins += relay(r, p, 0, unsafe, r.rng(2, 4))
                    for t in joins:
                        p.op(0, "join %d" % t)
                    for _s in range(2):
                        txt = p.text(workers, r.rng(1, 1 << 30), r.choice([10, 30, 50, 70])) + "hold %s %d 50\n" % (pid, k)
                        cases.append({"family": "hold:%s/%s" % (pid, f), "workers": workers, "unsafe": unsafe, "text": txt})
    return cases


def gen_program(r, fam, workers):
    p = Prog()
    unsafe = workers >= 2 and r.chance(2, 3)
    joins = []
    if fam == "handoff":
        joins += pair_handoff(r, p, 0, unsafe)
    elif fam == "pingpong":
        joins += pair_pingpong(r, p, 0, unsafe, r.rng(1, 4))
    elif fam == "spsc":
        joins += pair_spsc(r, p, 0, unsafe, r.rng(1, 4))
    elif fam == "relay":
        joins += relay(r, p, 0, unsafe, r.rng(1, 4))
    elif fam == "chain":
        joins += chain(r, p, 0, unsafe, r.rng(2, 5))
    elif fam == "twowaiters":
        joins += twowaiters(r, p, 0, unsafe, r.rng(2, 4))
    elif fam == "mainwait":
        joins += mainwait(r, p, 0, unsafe, r.rng(1, 3))
    else:
        k = r.rng(2, 3)
        for i in range(k):
            f = r.choice(["handoff", "pingpong", "spsc", "relay", "chain", "twowaiters"])
            us = unsafe and i == 0
            if f == "handoff":
                joins += pair_handoff(r, p, i, us)
            elif f == "pingpong":
                joins += pair_pingpong(r, p, i, us, r.rng(1, 3))
            elif f == "spsc":
                joins += pair_spsc(r, p, i, us, r.rng(1, 3))
            elif f == "chain":
                joins += chain(r, p, i, us, r.rng(2, 3))
            elif f == "twowaiters":
                joins += twowaiters(r, p, i, us, r.rng(2, 3))
            else:
                joins += relay(r, p, i, us, r.rng(1, 3))
    for t in joins:
        p.op(0, "join %d" % t)
    return p, unsafe


def stress_cases(r, n):
    """long repeated-rendezvous programs under low preemption probability: the setting in which a waiter
    gets from its hand-over to its next publication while the previous signaller is still inside signal"""
    cases = []
    for i in range(n):
        p = Prog()
        workers = r.choice([2, 3, 3, 4])
        k = r.below(3)
        if k == 0:
            joins = chain(r, p, 0, False, r.rng(6, 8))
        elif k == 1:
            joins = pair_spsc(r, p, 0, False, r.rng(4, 6))
        else:
            joins = chain(r, p, 0, r.chance(1, 2), r.rng(4, 8))
        for t in joins:
            p.op(0, "join %d" % t)
        cases.append({"family": "stress", "workers": workers, "unsafe": None,
                      "text": p.text(workers, r.rng(1, 1 << 30), r.choice([6, 10, 15, 20, 30]))})
    return cases


def longspin_cases(r, n):
    """very early signals: the waiter's publication is held back for thousands of moves of a ticker thread, so
    that the signaller goes through hundreds to thousands of spin iterations (a bounded spin that gives up, or
    a spin counter that overflows into another path, shows up here)"""
    cases = []
    for i in range(n):
        p = Prog()
        # the spin has to outlast wall-clock bounds, too (a spin limited in cycles): the biggest shapes keep the
        # signaller spinning for roughly 0.5 - 1 s
        nt, nn = [(1, 400), (1, 1500), (1, 3500), (2, 4000), (1, 3500), (2, 4000)][i % 6]
        Ts = []
        for _ in range(nt):
            T = p.new_thread()
            Ts.append(T)
            p.threads[T] = ["nop"] * nn
            p.op(0, "create %d pf" % T)
        k = r.below(3)
        if k == 0:
            joins = pair_handoff(r, p, 0, True)
        elif k == 1:
            joins = twowaiters(r, p, 0, True, 2)
        else:
            joins = chain(r, p, 0, True, 2)
        for t in joins + Ts:
            p.op(0, "join %d" % t)
        w = r.rng(3, 4) if nt == 1 else 4
        txt = p.text(w, r.rng(1, 1 << 30), r.choice([50, 80, 95]), maxsteps=200000) + "hold uncond.publish 100000 100\n"
        cases.append({"family": "longspin", "workers": w, "unsafe": True, "text": txt})
    return cases


def verylong_case(r, tickers=14):
    """ONE run (thorough tier) in which an early signal spins for 3 - 5 s of wall-clock time: the waiter (created
    parent-first, picked up by an idle worker) has its publication held back while `tickers` threads of 4000 nops
    each run on the other workers and the main thread signals; finds spin bounds of up to ~2^32 TSC cycles"""
    p = Prog()
    p.objs += ["u0 uncond", "a_u0 var 0", "seq0 var 0"]
    W = p.new_thread()
    p.op(0, "add a_u0 1")
    p.op(0, "create %d pf" % W)
    p.op(W, "uwait u0")
    p.exp(W, "get seq0", 5)
    Ts = []
    for _ in range(tickers):
        T = p.new_thread()
        Ts.append(T)
        p.threads[T] = ["nop"] * 4000
        p.op(0, "create %d pf" % T)
    p.op(0, "set seq0 5")
    p.op(0, "usignal u0")
    for t in [W] + Ts:
        p.op(0, "join %d" % t)
    txt = p.text(6, r.rng(1, 1 << 30), 80, maxsteps=3000000) + "hold uncond.publish 100000000 100\n"
    return {"family": "verylong", "workers": 6, "unsafe": True, "text": txt}


def gen_cases(ctx, n):
    r = ctx.rng
    cases = sweep_cases(r, 1 if n < 1000 else 12) + longspin_cases(r, 6 if n < 1000 else 60) + stress_cases(r, max(10, n // 4))
    if n >= 1000:
        cases.insert(0, verylong_case(r))
    for i in range(n):
        fam = FAMILIES[i % len(FAMILIES)]
        workers = [1, 2, 2, 3, 4][(i // len(FAMILIES)) % 5]
        p, unsafe = gen_program(r, fam, workers)
        for _ in range(2):
            seed = r.rng(1, 1 << 30)
            cases.append({"family": fam, "workers": workers, "unsafe": unsafe,
                          "text": p.text(workers, seed, r.choice([8, 15, 35, 60, 85]))})
    return cases


# --------------------------------------------------------------------------------------------------

def safe_run_case(exe, text, wd, name):
    """trace.run_case, tolerating a trace cut in mid-line by a crash of the library under test"""
    try:
        res = trace.run_case(exe, text, wd, name, timeout=60)
    except (IndexError, ValueError):
        tp = os.path.join(wd, name + ".trace")
        txt = open(tp, errors="replace").read() if os.path.exists(tp) else ""
        good = []
        for l in txt.split("\n"):
            try:
                trace.parse_trace(l)
                good.append(l)
            except (IndexError, ValueError):
                break
        evs, verdict = trace.parse_trace("\n".join(good))
        res = {"rc": -1, "out": "trace truncated (crash)", "events": evs, "verdict": None, "trace_path": tp,
               "case_path": os.path.join(wd, name + ".case"), "trace_text": "\n".join(good)}
    res["stderr"] = res["out"]
    # a crash of the library under test can cut the last line short: keep well-formed events only
    need = {"C": 1, "R": 2, "P": 3, "S": 1, "E": 1}
    res["events"] = [e for e in res["events"] if len(e.words) >= need.get(e.kind, 1)]
    return res


def run_cases(ctx, exe, drv, cases, tag="c"):
    wd = os.path.join(ctx.dir, "runs")
    out, blocks, owner = [], [], []
    for i, c in enumerate(cases):
        res = safe_run_case(exe, c["text"], wd, "%s%04d" % (tag, i))
        objs, threads, _, _ = trace.parse_case(c["text"])
        nt = max(threads) + 1
        bl = [uncond_block(u, nt, res["events"]) for u, (k, _) in objs.items() if k == "uncond"]
        msg, stats = oracle(c["text"], res)
        out.append({"case": c, "res": res, "oracle": msg, "stats": stats, "model": [], "fail": []})
        for b in bl:
            blocks.append(b)
            owner.append(i)
    verd = trace.validate_blocks(drv, blocks) if blocks else []
    for b, v, i in zip(blocks, verd, owner):
        out[i]["model"].append(v)
        if v.startswith("FAIL"):
            k = int(v.split()[1])
            out[i]["fail"].append({"verdict": v, "model_input_tail": b[0][max(0, k - 8):k + 1],
                                   "trace_line": b[1][k].raw if k < len(b[1]) and b[1][k] is not None else None})
    return out


def run_until_failure(ctx, exe, drv, cases, chunk=40):
    """run_cases in chunks; stop after the first chunk in which the property oracle fails (a broken library
    can make every further run slow)"""
    out = []
    for i in range(0, len(cases), chunk):
        out += run_cases(ctx, exe, drv, cases[i:i + chunk], tag="c%02d_" % (i // chunk))
        if any(o["oracle"] for o in out):
            break
    return out


def load_corpus():
    d = os.path.join(vlib.VERIF, "corpus", "C08")
    cs = []
    if os.path.isdir(d):
        for f in sorted(os.listdir(d)):
            if f.endswith(".case"):
                txt = open(os.path.join(d, f)).read()
                w = re.search(r"^workers (\d+)", txt, re.M)
                cs.append({"family": "corpus:" + f, "workers": int(w.group(1)) if w else 0, "unsafe": None, "text": txt})
    return cs


def search_oracle_failure(ctx, exe, drv, case, tries):
    """the model disagrees but the oracle is satisfied: re-run the disagreeing program under more controller
    seeds (preemption-heavy and preemption-light) and a batch of stress programs, looking for a run on which
    the property itself fails"""
    r = ctx.rng
    alts = []
    for k in range(tries // 3):
        t = re.sub(r"^seed \d+", "seed %d" % r.rng(1, 1 << 30), case["text"], flags=re.M)
        t = re.sub(r"^pswitch \d+", "pswitch %d" % r.choice([5, 10, 20, 60, 75, 90]), t, flags=re.M)
        if case["workers"] >= 2 and r.chance(1, 2):
            t = re.sub(r"^workers \d+", "workers %d" % r.rng(2, 4), t, flags=re.M)
        alts.append(dict(case, text=t))
    alts += stress_cases(r, tries - len(alts))
    for o in run_until_failure(ctx, exe, drv, alts):
        if o["oracle"]:
            return o
    return None


def summarize(ctx, results):
    hist, spins = {}, 0
    dist, verd = {}, {}
    st = {"rendezvous": 0, "early": 0, "late": 0, "main_waits": 0, "insertions_checked": 0,
          "mw_same_worker": 0, "mw_diff_worker": 0, "mw_resumed_elsewhere": 0, "w1_rendezvous": 0}
    for o in results:
        for e in o["res"]["events"]:
            if e.kind == "P" and e.words[0].startswith("uncond."):
                hist[e.words[0]] = hist.get(e.words[0], 0) + 1
            if e.kind == "S" and e.words[0] == "uncond.sig.spin":
                spins += 1
        k = "%s/w%d" % (o["case"]["family"].split(":")[0], o["case"]["workers"])
        dist[k] = dist.get(k, 0) + 1
        v = (o["res"]["verdict"] or "none").split()[0]
        verd[v] = verd.get(v, 0) + 1
        for x in ("rendezvous", "early", "late", "main_waits", "insertions_checked"):
            st[x] += o["stats"].get(x, 0)
        if o["case"]["workers"] >= 2:       # same / different worker is meaningful with several workers only
            st["mw_same_worker"] += o["stats"].get("same_worker", 0)
            st["mw_diff_worker"] += o["stats"].get("diff_worker", 0)
            st["mw_resumed_elsewhere"] += o["stats"].get("resumed_elsewhere", 0)
        else:
            st["w1_rendezvous"] += o["stats"].get("rendezvous", 0)
        st["maxspin"] = max(st.get("maxspin", 0), o["stats"].get("maxspin", 0))
    return hist, spins, dist, verd, st


def run(ctx):
    broken, log = ctx.prove("Properties_C08.v", "Properties_C08")
    exe, drv = build(ctx)
    n = 126 if not ctx.thorough else 3000
    cases = load_corpus() + gen_cases(ctx, n)
    struct_bad = steps.check(steps.UNCOND_TABLE)
    ctx.cov["step_table"] = {"functions": sorted(steps.UNCOND_TABLE), "unit": "src/" + steps.UNIT, "mismatches": struct_bad}
    results = run_until_failure(ctx, exe, drv, cases)
    hist, spins, dist, verd, st = summarize(ctx, results)
    bad_oracle = [o for o in results if o["oracle"]]
    bad_model = [o for o in results if o["fail"]]
    nblocks = sum(len(o["model"]) for o in results)
    ctx.cov["correspondence"] = {
        "cases": len(results), "cases_generated": len(cases), "model_blocks_replayed": nblocks,
        "model_events_replayed": sum(int(v.split()[1]) for o in results for v in o["model"] if v.startswith("ok")),
        "disagreements": len(bad_model), "oracle_failures": len(bad_oracle),
        "input_distribution": dist, "verdicts": verd, "point_histogram": hist, "uncond.sig.spin": spins,
        "rendezvous": st["rendezvous"], "signals_early(spun)": st["early"], "signals_late": st["late"],
        "longest_spin_of_one_signal": st.get("maxspin", 0),
        "rendezvous_with_main_thread_as_waiter": st["main_waits"],
        "2-4_workers:wait_and_signal_on_same_worker": st["mw_same_worker"],
        "2-4_workers:wait_and_signal_on_different_workers": st["mw_diff_worker"],
        "2-4_workers:waiter_resumed_on_another_worker_than_it_waited_on": st["mw_resumed_elsewhere"],
        "1_worker:rendezvous": st["w1_rendezvous"],
        "pushes_whose_run_queue_insertion_was_checked_on_the_machine_snapshot": st["insertions_checked"]}
    for i in (0, len(results) // 2, len(results) - 1):
        o = results[i]
        ctx.cov["samples"].append({"case": o["case"]["text"], "verdict": o["res"]["verdict"], "model": o["model"],
                                   "oracle": o["oracle"] or "holds"})
    ctx.cov["trusted_base"] += [
        "extraction: ExtrOcamlBasic only; ocaml/driver_C08.ml, ocaml/zio.ml",
        "harness/lib_interp.c (schedule controller, interpreter, trace writer); tools/trace.py (run_case, parse_trace); "
        "the projection uncond_block in tools/props/c08.py",
        "MYTH_VERIF_POINT placement in myth_uncond_wait_cb / myth_uncond_signal_body (one POINT immediately before each access)",
        "modelled, not verified: the run-queue push/pop and the context switch themselves (C01/C02/C03); "
        "one hand-over = the push step; the announcement is a ghost step (the program's `add a_<u> 1`)"]
    if bad_oracle:
        o = bad_oracle[0]
        ctx.violation("oracle", o["oracle"], {"case": o["case"]["text"], "observed": o["oracle"],
                                              "expected": "each uwait is resumed exactly once, by the push of the one usignal of its rendezvous; verdict DONE",
                                              "verdict": o["res"]["verdict"], "model": o["model"], "level": "library",
                                              "trace_tail": o["res"]["trace_text"].split("\n")[-25:]}, found=True)
    elif bad_model:
        o = bad_model[0]
        hit = search_oracle_failure(ctx, exe, drv, o["case"], 300 if not ctx.thorough else 3000)
        if hit:
            ctx.violation("oracle", hit["oracle"], {"case": hit["case"]["text"], "observed": hit["oracle"],
                                                    "expected": "each uwait is resumed exactly once; verdict DONE",
                                                    "verdict": hit["res"]["verdict"], "model": hit["model"],
                                                    "first_disagreement": o["fail"][0], "level": "library",
                                                    "trace_tail": hit["res"]["trace_text"].split("\n")[-25:]}, found=True)
        else:
            ctx.violation("correspondence", "model and library disagree on %d run(s); first: %s" % (len(bad_model), o["fail"][0]["verdict"]),
                          {"theorem_or_correspondence": "correspondence Uncond/UncondModel.v <-> myth_uncond_{wait,signal}_body",
                           "case": o["case"]["text"], "observed": o["fail"][0], "expected": "every trace replays through the model"},
                          found=False)
    else:
        missing = [p for p in POINTS if not hist.get(p)]
        gaps = [k for k in ("main_waits", "mw_same_worker", "mw_diff_worker", "mw_resumed_elsewhere", "w1_rendezvous",
                            "insertions_checked") if not st[k]]
        if missing or not spins or not st["late"] or gaps:
            ctx.violation("coverage", "never exercised on this run: %s%s%s %s" % (
                ", ".join(missing), " uncond.sig.spin (early signal)" if not spins else "", " late signal" if not st["late"] else "",
                " ".join(gaps)),
                {"theorem_or_correspondence": "coverage of the POINT ids of the uncond routines", "histogram": hist}, found=False)
    if struct_bad and not bad_oracle:
        hit = None
        if not bad_model:           # (the model-disagreement branch above has searched already)
            hit = search_oracle_failure(ctx, exe, drv, results[len(results) // 2]["case"], 300 if not ctx.thorough else 1500)
        if hit:
            ctx.violation("oracle", hit["oracle"], {"case": hit["case"]["text"], "observed": hit["oracle"],
                                                    "step_table_mismatch": struct_bad, "verdict": hit["res"]["verdict"],
                                                    "level": "library",
                                                    "trace_tail": hit["res"]["trace_text"].split("\n")[-25:]}, found=True)
        elif not [v for v in ctx.violations if v["found"]]:
            ctx.violation("step-table", "the source no longer has exactly the steps of the model: " + " | ".join(struct_bad),
                          {"theorem_or_correspondence": "source step table of myth_uncond_{wait,signal}_body / myth_uncond_wait_cb (tools/props/c08c14_steps.py) <-> model step function",
                           "observed": struct_bad,
                           "expected": "the atoms listed in c08c14_steps.UNCOND_TABLE, in this order, and no other protocol-relevant statement"},
                          found=False)
    if broken:
        ctx.violation("proof", "theorem(s) no longer check: " + ", ".join(broken),
                      {"theorem_or_correspondence": ", ".join(broken), "log": getattr(ctx, "proof_log", log[-3000:])}, found=False)
    return ctx.finish(assumptions=[
        "program class = the documented protocol: a rendezvous is announced, then one wait and one signal are called (any order, any interleaving); "
        "the next rendezvous is announced only after the previous waiter has been handed over (model enabledness of EAnnounce/ECall)",
        "liveness of an early signal needs a worker that can run the waiter (the signal busy-waits without yielding): safety is proved, "
        "termination is checked on the generated programs only"])


def replay(ctx, path):
    body = json.load(open(path))
    exe, drv = build(ctx)
    if "case" not in body:
        print("replay file holds no case (broken obligation: %s)" % body.get("what"))
        return 0
    c = {"family": "replay", "workers": 0, "unsafe": None, "text": body["case"]}
    o = run_cases(ctx, exe, drv, [c], tag="r")[0]
    print("case:\n" + body["case"])
    print("impl verdict:", o["res"]["verdict"])
    print("model:       ", o["model"], o["fail"][:1])
    print("oracle:      ", o["oracle"] or "property holds on this run")
    print("trace:       ", o["res"]["trace_path"])
    return 0
