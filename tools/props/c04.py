"""C04 - mutex: mutual exclusion, no lost wake-up, non-blocking trylock (DESIGN.md section 4, C04).

Proof side: coq/Sync/SyncModel.v (shared model), coq/Sync/MutexProofs.v (inductive invariant over every
step of the model, its consequences), coq/Properties_C04.v.
Tie: generated deadlock-free programs (lock / trylock / timedlock / unlock around read-modify-write
critical sections, optionally condition waits so that the callback-unlock path runs) are executed on
the real library under the schedule controller (harness/lib_interp.c); every trace is
 (1) replayed through the extracted model (tools/props/sync_common.py: labels, CAS operands, mutex word
     and sleep queues before every step), and
 (2) judged by an independent oracle of the property itself (below): occupancy witness, counters,
     deadlock verdict, trylock rules, sleepers emit nothing."""
import os, re, json, shutil
import vlib, trace
from props import sync_common

POINTS = ["mutex.lock.read", "mutex.lock.cas1", "mutex.lock.cas2", "mutex.try.read", "mutex.try.cas",
          "mutex.unlock.read", "mutex.unlock.cas1", "mutex.unlock.cas2", "mutex.clearbit",
          "blockq.enq", "wake1.deq", "wake1.push"]
EBUSY, ETIMEDOUT = 16, 110


# --------------------------------------------------------------------------------------------------
# generators (everything from ctx.rng)
# --------------------------------------------------------------------------------------------------

def gen_mutex_program(rng, N, nm):
    """N threads (0 = main, creates 1..N-1, joins them, reads the counters).  nm mutexes m0.. with one
    counter x<j> each, modified only inside blocking-lock critical sections of m<j>.  Blocking locks
    are never nested (deadlock-free by construction); trylock / timedlock may be nested anywhere."""
    objs = ["m%d mutex" % j for j in range(nm)] + ["x%d var 0" % j for j in range(nm)]
    threads, expect = {}, [0] * nm
    for t in range(N):
        ops = []
        if t == 0:
            ops += ["create %d" % q for q in range(1, N)]
        for _ in range(rng.rng(1, 4)):
            j = rng.below(nm)
            kind = rng.below(10)
            if kind < 5:                                   # blocking lock, critical section with adds
                ops.append("lock m%d" % j)
                for _ in range(rng.rng(1, 2)):
                    d = rng.rng(1, 9)
                    ops.append("add x%d %d" % (j, d))
                    expect[j] += d
                if rng.chance(1, 3):                       # non-blocking attempt on another mutex inside
                    k = rng.below(nm)
                    if k != j:
                        ops += ["trylock m%d" % k, "unlockif m%d" % k]
                    else:
                        ops += ["trylock m%d" % k]         # trylock of a mutex held by the caller: EBUSY
                ops.append("unlock m%d" % j)
            elif kind < 8:
                ops += ["trylock m%d" % j]
                if rng.chance(1, 2):
                    ops.append(rng.choice(["yield", "nop", "get x%d" % j]))
                ops += ["unlockif m%d" % j]
            else:
                ops += ["timedlock m%d %d" % (j, rng.choice([0, 1500, 4000, 20000])), "unlockif m%d" % j]
            if rng.chance(1, 4):
                ops.append(rng.choice(["yield", "nop"]))
        if t == 0:
            ops += ["join %d" % q for q in range(1, N)]
            ops += ["get x%d" % j for j in range(nm)]
        threads[t] = ops
    return objs, threads, expect


def gen_cond_program(rng, N):
    """producers / waiters on one mutex m0 with condition c0 and a monotone counter x0 (only grows), so
    that `await c0 m0 x0 ge K` is satisfiable whenever K <= total production; the last operation of
    every producer is a broadcast under the lock (no waiter can be left behind); plus plain lockers and
    try-lockers on the same mutex and a second counter y0 updated in every critical section."""
    objs = ["m0 mutex", "c0 cond", "x0 var 0", "y0 var 0"]
    spurious = rng.chance(1, 2)
    nw = rng.rng(1, max(1, min(3, N - 2)))
    waiters = list(range(1, 1 + nw))
    others = [t for t in range(N) if t not in waiters]
    producers = [t for t in others if t == 0 or rng.chance(2, 3)] or [0]
    per = rng.rng(1, 3)
    total = per * len(producers)
    threads, expect_y = {}, 0
    for t in range(N):
        ops = []
        if t == 0:
            ops += ["create %d" % q for q in range(1, N)]
        if t in waiters:
            K = rng.rng(1, total)
            d = rng.rng(1, 9)
            ops += ["lock m0", "await c0 m0 x0 ge %d" % K, "add y0 %d" % d, "unlock m0"]
            expect_y += d
        elif t in producers:
            for i in range(per):
                d = rng.rng(1, 9)
                ops += ["lock m0", "add x0 1", "add y0 %d" % d]
                expect_y += d
                last = (i == per - 1)
                ops.append("bcast c0" if last or nw > 1 or rng.chance(1, 2) else "signal c0")
                ops.append("unlock m0")
                if rng.chance(1, 3):
                    ops.append(rng.choice(["yield", "trylock m0", "nop"]))
                    if ops[-1] == "trylock m0":
                        ops.append("unlockif m0")
        else:
            for _ in range(rng.rng(1, 3)):
                if rng.chance(1, 2):
                    d = rng.rng(1, 9)
                    ops += ["lock m0", "add y0 %d" % d, "unlock m0"]
                    expect_y += d
                else:
                    ops += [rng.choice(["trylock m0", "timedlock m0 3000"]), "unlockif m0"]
        if spurious and t not in waiters:
            # signals outside the lock, possibly before the data is there: a waiter can be resumed while its
            # cond-wait callback is still unlocking the mutex and block again (two callbacks in flight)
            for _ in range(rng.rng(1, 3)):
                ops.insert(rng.rng(1 if t == 0 else 0, len(ops)), "signal c0")
        if t == 0:
            ops += ["join %d" % q for q in range(1, N)]
            ops += ["get x0", "get y0"]
        threads[t] = ops
    if spurious:                       # creations first (thread 0), whatever the insertions did
        cr = [o for o in threads[0] if o.startswith("create")]
        threads[0] = cr + [o for o in threads[0] if not o.startswith("create")]
    return objs, threads, {"x0": total, "y0": expect_y}


def gen_timed_program(rng, N):
    """one timed locker (thread 1) polls with a deadline far away (about 200 clock readings under the virtual
    clock) while >= 2 threads contend with blocking `lock ; add ; yield ; unlock` loops: the mutex word is often 2
    or 4 (FREE with lockers still queued) while the timed locker polls - every polling iteration must make an
    attempt and an attempt on a free word must be a CAS"""
    objs = ["m0 mutex", "x0 var 0"]
    threads, expect = {}, 0
    for t in range(N):
        ops = []
        if t == 0:
            ops += ["create %d" % q for q in range(1, N)]
        if t == 1:
            if rng.chance(1, 2):
                ops.append(rng.choice(["yield", "nop"]))
            ops += ["timedlock m0 %d" % rng.choice([150000, 200000, 300000]), "unlockif m0"]
        else:
            for _ in range(rng.rng(3, 6)):
                d = rng.rng(1, 9)
                ops += ["lock m0", "add x0 %d" % d, "yield", "unlock m0"]
                expect += d
                if rng.chance(1, 3):
                    ops.append("yield")
        if t == 0:
            ops += ["join %d" % q for q in range(1, N)]
            ops += ["get x0"]
        threads[t] = ops
    return objs, threads, {"x0": expect}


def gen_life_program(rng, modes):
    """object lifecycle: ONE mutex object goes through len(modes)+1 incarnations.  Incarnation 0 is the `obj m0 mutex`
    of the case (myth_mutex_init(m, NULL) on fresh memory); each later one starts, after all users of the previous
    one have been joined (mutex free, nobody inside), with `mdestroy m0` (the memory is scribbled over) and
    `minit m0 [attr|static]`.  In every incarnation main and 2-3 new threads contend with blocking locks (sleepers),
    trylock and timedlock around the shared counter."""
    objs = ["m0 mutex", "x0 var 0"]
    threads, expect, tag = {0: []}, 0, 1
    for inc, mode in enumerate([None] + list(modes)):
        if mode is not None:
            threads[0] += ["mdestroy m0", ("minit m0 " + mode).strip()]
        users = list(range(tag, tag + rng.rng(2, 3)))
        tag += len(users)
        threads[0] += ["create %d" % u for u in users]
        for u in users + [0]:
            ops = []
            for _ in range(rng.rng(1, 3)):
                d = rng.rng(1, 9)
                k = rng.below(6)
                if k == 0:
                    ops += ["trylock m0", "unlockif m0"]
                elif k == 1:
                    ops += ["timedlock m0 3000", "unlockif m0"]
                else:
                    ops += ["lock m0", "add x0 %d" % d] + (["yield"] if rng.chance(1, 3) else []) + ["unlock m0"]
                    expect += d
            if u == 0:
                threads[0] += ops
            else:
                threads[u] = ops
        threads[0] += ["join %d" % u for u in users]
    threads[0] += ["get x0"]
    return objs, threads, {"x0": expect}, tag


def gen_cancel_program(rng):
    """lock() is not a cancellation point: a waiter that is cancelled while it is parked behaves like any waiter.
    Main holds m0 while the waiters A (thread 1), B (thread 2) [, C] arrive and park behind each other; somebody
    cancels A - before or after the holder's unlock, before A has re-read the word; A's program has its testcancel
    AFTER its critical section: it must acquire, add, unlock (passing the wake-up on to B) and only then terminate."""
    objs = ["m0 mutex", "x0 var 0"]
    nw = rng.rng(2, 3)                    # waiters
    expect = 0
    threads = {}
    main = ["lock m0"] + ["create %d" % t for t in range(1, nw + 1)]
    main += [rng.choice(["yield", "nop", "yield 1"]) for _ in range(rng.rng(2, 5))]
    d = rng.rng(1, 9)
    main += ["add x0 %d" % d]
    expect += d
    before = rng.chance(1, 2)
    canceller_main = rng.chance(2, 3)
    if before and canceller_main:
        main += ["cancel 1"]
    main += ["unlock m0"]
    if not before and canceller_main:
        main += ["cancel 1"]
    for t in range(1, nw + 1):
        a = rng.rng(1, 9)
        ops = ["lock m0", "add x0 %d" % a] + (["yield"] if rng.chance(1, 3) else []) + ["unlock m0"]
        expect += a
        if t == 1:
            ops += ["testcancel", "nop"]
        elif t == 2 and not canceller_main:
            ops = ["cancel 1"] + ops if before else ops + ["cancel 1"]
        threads[t] = ops
    main += ["join %d" % t for t in range(1, nw + 1)] + ["get x0"]
    threads[0] = main
    return objs, threads, {"x0": expect}, nw + 1


def gen_case(rng, kind=None, workers=None, pswitch=None, modes=None):
    kind = kind or ("cond" if rng.chance(1, 4) else "mutex")
    if kind == "cancel":
        workers = workers or rng.rng(1, 4)
        pswitch = pswitch or rng.choice([20, 35, 60, 85])
        objs, threads, expect, N = gen_cancel_program(rng)
        extra = {}
        if rng.chance(1, 2):
            extra["hold"] = rng.choice(["wake1.push %d 100" % rng.rng(3, 10), "mutex.lock.read %d 50" % rng.rng(3, 10),
                                        "mutex.clearbit %d 100" % rng.rng(3, 8)])
        text = trace.case_text(workers, rng.rng(1, 1 << 30), objs, threads, pswitch=pswitch, extra=extra)
        return {"text": text, "kind": kind, "N": N, "workers": workers, "pswitch": pswitch, "expect": expect}
    if kind == "life":
        modes = modes or [rng.choice(["", "attr", "static"]) for _ in range(rng.rng(1, 2))]
        workers = workers or rng.rng(1, 4)
        pswitch = pswitch or rng.choice([35, 60, 85])
        objs, threads, expect, N = gen_life_program(rng, modes)
        text = trace.case_text(workers, rng.rng(1, 1 << 30), objs, threads, pswitch=pswitch)
        return {"text": text, "kind": kind, "N": N, "workers": workers, "pswitch": pswitch, "expect": expect, "modes": modes}
    if kind == "hold":
        # targeted preemption: a locker that has reserved its seat is held before its enqueue (the unlocker's dequeue
        # spins), a woken sleeper is held before it re-reads the word (a fresh locker barges); contended blocking locks
        N = rng.rng(4, 6)
        enq = rng.chance(3, 4)
        workers = workers or (rng.rng(3, 4) if enq else rng.rng(2, 4))
        pswitch = pswitch or rng.choice([35, 60])
        objs = ["m0 mutex", "x0 var 0"]
        threads, expect = {}, 0
        for t in range(N):
            ops = ["create %d" % q for q in range(1, N)] if t == 0 else []
            for _ in range(rng.rng(3, 5)):
                d = rng.rng(1, 9)
                if rng.chance(1, 5):
                    ops += [rng.choice(["trylock m0", "timedlock m0 3000"]), "unlockif m0"]
                else:
                    ops += ["lock m0", "add x0 %d" % d, "unlock m0"]
                    expect += d
            if t == 0:
                ops += ["join %d" % q for q in range(1, N)] + ["get x0"]
            threads[t] = ops
        hold = ("blockq.enq %d 100" % rng.rng(18, 32)) if enq else ("mutex.lock.read %d %d" % (rng.rng(3, 8), rng.choice([20, 35])))
        text = trace.case_text(workers, rng.rng(1, 1 << 30), objs, threads, pswitch=pswitch, extra={"hold": hold})
        return {"text": text, "kind": kind, "N": N, "workers": workers, "pswitch": pswitch, "expect": {"x0": expect}}
    if kind == "timed":
        N = rng.rng(4, 6)            # main + timed locker + >= 2 blocking contenders
        workers = workers or rng.rng(2, 4)
        pswitch = pswitch or rng.choice([20, 35, 60])
        objs, threads, expect = gen_timed_program(rng, N)
        text = trace.case_text(workers, rng.rng(1, 1 << 30), objs, threads, pswitch=pswitch, extra={"clockstep": "1000"})
        return {"text": text, "kind": kind, "N": N, "workers": workers, "pswitch": pswitch, "expect": expect}
    workers = workers or rng.rng(1, 4)
    pswitch = pswitch or rng.choice([20, 35, 60, 85])
    seed = rng.rng(1, 1 << 30)
    if kind == "mutex":
        N = rng.rng(2, 6)
        nm = rng.rng(1, 2)
        objs, threads, ex = gen_mutex_program(rng, N, nm)
        expect = {"x%d" % j: ex[j] for j in range(nm)}
    else:
        N = rng.rng(3, 6)
        objs, threads, expect = gen_cond_program(rng, N)
    text = trace.case_text(workers, seed, objs, threads, pswitch=pswitch)
    return {"text": text, "kind": kind, "N": N, "workers": workers, "pswitch": pswitch, "expect": expect}


# --------------------------------------------------------------------------------------------------
# independent oracle of the property on one trace (no model involved)
# --------------------------------------------------------------------------------------------------

_STATE = re.compile(r"state=(-?\d+)")
_Q = re.compile(r"q=\[([^\]]*)\]")


def _qmembers(snap):
    m = _Q.search(snap or "")
    if not m:
        return None
    return set(int(x[1:]) for x in m.group(1).split(",") if x and x[0] == "t" and x[1:].isdigit())


def oracle(case, r):
    """returns None if the property holds on this run, else a message"""
    if r["verdict"] is None or r["rc"] != 0 or not r["verdict"].startswith("DONE"):
        v = r["verdict"] or "no verdict"
        what = "lost wake-up: " if v.startswith("DEADLOCK") else ""
        return "%srun did not complete (%s, rc=%s) %s" % (what, v[:160], r["rc"], (r.get("stderr") or "")[-160:].strip())
    objs, _, _, _ = trace.parse_case(case["text"])
    mutexes = set(n for n, (k, _) in objs.items() if k == "mutex")
    cur = {}            # thread -> (op words, list of (point id, state before, value) seen in main ctx during the call)
    inq = {}            # object -> members of its sleep queue in the latest snapshot
    polls = {}          # thread inside a timedlock call -> attempts made in the current polling iteration
    word = {}           # mutex -> its word in the latest snapshot (of anybody's POINT on it)
    gets = {}           # variable -> last value read by thread 0
    for e in r["events"]:
        T = e.actor
        # (vi) a thread that sits in a sleep queue emits nothing in its own context
        if T is not None and e.ctx == "m" and e.kind in "CRPE":
            for o, mem in inq.items():
                if T in mem:
                    return "thread t%d runs (%s) while it is in the sleep queue of %s" % (T, e.raw[:80], o)
        if e.kind == "C":
            cur[T] = (e.words, [])
            if e.words[0] == "timedlock":
                polls[T] = {"reads": 0, "even_seen": False, "iters": 0}
        elif e.kind == "E" and e.ctx == "m" and e.words and e.words[0] == "yield.enter" and T in polls:
            # (a) one polling iteration of timedlock = clock ; attempt ; yield : it must contain an attempt
            it = polls[T]
            it["iters"] += 1
            if it["reads"] == 0:
                m = cur[T][0][1] if T in cur else "?"
                w = word.get(m)
                return ("t%d: polling iteration %d of timedlock %s made no attempt (no mutex.try.read before the yield); "
                        "last known word of %s = %s%s" % (T, it["iters"], m, m, w,
                                                          " = FREE with lockers queued" if w is not None and w % 2 == 0 and w > 0 else
                                                          " = free" if w == 0 else ""))
            it["reads"] = 0
        elif e.kind == "P":
            pid, obj, val = e.words[0], e.words[1], e.words[2]
            mem = _qmembers(e.snap)
            if mem is not None and (obj in mutexes or objs.get(obj, ("",))[0] == "cond"):
                inq[obj] = mem
            st = _STATE.search(e.snap or "")
            if st and obj in mutexes:
                word[obj] = int(st.group(1))
            if e.ctx == "m" and T in polls and pid == "mutex.try.read" and T in cur and cur[T][0][1] == obj:
                polls[T]["reads"] += 1
            if pid == "blockq.enq":
                if e.ctx != "c":
                    return "%s enqueues itself on %s before its context is saved (blockq.enq outside the callback)" % (val, obj)
                if mem is not None and T is not None and T in mem:
                    return "t%d is already in the sleep queue of %s when its callback enqueues it" % (T, obj)
                if T in cur and cur[T][0][0] in ("trylock", "timedlock"):
                    return "t%d blocks (blockq.enq) inside %s" % (T, " ".join(cur[T][0]))
            if e.ctx == "m" and T in cur and st:
                cur[T][1].append((pid, int(st.group(1)), val))
            if pid == "mutex.clearbit" and st and int(st.group(1)) % 2 == 0:
                return "mutex.clearbit executed on %s with the lock bit already clear" % obj
        elif e.kind == "R":
            w, seen = cur.pop(T, (None, []))
            polls.pop(T, None)
            ret = int(e.words[1]) if len(e.words) > 1 and re.match(r"-?\d+$", e.words[1]) else None
            for kv in e.words[2:]:
                if kv.startswith("occ=") and kv != "occ=1":
                    return "mutual exclusion broken: t%d acquired %s with occupancy %s (%s)" % (
                        T, w[1] if w else "?", kv[4:], e.raw[:80])
            if w and w[0] in ("trylock", "timedlock") and w[1] in mutexes:
                reads = [x for x in seen if x[0] == "mutex.try.read"]
                if w[0] == "trylock" and ret == EBUSY:
                    if not reads or reads[-1][1] % 2 == 0:
                        return "t%d: trylock returned EBUSY but its last read saw the lock bit clear (%s)" % (T, reads[-1:])
                elif w[0] == "timedlock" and ret == ETIMEDOUT:
                    if not reads or reads[-1][1] % 2 == 0:
                        return "t%d: timedlock timed out although its last read saw the lock bit clear" % T
                    # (b) every attempt that read a free word went for the CAS (it may lose the race, then it reads again)
                    for k, x in enumerate(seen):
                        if x[0] == "mutex.try.read" and x[1] % 2 == 0 and not (k + 1 < len(seen) and seen[k + 1][0] == "mutex.try.cas"):
                            return "t%d: timedlock timed out although an attempt read a free word (%d) and did not try to take it" % (T, x[1])
                elif ret == 0:
                    if not seen or seen[-1][0] != "mutex.try.cas" or seen[-1][1] % 2 != 0 or str(seen[-1][1]) != seen[-1][2]:
                        return "t%d: %s returned 0 without a successful CAS on an unlocked word (%s)" % (T, w[0], seen[-1:])
                else:
                    return "t%d: %s returned %s" % (T, w[0], ret)
            if w and w[0] in ("lock", "unlock") and ret != 0:
                return "t%d: %s returned %s" % (T, w[0], ret)
            if w and w[0] == "get" and T == 0:
                gets[w[1]] = ret
            if w and w[0] == "minit":
                kv = dict(x.split("=", 1) for x in e.words[2:] if "=" in x)
                if ret != 0 or kv.get("state") != "0" or kv.get("qn") != "0":
                    return ("a freshly initialised mutex is not free and empty: `%s` returned %s with state word %s and %s queued "
                            "thread(s)" % (" ".join(w), ret, kv.get("state"), kv.get("qn")))
                inq.pop(w[1], None)
                word[w[1]] = 0
    for var, exp in case["expect"].items():
        if gets.get(var) != exp:
            return "lost update: final %s = %s, the critical sections added %d" % (var, gets.get(var), exp)
    return None


def overlap_stats(r):
    """how many runs had two callbacks of one thread in flight at the same time (model: cbs of length 2)"""
    openc, mx = {}, 0
    for e in r["events"]:
        if e.kind == "E" and e.words and e.words[0] == "cb.enter":
            openc[e.actor] = openc.get(e.actor, 0) + 1
            mx = max(mx, openc[e.actor])
        elif e.kind == "E" and e.words and e.words[0] == "cb.leave":
            openc[e.actor] = openc.get(e.actor, 0) - 1
    return mx


def situations(case, r):
    """the situations the statement names, counted on one trace:
       barging    = a successful acquiring CAS (lock.cas1 / try.cas whose operand equals the word in the snapshot) on a
                    word >= 2 (bit clear, sleepers or announced lockers queued) by a thread that has not slept during the
                    call (no blockq.enq of its own since its call line);
       migrated   = a lock call during which the thread slept (blockq.enq on worker A) and whose next own-context
                    line / return line is on another worker;
       spin       = wake1.spin events (unlock's dequeue found the queue empty: racing a locker that has announced
                    itself - seat CAS done - and not yet enqueued)"""
    objs, _, _, _ = trace.parse_case(case["text"])
    mutexes = set(n for n, (k, _) in objs.items() if k == "mutex")
    call, slept, out = {}, {}, {"barging": 0, "barging_try": 0, "migrated": 0, "spin": 0, "slept_calls": 0}
    for e in r["events"]:
        T = e.actor
        if e.kind == "S" and e.words and e.words[0] == "wake1.spin":
            out["spin"] += 1
        elif e.kind == "C":
            call[T] = e.words
            slept.pop(T, None)
        elif e.kind == "P":
            pid, obj, val = e.words[0], e.words[1], e.words[2]
            if obj not in mutexes:
                continue
            if pid == "blockq.enq" and e.ctx == "c" and T in call and call[T][0] == "lock":
                slept[T] = e.w                      # the worker the thread has just left
            elif e.ctx == "m" and T in slept and slept[T] is not None and slept[T] >= 0:
                out["slept_calls"] += 1
                if e.w != slept[T]:
                    out["migrated"] += 1
                slept[T] = -1 - e.w                 # resumed: counted once per sleep; keeps "has slept" for barging
            if e.ctx == "m" and pid in ("mutex.lock.cas1", "mutex.try.cas"):
                st = _STATE.search(e.snap or "")
                if st and st.group(1) == val and int(val) >= 2 and int(val) % 2 == 0 and T not in slept:
                    out["barging"] += 1
                    if pid == "mutex.try.cas":
                        out["barging_try"] += 1
        elif e.kind == "R":
            call.pop(T, None)
            slept.pop(T, None)
    return out


# --------------------------------------------------------------------------------------------------

def load_corpus():
    d = os.path.join(vlib.VERIF, "corpus", "C04")
    res = []
    if os.path.isdir(d):
        for f in sorted(os.listdir(d)):
            if f.endswith(".json"):
                c = json.load(open(os.path.join(d, f)))
                c["corpus"] = f
                res.append(c)
    return res


def build(ctx):
    """shared build, then a private copy of the interpreter: the shared cache directory is pruned by
    concurrent checks of other properties"""
    exe, drv = sync_common.build(ctx)
    mine = os.path.join(ctx.dir, "lib_interp")
    shutil.copyfile(exe, mine + ".tmp")
    os.chmod(mine + ".tmp", 0o755)
    os.replace(mine + ".tmp", mine)
    return mine, drv


def run_cases_robust(ctx, exe, drv, texts):
    """sync_common.run_cases case by case; a run whose trace cannot even be parsed / projected (the library
    crashed or aborted in the middle of a line) becomes a result with no verdict instead of an exception"""
    out = []
    for i, t in enumerate(texts):
        try:
            r = sync_common.run_cases(ctx, exe, drv, [t])[0]
        except Exception as ex:                                   # noqa: broad on purpose, see docstring
            if not os.path.exists(exe) or not os.path.exists(drv):
                raise vlib.BuildError("interpreter or driver disappeared during the run: %s" % ex)
            tp = os.path.join(ctx.dir, "runs", "c0000.trace")
            tail = ""
            try:
                tail = open(tp, errors="replace").read()[-300:]
            except OSError:
                pass
            r = {"case": t, "rc": -1, "verdict": None, "events": [], "groups": [], "model": [], "fail_context": [],
                 "stderr": "trace unusable (%s: %s); tail: %s" % (type(ex).__name__, str(ex)[:80], tail), "trace_path": tp}
        out.append(r)
    return out


def replay_incarnations(drv, case_text, r):
    """lifecycle cases: the trace is cut at every `C .. minit M` line; every incarnation of the mutex is replayed
    through the model from init_state (a fresh mutex: word 0, empty queue)"""
    groups, nt = trace.sync_groups(case_text)
    g = [x for x in groups if x["mutex"]][0]
    segs, cur = [], []
    for e in r["events"]:
        if e.kind == "C" and e.words and e.words[0] == "minit" and e.words[1] == g["mutex"]:
            segs.append(cur)
            cur = []
        cur.append(e)
    segs.append(cur)
    blocks = [trace.sync_block(g, nt, seg) for seg in segs]
    res = trace.validate_blocks(drv, blocks)
    fc = []
    for b, x in zip(blocks, res):
        if x.startswith("FAIL"):
            k = int(x.split()[1])
            fc.append({"verdict": x, "model_input_tail": b[0][max(0, k - 10):k + 1]})
    return res, fc


def judge(ctx, cases, exe, drv):
    results = run_cases_robust(ctx, exe, drv, [c["text"] for c in cases])
    fails, mism = [], []
    for c, r in zip(cases, results):
        if c.get("kind") == "life" and r["events"]:
            try:
                r["model"], r["fail_context"] = replay_incarnations(drv, c["text"], r)
            except Exception as ex:                      # noqa: damaged trace
                r["model"], r["fail_context"] = ["FAIL 0 projection failed: %s" % ex], []
        msg = oracle(c, r)
        if msg:
            fails.append((c, r, msg))
        bad = [m for m in r["model"] if not m.startswith("ok")]
        if bad:
            mism.append((c, r, bad))
    return results, fails, mism


def run(ctx):
    broken, log = ctx.prove("Properties_C04.v", "Properties_C04")
    exe, drv = build(ctx)
    n = 300 if not ctx.thorough else 6000
    corpus = load_corpus()
    cases = corpus + [gen_case(ctx.rng) for _ in range(n)]
    # preemption-heavy sweep of the five delicate points (seat CAS, enqueue, -2 CAS, clear, push)
    cases += [gen_case(ctx.rng, kind="mutex", workers=ctx.rng.rng(2, 4), pswitch=85) for _ in range(n // 6)]
    # timed locker polling against blocking contenders (word 2, 4, .. = free with lockers queued)
    cases += [gen_case(ctx.rng, kind="timed") for _ in range(40 if not ctx.thorough else 400)]
    # `hold` sweeps: seat reserved / not yet enqueued, woken / not yet re-read
    cases += [gen_case(ctx.rng, kind="hold") for _ in range(50 if not ctx.thorough else 400)]
    # object lifecycle: used, destroyed, re-initialised (NULL attr / initialised attr / static initialiser), used again
    nl = 30 if not ctx.thorough else 300
    cases += [gen_case(ctx.rng, kind="life", modes=[["attr"], [""], ["static"], ["attr", ""], ["", "attr"], ["static", "attr"]][i % 6])
              for i in range(nl)]
    # cancellation of a parked waiter (lock is not a cancellation point)
    cases += [gen_case(ctx.rng, kind="cancel") for _ in range(30 if not ctx.thorough else 300)]
    results, fails, mism = judge(ctx, cases, exe, drv)
    hist = sync_common.point_histogram(results)
    missing = [p for p in POINTS if not hist.get(p)]
    canc = {"runs": 0, "cancelled_while_parked": 0, "cancelled_waiter_acquired_later": 0}
    for c, r in zip(cases, results):
        if c.get("kind") != "cancel":
            continue
        canc["runs"] += 1
        parked, hit = False, False
        for e in r["events"]:
            if e.kind == "P" and e.words[0] == "blockq.enq" and e.actor == 1:
                parked = True
            elif e.kind == "P" and e.words[0] in ("wake1.push",) and e.words[2] == "t1":
                parked = False
            elif e.kind == "C" and e.words[0] == "cancel" and e.words[1] == "1" and parked:
                hit = True
            elif hit and e.kind == "R" and e.actor == 1 and any(x == "occ=1" for x in e.words[2:]):
                canc["cancelled_waiter_acquired_later"] += 1
                hit = False
                canc["cancelled_while_parked"] += 1
    if canc["cancelled_waiter_acquired_later"] == 0 and not fails:
        missing.append("situation:a waiter cancelled while parked acquires afterwards")
    life = {"reinit_null": 0, "reinit_attr": 0, "reinit_static": 0, "incarnations_replayed": 0, "sleeps_after_reinit": 0}
    for c, r in zip(cases, results):
        if c.get("kind") != "life":
            continue
        life["incarnations_replayed"] += sum(1 for m in r["model"] if m.startswith("ok"))
        seen_init = False
        for e in r["events"]:
            if e.kind == "C" and e.words and e.words[0] == "minit":
                seen_init = True
                life["reinit_attr" if "attr" in e.words[2:] else "reinit_static" if "static" in e.words[2:] else "reinit_null"] += 1
            elif seen_init and e.kind == "P" and e.words[0] == "blockq.enq":
                life["sleeps_after_reinit"] += 1
    for k in ("reinit_null", "reinit_attr", "reinit_static", "sleeps_after_reinit"):
        if life[k] == 0:
            missing.append("lifecycle:%s never exercised" % k)
    sit = {"barging": 0, "barging_try": 0, "migrated": 0, "spin": 0, "slept_calls": 0}
    for c, r in zip(cases, results):
        if c["workers"] >= 2:
            for k, v in situations(c, r).items():
                sit[k] += v
        else:
            sit["spin"] += situations(c, r)["spin"]
    spins = sit["spin"]
    # gates: the situations named by the statement must have been exercised by this very run
    if sit["barging"] == 0:
        missing.append("situation:barging (acquisition on a word >= 2 by a thread that did not sleep)")
    if sit["migrated"] == 0:
        missing.append("situation:sleeper resumed on another worker")
    if spins <= 100 and not fails:
        missing.append("situation:unlock racing an announced locker (wake1.spin %d <= 100)" % spins)
    dist = {}
    for c in cases:
        k = "%s/N%d/w%d/p%d" % (c["kind"], c["N"], c["workers"], c["pswitch"])
        dist[k] = dist.get(k, 0) + 1
    verd = {}
    for r in results:
        v = (r["verdict"] or "none").split()[0]
        verd[v] = verd.get(v, 0) + 1
    rets = {}
    for r in results:
        pend = {}
        for e in r["events"]:
            if e.kind == "C":
                pend[e.actor] = e.words[0]
            elif e.kind == "R" and e.actor in pend:
                k = "%s=%s" % (pend.pop(e.actor), e.words[1] if len(e.words) > 1 else "?")
                if k.split("=")[0] in ("lock", "trylock", "timedlock", "unlock", "cwait"):
                    rets[k] = rets.get(k, 0) + 1
    ctx.cov["correspondence"] = {
        "cases": len(cases), "corpus_cases": len(corpus), "model_steps_replayed": sum(
            int(m.split()[1]) for r in results for m in r["model"] if m.startswith("ok")),
        "disagreements": len(mism), "oracle_failures": len(fails),
        "input_distribution_kind": {k: sum(v for kk, v in dist.items() if kk.startswith(k)) for k in ("mutex", "cond", "timed", "hold", "life", "cancel")},
        "input_distribution_workers": {str(w): sum(v for kk, v in dist.items() if "/w%d/" % w in kk) for w in (1, 2, 3, 4)},
        "input_distribution_pswitch": {str(p): sum(v for kk, v in dist.items() if kk.endswith("/p%d" % p)) for p in (20, 35, 60, 85)},
        "verdicts": verd, "return_values": rets, "point_histogram": {p: hist.get(p, 0) for p in POINTS},
        "wake1.spin_events": spins, "situations_2_to_4_workers": sit, "object_lifecycle": life, "cancelled_waiters": canc, "runs_with_two_callbacks_of_one_thread": sum(1 for r in results if overlap_stats(r) >= 2)}
    ctx.cov["evaluations"] = sum(len(r["events"]) for r in results)
    ctx.cov["samples"] += [{"case": cases[i]["text"], "verdict": results[i]["verdict"], "model": results[i]["model"]}
                           for i in (0, len(cases) // 2, len(cases) - 1)]
    ctx.cov["trusted_base"] += [
        "extraction: ExtrOcamlBasic only; ocaml/driver_Sync.ml, ocaml/zio.ml (shared Sync driver)",
        "harness/lib_interp.c (schedule controller: one participant runs at a time, decisions at MYTH_VERIF_POINTs; occupancy witness)",
        "tools/trace.py projection of traces onto the Sync model; MYTH_VERIF hooks in src/myth_sync_func.h (guarded by -DMYTH_VERIF)",
        "modelled, not verified: sleep-queue enqueue/dequeue as one step each (run under the queue's spinlock), the run queues "
        "(a pushed thread is simply runnable), context save/restore (C03), sequential consistency of the mutex word"]
    if fails:
        # the most telling witness first (an iteration without attempt while the mutex was free)
        fails.sort(key=lambda f: 0 if ("FREE with lockers queued" in f[2] or "freshly initialised" in f[2]) else 1 if "= free" in f[2] else 2)
        c, r, msg = fails[0]
        ctx.violation("oracle", msg, {"case": c, "observed": {"verdict": r["verdict"], "model": r["model"], "trace": r["trace_path"]},
                                      "expected": "property C04 (see oracle() in tools/props/c04.py)", "level": "library",
                                      "failing_runs": len(fails), "others": [m for _, _, m in fails[1:8]]}, found=True)
    elif mism or broken or missing:
        # something broke without a failing input so far: search harder for one (more seeds, preemption heavy)
        found = None
        base = [c for c, _, _ in mism[:6]] or cases[:6]
        extra = []
        for c in base:
            for k in range(12):
                t = re.sub(r"^seed \d+", "seed %d" % ctx.rng.rng(1, 1 << 30), c["text"], flags=re.M)
                t = re.sub(r"^pswitch \d+", "pswitch %d" % ctx.rng.choice([60, 75, 90]), t, flags=re.M)
                t = re.sub(r"^workers \d+", "workers %d" % ctx.rng.rng(2, 4), t, flags=re.M)
                extra.append(dict(c, text=t))
        extra += [gen_case(ctx.rng, pswitch=ctx.rng.choice([60, 85, 90])) for _ in range(150)]
        _, f2, _ = judge(ctx, extra, exe, drv)
        ctx.cov["correspondence"]["search_runs"] = len(extra)
        if f2:
            c, r, msg = f2[0]
            ctx.violation("oracle", msg, {"case": c, "observed": {"verdict": r["verdict"], "model": r["model"]},
                                          "expected": "property C04", "level": "library", "found_by": "search after a broken obligation"},
                          found=True)
        else:
            if mism:
                c, r, bad = mism[0]
                ctx.violation("correspondence",
                              "model (Sync/SyncModel.v) and library disagree on %d of %d runs; first: %s" % (len(mism), len(cases), bad[0][:200]),
                              {"theorem_or_correspondence": "correspondence Sync/SyncModel.v <-> src/myth_sync_func.h (mutex, block/wake helpers)",
                               "case": c, "observed": r["fail_context"][:2], "expected": "every trace replays through SyncModel.step",
                               "search": "no oracle failure in %d further runs" % len(extra)}, found=False)
            if missing:
                ctx.violation("coverage", "POINT ids never reached in this run: " + ", ".join(missing),
                              {"theorem_or_correspondence": "coverage of the mutex routines by the correspondence run",
                               "histogram": hist}, found=False)
    if broken:
        ctx.violation("proof", "theorem(s) no longer check: " + ", ".join(broken),
                      {"theorem_or_correspondence": ", ".join(broken), "log": getattr(ctx, "proof_log", log[-3000:])}, found=False)
    return ctx.finish(assumptions=[
        "usage contract encoded as enabledness of ECall: unlock / cond_wait / mark_and_signal only by the holder, no recursive lock",
        "sequentially consistent accesses to mutex->state (the code uses __sync builtins = full barriers)",
        "liveness is not claimed (needs scheduler fairness); replaced by C04_no_lost_wakeup / C04_quiescent_no_sleeper"])


def replay(ctx, path):
    body = json.load(open(path))
    c = body.get("case")
    if not c:
        print("replay file carries no case (broken obligation: %s)" % body.get("what"))
        return 0
    exe, drv = build(ctx)
    results, fails, mism = judge(ctx, [c], exe, drv)
    r = results[0]
    print("case:\n" + c["text"])
    print("impl verdict:", r["verdict"], "rc", r["rc"])
    print("model replay:", r["model"], r["fail_context"][:1])
    print("oracle:", fails[0][2] if fails else "property holds on this run")
    print("trace:", r["trace_path"])
    return 1 if fails else 0
