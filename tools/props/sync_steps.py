"""Source step-table obligation for the blocking synchronisation primitives: mutex (C04), condition variable
(C05), barrier (C06), join counter (C07), full/empty lock (C09) and the helpers they share (block / wake
helpers, sleep queue, sleep stack, internal spin lock).

The trace ties of these properties see the library through its MYTH_VERIF_POINTs, on the runs that were made:
a change BETWEEN two hooks (`x->next = t` moved behind the CAS of the stack push) or a branch that no generated
run takes (a fast path for n == 1, a batch limit, an unlocked peek at the queue head, a give-up after a
time-out) is invisible to them.  This obligation closes that class structurally, exactly as
tools/props/c08c14_steps.py does for uncond / once (whose extractor it reuses): every function the models
transliterate is read from the PREPROCESSED source of the current tree (vlib.REPO, -DMYTH_VERIF, translation unit
src/myth_if_native.c), reduced to its protocol-relevant atoms

    HOOK(kind,"id",obj,val)      a MYTH_VERIF_POINT (0) / _SPIN (1) / _EVENT (2)
    SWAP(cb;ctx,next,a1,a2,a3)   the context switch with callback
    CALL f(args)                 every function call (except myth_ensure_init / myth_get_current_env)
    STORE / READ / ADDR x->w     every access to an object word  (WORDS below)
    LET l=e                      a read of an object word in an assignment to a local: the whole expression
    while(c) if(c) else for(..) do switch(c) return e break continue goto ?: ASM

in textual order, parameters renamed P0.., locals L0.. in order of first appearance in the atoms, and compared
with TABLE below, which is the step table of the models written as atoms: next to every group of atoms the
model step it is.  Anything missing or extra is a mismatch.  Whitespace, comments, renamed locals, added
declarations / statements that are no atoms (`failed++`, `x->env = env`, an assert on a local) are not.
`assert(e)` is reduced to the reads of object words inside e (the expansion carries file name and line).

Atoms WITHOUT a counterpart in the model are marked `[no model step]` in the table and listed in UNMODELLED
(reported in the evidence): they are accepted as they are in the current source, any change to them is a
mismatch like every other.

Maintenance:  python3 tools/props/sync_steps.py dump [function ...]     atoms of the current source, table syntax
              python3 tools/props/sync_steps.py check [C04|C05|C06|C07|C09]"""
import os, re, sys, time, difflib
if __name__ == "__main__":
    sys.path.insert(0, os.path.dirname(os.path.dirname(os.path.abspath(__file__))))
import vlib
from props import c08c14_steps as base

# the object words: mutex / barrier / join counter `state`; barrier / jc `n_threads`; jc `n_threads_bits`,
# `state_mask`; felock `status`, its `mutex` and `cond`s; sleep queue `head`, `tail`, its lock `ilock`, the link
# `next` of an item; sleep stack `top`; spin lock `locked`; the embedded queue / stack of an object
# (`sleep_q`, `sleep_s`)
WORDS = ("state", "n_threads", "n_threads_bits", "state_mask", "status", "mutex", "cond",
         "head", "tail", "next", "ilock", "top", "locked", "sleep_q", "sleep_s")
GLOBALS = {"g_myth_verif_cb", "NULL", "stderr"}
IGNORE_CALLS = {"myth_ensure_init", "myth_get_current_env"}
EXTRA_KEYWORDS = {"ASSERT"}
UNIT = "myth_if_native.c"       # the translation unit whose copies of the inline bodies the public API uses

SYNC = "coq/Sync/SyncModel.v"
BARR = "coq/Barrier/BarrierModel.v"
JC = "coq/JoinCounter/JcModel.v"
SPIN = "coq/Spin/SpinModel.v"
MACH = "coq/Machine/MachineModel.v"


def fwd(body, n):
    """a public entry point that does nothing but forward its n arguments to the body"""
    a = ",".join("P%d" % i for i in range(n))
    return ["return %s(%s)" % (body, a), "CALL %s(%s)" % (body, a)]


# =========================================================================================================
# the table: function -> (model file(s), atoms).  Comments: the model step a group of atoms is.
# =========================================================================================================

TABLE = {
    # ------------------------------------------------------------------------------------------------
    # internal spin lock  (SpinModel.v: sstep; DESIGN.md A.1)
    # ------------------------------------------------------------------------------------------------
    "myth_spin_init_body": (SPIN, [
        'STORE P0->locked=0',                                   # sinit: locked := false
        'return 0',
    ]),
    "myth_spin_lock_body": (SPIN, [
        'while(!myth_spin_trylock_body(P0))',                   # SCallLock -> STry; STick STry repeated until the CAS succeeds:
        'CALL myth_spin_trylock_body(P0)',                      #   the loop has ONE exit, the successful trylock
        'HOOK(1,"spin.wait",P0,0)',                             # STick STry with locked = true: state unchanged (spin)
        'return L0',                                            # -> SHeld (number of failures: diagnostic)
    ]),
    "myth_compare_and_set_int": (SPIN, [
        'return __sync_bool_compare_and_swap(P0,P1,P2)',        # the CAS of STick STry
        'CALL __sync_bool_compare_and_swap(P0,P1,P2)',
    ]),
    "myth_spin_trylock_body": (SPIN, [
        'HOOK(0,"spin.trylock",P0,0)',                          # STick STry: one POINT, then
        'if(myth_compare_and_set_int(&P0->locked,0,1))',        #   CAS(locked, 0, 1)
        'CALL myth_compare_and_set_int(&P0->locked,0,1)',
        'ADDR P0->locked',
        'CALL myth_rwbarrier()',                                #   fence (the models are sequentially consistent: no step)
        'return 1',                                             #   locked = false -> locked := true, SHeld
        'else',
        'return 0',                                             #   locked = true  -> unchanged
    ]),
    "myth_spin_unlock_body": (SPIN, [
        'CALL myth_rwbarrier()',                                # fence (no step)
        'HOOK(0,"spin.unlock",P0,0)',                           # SCallUnlock -> SUnlock; STick SUnlock:
        'STORE P0->locked=0',                                   #   locked := false, SIdle
        'return 0',
    ]),
    # ------------------------------------------------------------------------------------------------
    # sleep queue  (SpinModel.v: enq / deq on the pointer representation; one step of the protocol
    # models, justified by Spin/SpinProofs.v; DESIGN.md A.1)
    # ------------------------------------------------------------------------------------------------
    "myth_sleep_queue_init": (SPIN, [
        'STORE P0->head=P0->tail=0',                            # qempty: head = tail = None
        'STORE P0->tail=0',
        'CALL myth_spin_init_body(P0->ilock)',                  # sinit
        'READ P0->ilock',
    ]),
    "myth_sleep_queue_destroy": (SPIN, [                         # [no model step] object destruction is outside the models
        'READ P0->head',                                        #   assert(q->head == 0)
        'READ P0->tail',                                        #   assert(q->tail == 0)
        'CALL myth_spin_destroy(P0->ilock)',
        'READ P0->ilock',
    ]),
    "myth_sleep_queue_enq": (SPIN, [
        'STORE P1->next=0',                                     # enq: nx := set_next (qnext q) t None  (t is private: BEFORE the lock)
        'CALL myth_spin_lock_body(P0->ilock)',                  # locked{
        'LET L0=myth_spin_lock_body(P0->ilock)',                # (spin_failed: diagnostic)
        'LET L1=P0->tail',                                      #   match qtail q with
        'if(L1)',
        'STORE L1->next=P1',                                    #   | Some tl => set_next nx tl (Some t)
        'else',
        'STORE P0->head=P1',                                    #   | None => qhead := Some t
        'STORE P0->tail=P1',                                    #   qtail := Some t   (both branches)
        'CALL myth_spin_unlock_body(P0->ilock)',                # }
        'READ P0->ilock',
        'return L0',                                            # number of failed lock attempts (diagnostic)
    ]),
    "myth_sleep_queue_deq": (SPIN, [
        'CALL myth_spin_lock_body(P0->ilock)',                  # locked{
        'READ P0->ilock',
        'LET L0=P0->head',                                      #   deq: match qhead q with None => (q, None)
        'if(L0)',                                               #   | Some h =>
        'LET L1=L0->next',                                      #       n := lookup (qnext q) h
        'STORE P0->head=L1',                                    #       qhead := n
        'if(!L1)',
        'STORE P0->tail=0',                                     #       qtail := None when n = None
        'CALL myth_spin_unlock_body(P0->ilock)',                # }
        'READ P0->ilock',
        'return L0',                                            #   Some h / None
    ]),
    "myth_sleep_queue_enq_th": (SPIN, [
        'return myth_sleep_queue_enq(P0,(myth_sleep_queue_item_t)P1)',       # forwards (thread descriptor = item)
        'CALL myth_sleep_queue_enq(P0,(myth_sleep_queue_item_t)P1)',
    ]),
    "myth_sleep_queue_deq_th": (SPIN, [
        'return (myth_thread_t)myth_sleep_queue_deq(P0)',       # forwards
        'CALL myth_sleep_queue_deq(P0)',
    ]),
    # ------------------------------------------------------------------------------------------------
    # sleep stack  (BarrierModel.v: CbPushRead / CbPushCas, PopRead / PopCas; DESIGN.md A.1)
    # ------------------------------------------------------------------------------------------------
    "myth_sleep_stack_init": (BARR, [
        'STORE P0->top=0',                                      # init_state: top := None
    ]),
    "myth_sleep_stack_destroy": (BARR, [                         # [no model step] destruction is outside the model
        'READ P0->top',                                         #   assert(s->top == 0)
    ]),
    "myth_sleep_stack_push": (BARR, [
        'while(1)',                                             # CbPushCas failing -> CbPushRead
        'HOOK(0,"sstack.push.read",P0,P1)',                     # CbPushRead (lval = me):
        'LET L0=P0->top',                                       #   tp := top s
        'STORE P1->next=L0',                                    #   set_next s me tp      (in the SAME step, before the CAS)
        'HOOK(0,"sstack.push.cas",P0,P1)',                      # CbPushCas tp (lval = me):
        'if(__sync_bool_compare_and_swap(&P0->top,L0,P1))',     #   if top s = tp then top := Some me
        'CALL __sync_bool_compare_and_swap(&P0->top,L0,P1)',
        'ADDR P0->top',
        'return 0',                                             #   -> CbNone
    ]),
    "myth_sleep_stack_pop": (BARR, [
        'while(1)',                                             # PopCas failing -> PopRead
        'HOOK(0,"sstack.pop.read",P0,0)',                       # PopRead:
        'LET L0=P0->top',                                       #   match top s with
        'if(L0==0)',
        'return L0',                                            #   | None => pop returned 0 (caller spins)
        'HOOK(0,"sstack.pop.cas",P0,L0)',                       #   | Some x => PopCas x  (lval = x):
        'if(__sync_bool_compare_and_swap(&P0->top,L0,L0->next))',   # if top s = Some x then top := get_next s x
        'CALL __sync_bool_compare_and_swap(&P0->top,L0,L0->next)',
        'ADDR P0->top',
        'READ L0->next',                                        #   get_next s x, read in the CAS step
        'return L0',
    ]),
    "myth_sleep_stack_push_th": (BARR, [
        'return myth_sleep_stack_push(P0,(myth_sleep_queue_item_t)P1)',      # forwards
        'CALL myth_sleep_stack_push(P0,(myth_sleep_queue_item_t)P1)',
    ]),
    "myth_sleep_stack_pop_th": (BARR, [
        'return (myth_thread_t)myth_sleep_stack_pop(P0)',       # forwards
        'CALL myth_sleep_stack_pop(P0)',
    ]),
    # ------------------------------------------------------------------------------------------------
    # block on queue / stack  (SyncModel.v: add_cb (CbEnq q unl), cbtick; JcModel.v: Susp + CbEnq;
    # BarrierModel.v: Susp + CbPushRead; the run-queue pop and the switch itself: Machine model; A.4)
    # ------------------------------------------------------------------------------------------------
    "myth_block_on_queue_cb": (SYNC + ", " + JC, [
        'HOOK(2,"cb.enter",L0,0)',                              # the callback activity of thread `cur` begins
        'HOOK(0,"blockq.enq",L1,L0)',                           # cbtick CbEnq q unl (lval = me):
        'CALL myth_sleep_queue_enq_th(L1,L0)',                  #   setq s q (getq s q ++ [t])           (ONE enqueue, of cur, on q)
        'if(L2)',                                               #   unl = true (cond_wait): -> CbUnl (URead 0), the whole unlock
        'CALL myth_mutex_unlock_body(L2)',                      #   micro-program AFTER the enqueue; unl = false: callback done
        'HOOK(2,"cb.leave",L0,0)',
    ]),
    "myth_block_on_queue": (SYNC + ", " + JC + "; " + MACH, [
        'CALL myth_queue_pop(&L0->runnable_q)',                 # Machine: pop the next thread of this worker
        'if(L1)',                                               #   next thread / scheduler context
        'else',
        'SWAP(myth_block_on_queue_cb;&L2->context,L3,P0,L2,P1)',    # main := Susp k; add_cb (CbEnq q unl): the ONLY way the
    ]),                                                         #   thread reaches the queue is the callback (q, cur, m)
    "myth_block_on_stack_cb": (BARR, [
        'HOOK(2,"cb.enter",L0,0)',
        'CALL myth_sleep_stack_push_th(L1,L0)',                 # cb := CbPushRead ... CbPushCas (myth_sleep_stack_push of me)
        'if(L2)',                                               # m = 0 for the barrier: never taken (kept as in the source)
        'CALL myth_mutex_unlock_body(L2)',
        'HOOK(2,"cb.leave",L0,0)',
    ]),
    "myth_block_on_stack": (BARR + "; " + MACH, [
        'CALL myth_queue_pop(&L0->runnable_q)',                 # Machine
        'if(L1)',
        'else',
        'SWAP(myth_block_on_stack_cb;&L2->context,L3,P0,L2,P1)',    # {| main := Susp; cb := CbPushRead |}
    ]),
    # ------------------------------------------------------------------------------------------------
    # wake helpers
    # ------------------------------------------------------------------------------------------------
    "empty_loop": (SYNC, [                                       # [no model step] pure delay between two wake1.deq attempts
        'CALL myth_get_rdtsc()',
        'while(L0<end_t)',
        'CALL myth_get_rdtsc()',
    ]),
    "myth_wake_one_from_queue": (SYNC, [                         # ustep UDeq / UClear / UPush
        'while(1)',                                             # UDeq: loop with ONE exit (a thread was dequeued)
        'HOOK(0,"wake1.deq",P0,0)',                             # UDeq nf:
        'CALL myth_sleep_queue_deq_th(P0)',                     #   match mq s with
        'if(L0)',
        'break',                                                #   | x :: r => setq QM r, UClear nf x
        'HOOK(1,"wake1.spin",P0,0)',                            #   | [] => UDeq (nf + 1)
        'CALL empty_loop(100)',                                 #   [no model step] delay
        'if(P1)',                                               # UClear nf x: the callback = myth_mutex_clear_lock_bit,
        'CALL P1(P2)',                                          #   AFTER the dequeue and BEFORE the push
        'HOOK(0,"wake1.push",P0,L0)',                           # UPush nf x (lval = x):
        'CALL myth_queue_push(&L1->runnable_q,L0)',             #   wake s x          (ONE push, of the thread dequeued)
        'return L2',                                            # UFin nf
    ]),
    "myth_wake_many_from_queue": (JC, [                          # tick KDeq / KPush
        'for(L0=0;L0<P3;L0++)',                                 # KDeq n i acc, i = 0 .. n-1   (n = 0: no iteration, DCas -> Done)
        'while(!L1)',                                           #   ONE exit: a thread was dequeued
        'HOOK(0,"wakemany.deq",P0,L0)',                         #   KDeq (lval = i):
        'CALL myth_sleep_queue_deq_th(P0)',                     #     match sq s with [] => same state (spin) | x :: r => set_sq r
        'if(!L1)',
        'HOOK(1,"wakemany.spin",P0,0)',
        'STORE L1->next=0',                                     #   acc ++ [x]: the private list, linked through the next
        'if(L2)',                                               #     fields of the dequeued (suspended, hence private) threads;
        'STORE L2->next=L1',                                    #     the model keeps it as a Coq list
        'else',
        'if(P1)',                                               # callback (0 for the join counter: not taken)
        'CALL P1(P2)',
        'for(L0=0;L0<P3;L0++)',                                 # KPush n i rest, i = 0 .. n-1
        'LET L3=L1->next',                                      #   rest = x :: r
        'HOOK(0,"wakemany.push",P0,L1)',                        #   KPush (lval = x):
        'CALL myth_queue_push(&L4->runnable_q,L1)',             #     wake s x; g_push
        'return P3',
    ]),
    "myth_wake_if_any_from_queue": (SYNC, [                      # tick SigDeq / SigPush
        'HOOK(0,"wakeany.deq",P0,0)',                           # SigDeq c k:
        'CALL myth_sleep_queue_deq_th(P0)',                     #   match getq s (QC c) with
        'if(!L0)',
        'return 0',                                             #   | [] => done (ASRet / ASLoop: Done 0; ASUnlock: Unl (URead 0))
        'if(P1)',                                               # callback (0 for cond: not taken)
        'CALL P1(P2)',
        'HOOK(0,"wakeany.push",P0,L0)',                         #   | x :: r => setq r; SigPush c k x  (lval = x):
        'CALL myth_queue_push(&L1->runnable_q,L0)',             #     wake s x
        'return 1',
    ]),
    "myth_wake_all_from_queue": (SYNC, [                         # SigDeq c ASLoop / SigPush c ASLoop x -> SigDeq c ASLoop
        'while(1)',                                             # repeat signal until it finds the queue empty:
        'if(myth_wake_if_any_from_queue(P0,P1,P2)==0)',         #   ONE exit, SigDeq on [] ; no bound on the number of rounds
        'CALL myth_wake_if_any_from_queue(P0,P1,P2)',
        'break',
        'return L0',
    ]),
    "myth_wake_many_from_stack": (BARR, [                        # after_pops / PopRead / PopCas / WPush
        'for(L0=0;L0<P3;L0++)',                                 # after_pops n i h tl: i <? n -> PopRead n i h tl   (every n: no fast path)
        'while(!L1)',                                           #   ONE exit: a thread was popped
        'CALL myth_sleep_stack_pop_th(P0)',                     #   PopRead / PopCas (myth_sleep_stack_pop)
        'if(!L1)',
        'HOOK(1,"wakemanys.spin",P0,0)',                        #   top = None: PopRead again
        'STORE L1->next=0',                                     #   PopCas success: set_next x None;
        'if(L2)',
        'STORE L2->next=L1',                                    #     tl = Some y: set_next y (Some x)
        'else',                                                 #     tl = None: h' := Some x
        'if(P1)',                                               # callback (0 for the barrier: not taken)
        'CALL P1(P2)',
        'for(L0=0;L0<P3;L0++)',                                 # WPush n i cur, i = 0 .. n-1
        'LET L3=L1->next',                                      #   nx := get_next s x
        'HOOK(0,"wakemanys.push",P0,L1)',                       #   WPush (lval = x):
        'CALL myth_queue_push(&L4->runnable_q,L1)',             #     wake s x
        'return P3',                                            # Done SERIAL (by the caller)
    ]),
    # ------------------------------------------------------------------------------------------------
    # mutex  (SyncModel.v: tick LockRead/LockCas1/LockCas2, TryRead/TryCas/TryBusy, ustep; A.4)
    # ------------------------------------------------------------------------------------------------
    "myth_verif_point_e_": (SYNC, [                              # the POINT in expression position (mutex.try.cas)
        'do',
        'if(L0)',
        'CALL L0((0),(P0),(constvoid*)(P1),(long)(P2))',        # kind 0 = POINT
        'while(0)',
        'return 1',
    ]),
    "myth_mutex_init_body": (SYNC, [
        'CALL myth_sleep_queue_init(P0->sleep_q)',              # init_state: mq := []
        'READ P0->sleep_q',
        'STORE P0->state=0',                                    # init_state: mword := 0
        'if(P1)',
        'else',
        'CALL myth_mutexattr_init_body(&P0->attr)',
        'return 0',
    ]),
    "myth_mutex_destroy_body": (SYNC, [                          # [no model step] destruction is outside the model
        'CALL myth_sleep_queue_destroy(P0->sleep_q)',
        'READ P0->sleep_q',
        'return 0',
    ]),
    "myth_mutex_trylock_body": (SYNC, [
        'while(1)',                                             # TryCas failing -> TryRead
        'HOOK(0,"mutex.try.read",P0,0)',                        # TryRead timed / TryBusy:
        'LET L0=P0->state',                                     #   w := mword s
        'if(L0&1)',
        'return 16',                                            #   odd: Done EBUSY (timed: TryBusy)
        'else',
        'if(myth_verif_point_e_("mutex.try.cas",P0,L0)&&__sync_bool_compare_and_swap(&P0->state,L0,L0+1))',
        'CALL myth_verif_point_e_("mutex.try.cas",P0,L0)',      #   even: TryCas timed w (lval = w):
        'CALL __sync_bool_compare_and_swap(&P0->state,L0,L0+1)',    # if mword s = w then mword := w + 1, own := true
        'ADDR P0->state',
        'return 0',                                             #     Done 0
        'else',
        'continue',                                             #     else TryRead timed
    ]),
    "myth_mutex_lock_body": (SYNC, [
        'while(1)',                                             # every failure / wake-up returns to LockRead k
        'HOOK(0,"mutex.lock.read",P0,0)',                       # LockRead k:
        'LET L0=P0->state',                                     #   lock_read: w := mword s
        'if((L0&1)==0)',                                        #   even -> LockCas1 k w
        'HOOK(0,"mutex.lock.cas1",P0,L0)',                      # LockCas1 k w (lval = w):
        'if(__sync_bool_compare_and_swap(&P0->state,L0,L0+1))',     # if mword s = w then mword := w + 1, own := true,
        'CALL __sync_bool_compare_and_swap(&P0->state,L0,L0+1)',
        'ADDR P0->state',
        'break',                                                #     acquired k     (the ONLY exit of the loop)
        'else',                                                 #   else LockRead k
        'else',                                                 #   odd -> LockCas2 k w
        'HOOK(0,"mutex.lock.cas2",P0,L0)',                      # LockCas2 k w (lval = w):
        'if(__sync_bool_compare_and_swap(&P0->state,L0,L0+2))',     # if mword s = w then mword := w + 2,
        'CALL __sync_bool_compare_and_swap(&P0->state,L0,L0+2)',
        'ADDR P0->state',
        'CALL myth_block_on_queue(P0->sleep_q,0)',              #     Susp k + CbEnq QM false;   else LockRead k
        'READ P0->sleep_q',
        'return 0',                                             # acquired ALRet = Done 0
    ]),
    "myth_mutex_timedlock_body": (SYNC, [
        'if(myth_mutex_trylock_body(P0)==0)',                   # TryRead true ... TryCas true
        'CALL myth_mutex_trylock_body(P0)',
        'return 0',                                             #   Done 0
        'else',                                                 #   odd: TryBusy
        'while(1)',                                             # TryBusy: exits = ETIMEDOUT or a successful trylock
        'CALL hr_gettime(L0)',                                  #   time is not modelled: ret_ok accepts ETIMEDOUT in TryBusy
        'if(myth_timespec_gt(L0,P1))',                          #   at any moment (the deadline arithmetic is C20's)
        'CALL myth_timespec_gt(L0,P1)',
        'return 110',                                           #   ret_ok TryBusy v = ETIMEDOUT
        'if(myth_mutex_trylock_body(P0)==0)',                   #   TryBusy: even -> TryCas true w -> Done 0 / TryRead true
        'CALL myth_mutex_trylock_body(P0)',
        'return 0',
        'else',
        'CALL myth_yield_ex_body(myth_yield_option_local_first)',   # odd -> TryBusy again, after a yield (Machine model)
    ]),
    "myth_mutex_clear_lock_bit": (SYNC, [
        'READ L0->state',                                       # [no model step] assert(mutex->state & 1), before the POINT
        'HOOK(0,"mutex.clearbit",L0,0)',                        # UClear nf x:
        'CALL __sync_fetch_and_sub(&L0->state,1)',              #   mword := mword - 1; clear_own
        'ADDR L0->state',
        'return 0',
    ]),
    "myth_mutex_unlock_body": (SYNC, [
        'while(1)',                                             # a failed CAS returns to URead (nf + 1)
        'HOOK(0,"mutex.unlock.read",P0,0)',                     # URead nf:
        'LET L0=P0->state',                                     #   w := mword s
        'if(!(L0&1))',                                          #   even: None (unlock of an unlocked mutex:
        'CALL fprintf(stderr,"myth_mutex_unlock : called on unlocked mutex, abort.\\n")',
        'CALL exit(1)',                                         #     exit(1); excluded by the usage contract)
        'if(L0>1)',                                             #   w > 1 -> UCas2 nf w
        'HOOK(0,"mutex.unlock.cas2",P0,L0)',                    # UCas2 nf w (lval = w):
        'if(__sync_bool_compare_and_swap(&P0->state,L0,L0-2))',     # if mword s = w then mword := w - 2 (bit stays set),
        'CALL __sync_bool_compare_and_swap(&P0->state,L0,L0-2)',
        'ADDR P0->state',
        'CALL myth_wake_one_from_queue(P0->sleep_q,myth_mutex_clear_lock_bit,P0)',   # UDeq, UClear, UPush on QM
        'READ P0->sleep_q',
        'break',                                                #     UFin
        'else',                                                 #   else URead (nf + 1)
        'else',                                                 #   w = 1 -> UCas1 nf w
        'HOOK(0,"mutex.unlock.cas1",P0,L0)',                    # UCas1 nf w (lval = w):
        'if(__sync_bool_compare_and_swap(&P0->state,1,0))',     #   if mword s = 1 then mword := 0, clear_own,
        'CALL __sync_bool_compare_and_swap(&P0->state,1,0)',
        'ADDR P0->state',
        'break',                                                #     UFin
        'else',                                                 #   else URead (nf + 1)
        'return 0',                                             # Done 0 (nf is diagnostic only)
    ]),
    "myth_mutex_init": (SYNC, fwd("myth_mutex_init_body", 2)),
    "myth_mutex_destroy": (SYNC, fwd("myth_mutex_destroy_body", 1)),
    "myth_mutex_trylock": (SYNC, fwd("myth_mutex_trylock_body", 1)),         # call TryLock
    "myth_mutex_lock": (SYNC, fwd("myth_mutex_lock_body", 1)),               # call Lock
    "myth_mutex_timedlock": (SYNC, fwd("myth_mutex_timedlock_body", 2)),     # call TimedLock
    "myth_mutex_unlock": (SYNC, fwd("myth_mutex_unlock_body", 1)),           # call Unlock
    # ------------------------------------------------------------------------------------------------
    # condition variable  (SyncModel.v: call CondWait / Signal / Broadcast; A.5)
    # ------------------------------------------------------------------------------------------------
    "myth_cond_init_body": (SYNC, [
        'CALL myth_sleep_queue_init(P0->sleep_q)',              # init_state: cqs := repeat [] nconds
        'READ P0->sleep_q',
        'if(P1)',
        'else',
        'CALL myth_condattr_init_body(&P0->attr)',
        'return 0',
    ]),
    "myth_cond_destroy_body": (SYNC, [                           # [no model step] destruction is outside the model
        'CALL myth_sleep_queue_destroy(P0->sleep_q)',
        'READ P0->sleep_q',
        'return 0',
    ]),
    "myth_cond_broadcast_body": (SYNC, [
        'CALL myth_wake_all_from_queue(P0->sleep_q,0,0)',       # call Broadcast c: SigDeq c ASLoop (no callback); nothing before it
        'READ P0->sleep_q',
        'return 0',                                             # Done 0
    ]),
    "myth_cond_signal_body": (SYNC, [
        'CALL myth_wake_if_any_from_queue(P0->sleep_q,0,0)',    # call Signal c: SigDeq c ASRet (no callback); nothing before it
        'READ P0->sleep_q',
        'return 0',                                             # Done 0
    ]),
    "myth_cond_wait_body": (SYNC, [
        'CALL myth_block_on_queue(P0->sleep_q,P1)',             # call CondWait c: Susp ALRet + CbEnq (QC c) true (enqueue, THEN unlock,
        'READ P0->sleep_q',                                     #   both in the callback)
        'return myth_mutex_lock(P1)',                           # wake: LockRead ALRet ... Done 0
        'CALL myth_mutex_lock(P1)',
    ]),
    "myth_cond_init": (SYNC, fwd("myth_cond_init_body", 2)),
    "myth_cond_destroy": (SYNC, fwd("myth_cond_destroy_body", 1)),
    "myth_cond_signal": (SYNC, fwd("myth_cond_signal_body", 1)),
    "myth_cond_broadcast": (SYNC, fwd("myth_cond_broadcast_body", 1)),
    "myth_cond_wait": (SYNC, fwd("myth_cond_wait_body", 2)),
    # ------------------------------------------------------------------------------------------------
    # barrier  (BarrierModel.v: tick BRead / BCas / BReset, after_pops; A.6)
    # ------------------------------------------------------------------------------------------------
    "myth_barrier_init_body": (BARR, [
        'CALL myth_sleep_stack_init(P0->sleep_s)',              # init_state: top := None
        'READ P0->sleep_s',
        'STORE P0->state=0',                                    #   bstate := 0
        'STORE P0->n_threads=P2',                               #   nthr := n
        'if(P1)',
        'else',
        'CALL myth_barrierattr_init_body(&P0->attr)',
        'return 0',
    ]),
    "myth_barrier_destroy_body": (BARR, [                        # [no model step] destruction is outside the model
        'READ P0->state',                                       #   assert(barrier->state == 0)
        'CALL myth_sleep_stack_destroy(P0->sleep_s)',
        'READ P0->sleep_s',
        'return 0',
    ]),
    "myth_barrier_wait_body": (BARR, [
        'while(1)',                                             # BCas failing -> BRead
        'HOOK(0,"barrier.read",P0,0)',                          # BRead:
        'LET L0=P0->state',                                     #   c := bstate s
        'if(L0>=P0->n_threads)',                                #   c >= nthr -> Excess
        'READ P0->n_threads',
        'CALL fprintf(stderr,"myth_barrier_wait : excess threads (> %ld) enter barrier_wait\\n",P0->n_threads)',
        'READ P0->n_threads',
        'CALL exit(1)',
        'HOOK(0,"barrier.cas",P0,L0)',                          # BCas c (lval = c):
        'if(!__sync_bool_compare_and_swap(&P0->state,L0,L0+1))',    # if bstate s = c then bstate := c + 1 else BRead
        'CALL __sync_bool_compare_and_swap(&P0->state,L0,L0+1)',
        'ADDR P0->state',
        'continue',
        'if(L0==P0->n_threads-1)',                              #   c = nthr - 1 -> BReset c
        'READ P0->n_threads',
        'HOOK(0,"barrier.reset",P0,L0)',                        # BReset c (lval = c):
        'STORE P0->state=0',                                    #   bstate := 0, BEFORE the first pop
        'CALL myth_wake_many_from_stack(P0->sleep_s,0,0,L0)',   #   after_pops c 0 None None (exactly c sleepers, no callback)
        'READ P0->sleep_s',
        'return 1',                                             #   Done SERIAL
        'else',
        'CALL myth_block_on_stack(P0->sleep_s,0)',              #   otherwise {| main := Susp; cb := CbPushRead |}
        'READ P0->sleep_s',
        'return 0',                                             #   wake: Done 0
    ]),
    "myth_barrier_init": (BARR, fwd("myth_barrier_init_body", 3)),
    "myth_barrier_destroy": (BARR, fwd("myth_barrier_destroy_body", 1)),
    "myth_barrier_wait": (BARR, fwd("myth_barrier_wait_body", 1)),           # call Wait
    # ------------------------------------------------------------------------------------------------
    # join counter  (JcModel.v: calc_bits / jc_init, tick WRead / WCas / DRead / DCas; A.6)
    # ------------------------------------------------------------------------------------------------
    "calc_bits": (JC, [
        'while(P0>=(1L<<L0))',                                  # calc_bits_loop: if x >=? shl1 b then loop (b + 1)
        'return L0',                                            #   else Some b      (the assert repeats the exit condition)
    ]),
    "myth_join_counter_init_body": (JC, [
        'CALL calc_bits(P2)',                                   # jc_init: b := calc_bits n
        'CALL myth_sleep_queue_init(P0->sleep_q)',              # init_state: sq := []
        'READ P0->sleep_q',
        'STORE P0->n_threads=P2',                               #   f_n := n
        'STORE P0->n_threads_bits=L0',                          #   f_bits := b
        'STORE P0->state_mask=L1',                              #   f_mask := sub64 (shl1 b) 1     (assert(n & mask == n): None otherwise)
        'STORE P0->state=0',                                    #   f_state := 0
        'if(P1)',
        'else',
        'CALL myth_join_counterattr_init_body(&P0->attr)',
        'return 0',
    ]),
    "myth_join_counter_wait_body": (JC, [
        'while(1)',                                             # WCas failing / wake-up -> WRead
        'HOOK(0,"jc.wait.read",P0,0)',                          # WRead:
        'LET L0=P0->state',                                     #   w := word s
        'if((L0&P0->state_mask)==P0->n_threads)',               #   low_of s w = jn s ->
        'READ P0->state_mask',
        'READ P0->n_threads',
        'return 0',                                             #     Done Wait 0     (the ONLY exit)
        'LET L1=L0+(1L<<P0->n_threads_bits)',                   #   new_s := add64 w (shl1 (jbits s))
        'HOOK(0,"jc.wait.cas",P0,L0)',                          # WCas s0 (lval = s0):
        'if(!__sync_bool_compare_and_swap(&P0->state,L0,L1))',  #   if word s = s0 then word := new_s else WRead
        'CALL __sync_bool_compare_and_swap(&P0->state,L0,L1)',
        'ADDR P0->state',
        'continue',
        'CALL myth_block_on_queue(P0->sleep_q,0)',              #   {| main := Susp; cb := CbEnq; reg := true |}; wake: WRead
        'READ P0->sleep_q',
        'READ P0->state',                                       # [no model step] assert((jc->state & mask) == n_threads) after the
        'READ P0->state_mask',                                  #   wake-up: an access to the state word without a POINT; the model
        'READ P0->n_threads',                                   #   goes straight to WRead (the abort is not modelled)
    ]),
    "myth_join_counter_dec_body": (JC, [
        'while(1)',                                             # DCas failing -> DRead
        'HOOK(0,"jc.dec.read",P0,0)',                           # DRead:
        'LET L0=P0->state',                                     #   w := word s
        'LET L1=L0&P0->state_mask',                             #   n_decs := low_of s w
        'if(L1>=P0->n_threads)',                                #   n_decs >= jn s -> Excess
        'READ P0->n_threads',
        'CALL fprintf(stderr,"myth_join_counter_dec : excess threads (> %ld) enter join_counter_dec\\n",P0->n_threads)',
        'READ P0->n_threads',
        'CALL exit(1)',
        'READ P0->state_mask',                                  # [no model step] assert(((s + 1) & mask) == n_decs + 1) (the abort is not modelled)
        'HOOK(0,"jc.dec.cas",P0,L0)',                           # DCas s0 (lval = s0):
        'if(!__sync_bool_compare_and_swap(&P0->state,L0,L0+1))',    # if word s = s0 then word := add64 s0 1; g_dec else DRead
        'CALL __sync_bool_compare_and_swap(&P0->state,L0,L0+1)',
        'ADDR P0->state',
        'continue',
        'if(L1==P0->n_threads-1)',                              #   low_of s s0 = jn s - 1 (the N-th decrement): g_final,
        'READ P0->n_threads',
        'LET L2=(L0>>P0->n_threads_bits)',                      #     n := high_of s s0
        'CALL myth_wake_many_from_queue(P0->sleep_q,0,0,L2)',   #     KDeq n 0 [] (0 <? n) / Done Dec 0; exactly n sleepers, no callback
        'READ P0->sleep_q',
        'break',
        'return 0',                                             # Done Dec 0
    ]),
    "myth_join_counter_init": (JC, fwd("myth_join_counter_init_body", 3)),
    "myth_join_counter_wait": (JC, fwd("myth_join_counter_wait_body", 1)),   # call Wait
    "myth_join_counter_dec": (JC, fwd("myth_join_counter_dec_body", 1)),     # call Dec
    # ------------------------------------------------------------------------------------------------
    # full/empty lock  (SyncModel.v: call FeWL / FeMS / Lock / Unlock, tick FeRead / FeWrite; A.5)
    # ------------------------------------------------------------------------------------------------
    "myth_felock_init_body": (SYNC, [
        'CALL myth_mutex_init_body(P0->mutex,0)',               # init_state: mword := 0, mq := []
        'READ P0->mutex',
        'CALL myth_cond_init_body(&P0->cond[0],0)',             #   cqs := [[]; []]
        'ADDR P0->cond',
        'CALL myth_cond_init_body(&P0->cond[1],0)',
        'ADDR P0->cond',
        'STORE P0->status=0',                                   #   festat := 0
        'if(P1)',
        'else',
        'CALL myth_felockattr_init(&P0->attr)',
        'return 0',
    ]),
    "myth_felock_destroy_body": (SYNC, [                         # [no model step] destruction is outside the model
        'CALL myth_mutex_destroy_body(P0->mutex)',
        'READ P0->mutex',
        'CALL myth_cond_destroy_body(&P0->cond[0])',
        'ADDR P0->cond',
        'CALL myth_cond_destroy_body(&P0->cond[1])',
        'ADDR P0->cond',
        'return 0',
    ]),
    "myth_felock_lock_body": (SYNC, [
        'return myth_mutex_lock_body(P0->mutex)',               # call Lock on the felock's mutex
        'CALL myth_mutex_lock_body(P0->mutex)',
        'READ P0->mutex',
    ]),
    "myth_felock_unlock_body": (SYNC, [
        'return myth_mutex_unlock_body(P0->mutex)',             # call Unlock on the felock's mutex
        'CALL myth_mutex_unlock_body(P0->mutex)',
        'READ P0->mutex',
    ]),
    "myth_felock_wait_and_lock_body": (SYNC, [
        'CALL myth_mutex_lock_body(P0->mutex)',                 # call FeWL st: LockRead (ALFe st) ... acquired (ALFe st) = FeRead st
        'READ P0->mutex',
        'HOOK(0,"fe.status.read",P0,P1)',                       # FeRead st (lval = st):
        'while(P0->status!=P1)',                                #   festat s = st -> Done 0       (the ONLY exit, mutex held)
        'READ P0->status',
        'CALL myth_cond_wait(&P0->cond[P1],P0->mutex)',         #   else Susp (ALFe st) + CbEnq (QC st) true; wake: LockRead (ALFe st)
        'ADDR P0->cond',
        'READ P0->mutex',
        'HOOK(0,"fe.status.read",P0,P1)',                       #   ... FeRead st again
        'return 0',
    ]),
    "myth_felock_mark_and_signal_body": (SYNC, [
        'HOOK(0,"fe.status.write",P0,P1)',                      # call FeMS st (holder only): FeWrite st (lval = st):
        'STORE P0->status=P1',                                  #   festat := st
        'CALL myth_cond_signal(&P0->cond[P1])',                 #   SigDeq st ASUnlock [/ SigPush]
        'ADDR P0->cond',
        'return myth_mutex_unlock_body(P0->mutex)',             #   Unl (URead 0) ... Done 0
        'CALL myth_mutex_unlock_body(P0->mutex)',
        'READ P0->mutex',
    ]),
    "myth_felock_status_body": (SYNC, [                          # [no model step] the model has no status operation:
        'return P0->status',                                    #   an unlocked read of the status word without a POINT
        'READ P0->status',
    ]),
    "myth_felock_init": (SYNC, fwd("myth_felock_init_body", 2)),
    "myth_felock_destroy": (SYNC, fwd("myth_felock_destroy_body", 1)),
    "myth_felock_lock": (SYNC, fwd("myth_felock_lock_body", 1)),
    "myth_felock_unlock": (SYNC, fwd("myth_felock_unlock_body", 1)),
    "myth_felock_wait_and_lock": (SYNC, fwd("myth_felock_wait_and_lock_body", 2)),
    "myth_felock_mark_and_signal": (SYNC, fwd("myth_felock_mark_and_signal_body", 2)),
    "myth_felock_status": (SYNC, fwd("myth_felock_status_body", 1)),
}

# atoms (or whole functions) of the current source that no model step corresponds to
UNMODELLED = [
    "myth_join_counter_wait_body: assert((jc->state & jc->state_mask) == jc->n_threads) after the wake-up reads the state word "
    "without a POINT; JcModel.v resumes at WRead and has no abort outcome",
    "myth_join_counter_dec_body: assert(((s + 1) & jc->state_mask) == n_decs + 1) (reads state_mask); no abort outcome in JcModel.v",
    "myth_mutex_clear_lock_bit: assert(mutex->state & 1) reads the state word before the mutex.clearbit POINT; ustep UClear does not test the bit",
    "myth_felock_status_body: unlocked read of fe->status, no POINT; SyncModel.v has no status operation (lib_interp has no op for it)",
    "myth_wake_one_from_queue: empty_loop(100) between two dequeue attempts (pure delay; the model's UDeq retries at once)",
    "myth_mutex_timedlock_body: hr_gettime / myth_timespec_gt / myth_yield_ex_body are no steps; the model lets TryBusy return ETIMEDOUT at any time",
    "*_destroy_body, myth_sleep_queue_destroy, myth_sleep_stack_destroy (with their asserts on head / tail / top / state): object "
    "destruction is outside every model",
    "myth_spin_trylock_body as an operation of its own (SCallTry) has no step in SpinModel.v; only lock / unlock are modelled",
    "myth_block_on_stack_cb: `if (m) myth_mutex_unlock_body(m)` - BarrierModel.v has no mutex (every caller passes 0)",
    "the fences myth_rwbarrier() in spin trylock / unlock (the models are sequentially consistent)",
]

# ---------------------------------------------------------------------------------------------------------
# which functions belong to the check of which property
# ---------------------------------------------------------------------------------------------------------
G_SPIN = ["myth_spin_init_body", "myth_spin_lock_body", "myth_compare_and_set_int", "myth_spin_trylock_body", "myth_spin_unlock_body"]
G_QUEUE = ["myth_sleep_queue_init", "myth_sleep_queue_destroy", "myth_sleep_queue_enq", "myth_sleep_queue_deq",
           "myth_sleep_queue_enq_th", "myth_sleep_queue_deq_th"] + G_SPIN
G_STACK = ["myth_sleep_stack_init", "myth_sleep_stack_destroy", "myth_sleep_stack_push", "myth_sleep_stack_pop",
           "myth_sleep_stack_push_th", "myth_sleep_stack_pop_th"]
G_BLOCKQ = ["myth_block_on_queue_cb", "myth_block_on_queue"]
G_MUTEX = ["myth_verif_point_e_", "myth_mutex_init_body", "myth_mutex_destroy_body", "myth_mutex_trylock_body", "myth_mutex_lock_body",
           "myth_mutex_timedlock_body", "myth_mutex_clear_lock_bit", "myth_mutex_unlock_body", "myth_mutex_init", "myth_mutex_destroy",
           "myth_mutex_trylock", "myth_mutex_lock", "myth_mutex_timedlock", "myth_mutex_unlock",
           "empty_loop", "myth_wake_one_from_queue"] + G_BLOCKQ + G_QUEUE
G_COND = ["myth_cond_init_body", "myth_cond_destroy_body", "myth_cond_broadcast_body", "myth_cond_signal_body", "myth_cond_wait_body",
          "myth_cond_init", "myth_cond_destroy", "myth_cond_signal", "myth_cond_broadcast", "myth_cond_wait",
          "myth_wake_if_any_from_queue", "myth_wake_all_from_queue"]
G_BARRIER = ["myth_barrier_init_body", "myth_barrier_destroy_body", "myth_barrier_wait_body", "myth_barrier_init", "myth_barrier_destroy",
             "myth_barrier_wait", "myth_block_on_stack_cb", "myth_block_on_stack", "myth_wake_many_from_stack"] + G_STACK
G_JC = ["calc_bits", "myth_join_counter_init_body", "myth_join_counter_wait_body", "myth_join_counter_dec_body", "myth_join_counter_init",
        "myth_join_counter_wait", "myth_join_counter_dec", "myth_wake_many_from_queue"] + G_BLOCKQ + G_QUEUE
G_FELOCK = ["myth_felock_init_body", "myth_felock_destroy_body", "myth_felock_lock_body", "myth_felock_unlock_body",
            "myth_felock_wait_and_lock_body", "myth_felock_mark_and_signal_body", "myth_felock_status_body", "myth_felock_init",
            "myth_felock_destroy", "myth_felock_lock", "myth_felock_unlock", "myth_felock_wait_and_lock", "myth_felock_mark_and_signal",
            "myth_felock_status"]
GROUPS = {
    "C04": G_MUTEX,
    "C05": G_COND + G_MUTEX,          # cond_wait unlocks (callback) and re-locks the mutex
    "C06": G_BARRIER,
    "C07": G_JC,
    "C09": G_FELOCK + G_COND + G_MUTEX,
}


def functions_of(prop=None):
    fns = GROUPS.get(prop) if prop else None
    if fns is None:
        fns = list(TABLE)
    seen, out = set(), []
    for f in fns:
        if f not in seen:
            seen.add(f)
            out.append(f)
    return out


# ---------------------------------------------------------------------------------------------------------
# extraction
# ---------------------------------------------------------------------------------------------------------

def collapse_asserts(body):
    """glibc's assert(e) expands to ((void) sizeof ((e) ? 1 : 0), __extension__ ({ if (e) ; else __assert_fail ("e", file,
    line, func); })): reduce it to ASSERT(e) (file name and line number must not reach the atoms; the reads of object
    words in e do)"""
    out, i = [], 0
    for m in re.finditer(r"\(\s*\(\s*void\s*\)\s*sizeof\s*\(", body):
        if m.start() < i:
            continue
        j = base._match_paren(body, m.start())
        a = body[m.start():j]
        c = re.search(r"__extension__\s*\(\s*\{\s*if\s*\(", a)
        if not c or "__assert_fail" not in a:
            continue
        ce = base._match_paren(a, c.end() - 1)
        out.append(body[i:m.start()])
        out.append("ASSERT(%s)" % a[c.end():ce - 1])
        i = j
    out.append(body[i:])
    return "".join(out)


def atoms_of(txt, fn):
    """atoms [(canonical, readable)] of function fn in the preprocessed text, or None if it has no definition there"""
    f = base.func(txt, fn)
    if f is None:
        return None
    return base.atoms(f[0], collapse_asserts(f[1]), words=WORDS, globals_=GLOBALS, ignore_calls=IGNORE_CALLS,
                      keywords=EXTRA_KEYWORDS, renumber=True, let=True)


def check(prop=None, fns=None, txt=None):
    """compare the current source (vlib.REPO) with TABLE; one result per function:
    {function, model, atoms, ok, missing, unexpected, message}"""
    if txt is None:
        txt = base.preprocess(UNIT)
    res = []
    for fn in (fns if fns is not None else functions_of(prop)):
        model, want = TABLE[fn]
        r = {"function": fn, "model": model, "atoms": len(want), "ok": True, "missing": [], "unexpected": [], "message": ""}
        got = atoms_of(txt, fn)
        if got is None:
            r.update(ok=False, missing=list(want), message="%s: definition not found in the preprocessed src/%s" % (fn, UNIT))
            res.append(r)
            continue
        gc = [a for a, _ in got]
        if gc != want:
            for op, a0, a1, b0, b1 in difflib.SequenceMatcher(None, want, gc, autojunk=False).get_opcodes():
                if op in ("delete", "replace"):
                    r["missing"] += want[a0:a1]
                if op in ("insert", "replace"):
                    r["unexpected"] += [got[j][1] for j in range(b0, b1)]
            parts = []
            if r["missing"]:
                parts.append("missing " + ", ".join("`%s`" % w for w in r["missing"][:5]) + (" ..." if len(r["missing"]) > 5 else ""))
            if r["unexpected"]:
                parts.append("unexpected " + ", ".join("`%s`" % w for w in r["unexpected"][:5]) + (" ..." if len(r["unexpected"]) > 5 else ""))
            r.update(ok=False, message="%s: %s" % (fn, "; ".join(parts)))
        res.append(r)
    return res


def attach(ctx, n=0):
    """run inside the check of C04 / C05 / C06 / C07 / C09 (tools/check.py ATTACH): one obligation per function"""
    t0 = time.time()
    res = check(ctx.prop)
    bad = [r for r in res if not r["ok"]]
    ctx.cov["obligations"] += len(res)
    ctx.cov["discharged"] += len(res) - len(bad)
    ctx.cov.setdefault("correspondence", {})["source_steps"] = {
        "unit": "src/" + UNIT, "functions": len(res), "atoms": sum(r["atoms"] for r in res),
        "atoms_per_function": {r["function"]: r["atoms"] for r in res},
        "models": sorted({r["model"] for r in res}),
        "mismatching_functions": [r["function"] for r in bad],
        "mismatches": [{"function": r["function"], "model": r["model"], "missing": r["missing"], "unexpected": r["unexpected"]} for r in bad],
        "accepted_without_model_counterpart": UNMODELLED,
        "wall_s": round(time.time() - t0, 2)}
    ctx.cov["trusted_base"] += [
        "source step tables of the sync primitives: tools/props/sync_steps.py (TABLE = the models' step tables written as atoms, by hand, "
        "each group of atoms annotated with its model step) and the atom extractor of tools/props/c08c14_steps.py (gcc -E of src/%s "
        "with the library's flags and -DMYTH_VERIF; regular-expression tokeniser, not a C parser; statements that are no atoms - "
        "assignments between locals, `x->env = env`, counters - are not compared)" % UNIT]
    if not bad:
        return
    ctx.cov["samples"].append({"source_steps_mismatch": bad[0]["message"]})
    if [v for v in ctx.violations if v["found"]]:
        return                  # the property's own runs produced a concrete failing input: that one is the report
    what = " | ".join(r["message"] for r in bad)
    ctx.violation("source-steps", what, {
        "theorem_or_correspondence": "; ".join("source step table %s (tools/props/sync_steps.py) <-> %s" % (r["function"], r["model"])
                                               for r in bad[:6]),
        "mismatches": [{"function": r["function"], "model": r["model"], "missing": r["missing"], "unexpected": r["unexpected"]} for r in bad],
        "expected": "the atoms listed in sync_steps.TABLE for each function, in this order, and no other protocol-relevant statement",
        "note": "the property's own controlled runs found no failing input (they run before this obligation)"}, found=False)


def dump(fns=None):
    txt = base.preprocess(UNIT)
    for fn in (fns or functions_of()):
        got = atoms_of(txt, fn)
        print("    %r: (MODEL, [" % fn)
        for c, r in (got or []):
            print("        %r," % c)
        print("    ]),")


def main(argv):
    if len(argv) >= 2 and argv[1] == "dump":
        dump(argv[2:])
        return 0
    if len(argv) >= 2 and argv[1] == "check":
        res = check(argv[2] if len(argv) > 2 else None)
        for r in res:
            if not r["ok"]:
                print("MISMATCH " + r["message"])
        print("%d functions, %d atoms, %d mismatching" % (len(res), sum(r["atoms"] for r in res), sum(1 for r in res if not r["ok"])))
        return 1 if any(not r["ok"] for r in res) else 0
    print(__doc__)
    return 2


if __name__ == "__main__":
    sys.exit(main(sys.argv))
