"""C17 - bulk fork-join helpers equal the sequential loop (DESIGN.md section 4, C17).

prove -> build (hooks-on library, C harness, C++ harness, extracted model) -> generate cases from ctx.rng
(corpus and systematic boundary cases first) -> run implementation (every case in a forked child, 1..4
workers) and model -> diff -> independent oracle = the sequential loop, evaluated in Python on the
implementation's output -> report."""
import os, json, subprocess, collections
import vlib

VF = ["Bulk/RangeLib.v", "Bulk/VariousModel.v", "Bulk/VariousProofs.v", "Bulk/TaskGroupModel.v",
      "Bulk/TaskGroupProofs.v", "Bulk/ParForModel.v", "Bulk/ParForProofs.v"]
MODEL_VF = ["Bulk/VariousModel.v", "Bulk/TaskGroupModel.v", "Bulk/ParForModel.v"]
NFUN, MANY_FID = 16, 3
BITS = {"i": 32, "l": 64}


# ----------------------------------------------------------------------------------------------
# build / run
# ----------------------------------------------------------------------------------------------

def build(ctx):
    lib = vlib.build_lib()
    flags = vlib.lib_cflags() + ["-O0", "-g"]
    libs = [lib, "-lpthread", "-ldl", "-lrt"]
    bulk = vlib.cc(os.path.join(ctx.dir, "c17_bulk"), [os.path.join(vlib.VERIF, "harness", "c17_bulk.c")],
                   flags=flags, libs=libs)
    mtbb = vlib.cc(os.path.join(ctx.dir, "c17_mtbb"), [os.path.join(vlib.VERIF, "harness", "c17_mtbb.cc")],
                   flags=flags, libs=libs, cxx=True)
    drv = vlib.build_driver("C17", "Extract_C17.v", "driver_C17.ml", MODEL_VF)
    return {"bulk": bulk, "mtbb": mtbb, "drv": drv}


def run_exe(exe, cases, timeout):
    """one case per line in, one line per case out (stderr dropped: assertion messages of the library)"""
    try:
        p = subprocess.run([exe], input="\n".join(cases) + "\n", stdout=subprocess.PIPE,
                           stderr=subprocess.DEVNULL, text=True, errors="replace", timeout=timeout)
        out, rc = p.stdout, p.returncode
    except subprocess.TimeoutExpired as e:
        out = e.stdout or ""
        if isinstance(out, bytes):
            out = out.decode("utf-8", "replace")
        rc = 124
    lines = out.split("\n")
    if lines and lines[-1] == "":
        lines.pop()
    return lines, rc


def run_impl(exes, cases):
    """route every case to its harness, in batches; stop sending cases once several children hung
    (each hang costs the child timeout); returns the output line of every case"""
    res = [None] * len(cases)
    hung = abnormal = 0
    for kind, exe in (("bulk", exes["bulk"]), ("mtbb", exes["mtbb"])):
        idx = [i for i, c in enumerate(cases) if (c.split()[0] in ("bulk", "bulkbig")) == (kind == "bulk")]
        for k in range(0, len(idx), 30):
            part = idx[k:k + 30]
            if hung >= 2 or abnormal >= 12:
                for i in part:
                    res[i] = "skipped"
                continue
            nbig = sum(1 for i in part if cases[i].split()[0] in ("bulkbig", "pfbig"))
            lines, rc = run_exe(exe, [cases[i] for i in part], timeout=60 + 25 * 3 + len(part) + 95 * nbig)
            for j, i in enumerate(part):
                res[i] = lines[j] if j < len(lines) else "outcome=harness-died"
            # every abnormal outcome is slow (unbounded recursion runs until the watchdog or an
            # assertion stops it): a handful of them is enough evidence
            hung += sum(1 for l in lines if l.startswith("outcome=timeout"))
            abnormal += sum(1 for l in lines if l.startswith("outcome="))
    return res


def run_model(exes, cases):
    lines, rc = run_exe(exes["drv"], cases, timeout=600)
    return [lines[i] if i < len(lines) else "<no output>" for i in range(len(cases))]


def info(exes):
    l1, _ = run_exe(exes["bulk"], ["info"], 30)
    l2, _ = run_exe(exes["mtbb"], ["info"], 30)
    d = {}
    for l in l1 + l2:
        for t in l.split()[1:]:
            k, v = t.split("=")
            d[k] = v
    return {"attr_size": int(d["attr_size"]), "cap": int(d["cap"]), "csz": int(d["csz"]),
            "default_child_first": int(d["default_child_first"]),
            "sizes": [int(x) for x in d["sizes"].split(",")], "nfun": int(d["nfun"]), "many_fid": int(d["many_fid"])}


# ----------------------------------------------------------------------------------------------
# case generation (everything from ctx.rng)
# ----------------------------------------------------------------------------------------------

WORKERS = [1, 2, 3, 4, 8]
N_BOUNDARY = [0, 1, 2, 3, 4, 5, 6, 7, 8, 9, 15, 16, 17, 31, 32, 33, 63, 64, 65, 100, 127, 128, 129, 255, 256, 257, 300]


def bulk_case(r, inf, n, kind=None, flags=None, canonical=False, cf=None, sk=None):
    A = inf["attr_size"]
    kind = kind or r.choice(["many", "various"])
    W = r.choice(WORKERS)
    if canonical:
        fs, as_, rs, is_, ts = 8, 8, 8, 8, A
    else:
        fs = r.choice([0, 8, 8, 16, 24])
        as_ = r.choice([0, 1, 3, 8, 8, 24, 40])
        rs = r.choice([8, 8, 16, 24, 40])
        is_ = r.choice([0, 8, 8, 16, 24])
        ts = r.choice([0, A, A, A + 8, 2 * A])
        same_values = as_ == 0 and (fs == 0 or kind == "many")
        if (n <= 1 or same_values) and r.chance(1, 3):
            rs = 0
    if kind == "many":
        fs = 0
    hr, hi, ht = flags if flags is not None else (r.below(4) != 0, r.below(4) != 0, r.below(3) != 0)
    # per-item attributes: child_first pattern (0 all help-first, 1 all child-first, 2/3 alternating,
    # 4 pseudo-random, 5 library default) and stack size pattern (0 128 KiB, 1 random 16..256 KiB,
    # 2 library default path, 3 mix)
    if cf is None:
        cf = r.choice([0, 0, 1, 2, 3, 4, 4, 5])
    if sk is None:
        sk = r.choice([0, 1, 1, 2, 3, 3])
    # wk = 1: the bodies yield 0-3 times, spin and use their stack (3 of 4 cases)
    return "bulk %d %s %d %d %d %d %d %d %d %d %d %d %d %d %d" % (W, kind, n, fs, as_, rs, is_, ts, int(hr), int(hi), int(ht),
                                                              cf, sk, r.below(1 << 20), int(r.below(4) != 0))


def gen_bulk(ctx, inf, nrand, nmax):
    r = ctx.rng
    cases = []
    for n in N_BOUNDARY:
        for kind in ("many", "various"):
            cases.append(bulk_case(r, inf, n, kind, (1, 1, 1), canonical=True, cf=5, sk=0))
            cases.append(bulk_case(r, inf, n, kind, (1, 1, 1), canonical=True, cf=0, sk=r.choice([0, 1, 2, 3])))
            cases.append(bulk_case(r, inf, n, kind))
    # every child_first x stack pattern on small and odd sizes, attrs given, random strides
    for cf in range(6):
        for sk in range(4):
            for n in (2, 3, 5, 8, 13):
                cases.append(bulk_case(r, inf, n, flags=(r.below(4) != 0, r.below(4) != 0, 1), cf=cf, sk=sk))
    for n in (0, 1, 2, 3, 5, 8):
        for kind in ("many", "various"):
            for m in range(8):
                cases.append(bulk_case(r, inf, n, kind, (m & 1, (m >> 1) & 1, (m >> 2) & 1)))
    for _ in range(nrand):
        k = r.below(10)
        if k < 5:
            n = r.rng(0, 20)
        elif k < 8:
            p = 1 << r.rng(1, 8)
            n = max(0, p + r.rng(-1, 1))
        else:
            n = r.rng(0, nmax)
        cases.append(bulk_case(r, inf, n))
    return cases


def gen_big(ctx):
    """n = 50000 items that yield twice on ONE worker: tens of thousands of simultaneously suspended
    items (the run queue has to slide with more than a third of its slots in use)"""
    # scaled by the run-queue capacity of the tree under check (131072 at the pinned commit): no property promises one
    cap = vlib.run_queue_capacity()
    sc = (lambda n: n) if cap >= 131072 else (lambda n: max(64, min(n, cap // 4)))
    cases = ["bulkbig 1 many %d 2" % sc(50000), "pfbig 1 %d 2" % sc(50000)]
    if ctx.thorough:
        cases += ["bulkbig 1 various %d 2" % sc(50000), "bulkbig 2 many %d 1" % sc(60000), "pfbig 1 %d 2" % sc(70000), "pfbig 3 %d 3" % sc(50000)]
    return cases


def tg_case(r, inf, cycles):
    ops = []
    ncls = len(inf["sizes"])
    for k in cycles:
        mode = r.below(4)
        for _ in range(k):
            ops.append("r%d" % (0 if mode == 0 else r.below(ncls) if mode < 3 else r.choice([4, 5, 3])))
        ops.append("w")
    return "tg %d %d %d %s %s" % (r.choice(WORKERS), inf["cap"], inf["csz"], ",".join(map(str, inf["sizes"])), " ".join(ops))


def gen_tg(ctx, inf, nrand):
    r = ctx.rng
    cases = [tg_case(r, inf, [k]) for k in range(0, 41)]
    for _ in range(nrand):
        ncyc = r.rng(2, 5)
        cases.append(tg_case(r, inf, [r.choice([0, 1, 7, 8, 9, 16, 17, 25, 40, r.rng(0, 40)]) for _ in range(ncyc)]))
    return cases


def pf_case(r, form, ty, first, last, step, grain):
    return "pf %d %s %s %d %d %d %d %d" % (r.choice(WORKERS), form, ty, first, last, step, grain, int(r.below(4) != 0))


def gen_pf(ctx, nrand, nmax):
    r = ctx.rng
    cases = []
    for first in range(-2, 3):
        for last in range(-3, 6):
            cases.append(pf_case(r, "fl", r.choice("il"), first, last, 1, 0))
            for step in (1, 2, 3):
                cases.append(pf_case(r, "fls", r.choice("il"), first, last, step, 0))
    for a in (0, -3):
        for d in (-2, 0, 1, 2, 3, 7, 8, 9, 33):
            for g in (1, 2, 4, 1000):
                cases.append(pf_case(r, "rng", r.choice("il"), a, a + d, 1, g))
    for first in (0, -1, 3):
        for d in (-2, 0, 1, 2, 5, 9, 16, 17):
            for step in (1, 3):
                g = r.choice([1, 2, 3, 5, 100])
                cases.append(pf_case(r, "flsg", "i", first, first + d, step, g))
                cases.append(pf_case(r, "flsg", "i", first, first + d, step, 1))
                cases.append(pf_case(r, "flsg", "i", first, first + d, step, r.choice([0, 0, -1, -3])))
    for _ in range(nrand):
        ty = r.choice("il")
        form = r.choice(["fl", "fls", "fls", "flsg", "rng"])
        if form == "flsg":
            ty = "i"
        lo, hi = -(1 << (BITS[ty] - 1)), (1 << (BITS[ty] - 1)) - 1
        k = r.below(8)
        step = r.choice([1, 1, 2, 3, 7, r.rng(1, 50)]) if form in ("fls", "flsg") else 1
        cnt = r.choice([0, 1, 2, 3, r.rng(0, 40), r.rng(0, nmax)])
        span = cnt * step - (r.below(step) if cnt > 0 else 0)
        if k == 0:
            first = lo + r.rng(0, 3)
        elif k == 1:
            first = hi - span - r.rng(0, 3 * step)
        elif k == 2:
            first = r.rng(-5, 5) - span // 2
        else:
            first = r.rng(-1000, 1000)
        last = first + span
        if r.chance(1, 8):      # reversed
            first, last = last + r.rng(0, 3), first
        if r.chance(1, 12):     # far apart: last - first is not representable (outside the guard)
            first, last = r.choice([lo, -2]), r.choice([hi, hi - 1])
        elif form in ("fls", "flsg") and r.chance(1, 10):   # huge steps, a few iterations
            step = hi // r.rng(4, 9)
            first = lo + r.rng(0, 5)
            last = first + r.rng(0, 3) * step + r.rng(0, 2)
        first, last = max(lo, min(hi, first)), max(lo, min(hi, last))
        grain = r.choice([1, 1, 2, 3, 8, r.rng(1, 64), 1 << 20]) if form in ("flsg", "rng") else 0
        if form == "flsg" and r.chance(1, 4):      # grain sizes below one act as one
            grain = r.choice([0, 0, -1, -3, -(1 << 31), r.rng(-64, 0)])
        cases.append(pf_case(r, form, ty, first, last, step, grain))
    return cases


# ----------------------------------------------------------------------------------------------
# representability guard of the parallel_for front ends (same as pf3_guard / pf2_guard / pg_guard / pr_guard)
# ----------------------------------------------------------------------------------------------

def tquot(a, b):
    q = abs(a) // abs(b)
    return q if (a >= 0) == (b >= 0) else -q


def pf_guard(case):
    w = case.split()
    form, ty = w[2], w[3]
    first, last, step, grain = map(int, w[4:8])
    lo, hi = -(1 << (BITS[ty] - 1)), (1 << (BITS[ty] - 1)) - 1
    ok = lambda x: lo <= x <= hi
    if form == "fl":
        return ok(first) and ok(last) and ok(last - first)
    if form == "rng":
        return ok(first) and ok(last) and ok(grain) and grain >= 1 and ok(last - first)
    g = ok(first) and ok(last) and ok(step) and step >= 1 and ok(last - first) and ok(last - first + step) \
        and ok(last - first + step - 1)
    if form == "fls" or not g:
        return g
    n = tquot(last - first + step - 1, step)
    return ok(grain) and ok(n * step) and ok(first + n * step)      # every grain size, also <= 0


def pf_small(case):
    """the implementation is only run on ranges of at most 5000 iterations (the harness treats
    more than 20000 thread creations in one case as runaway recursion)"""
    w = case.split()
    first, last, step = int(w[4]), int(w[5]), int(w[6])
    return (last - first) // max(1, step if w[2] in ("fls", "flsg") else 1) <= 5000


# ----------------------------------------------------------------------------------------------
# oracle: the sequential loop
# ----------------------------------------------------------------------------------------------

def fields(out):
    d = {}
    for t in out.split():
        if "=" in t:
            k, v = t.split("=", 1)
            d[k] = v
    return d


def lst(s):
    return [x for x in s.split(",") if x != ""]


def slot_hash(seed, j):
    return (seed * 7919 + j * 104729 + ((j * j) % 1009) * 31) % 1000003


def attr_slot(cf, sk, seed, j, ts, dflt):
    """what the harness put into attribute slot j: (tag it will be reported as, child_first)"""
    zero = sk == 2 or (sk == 3 and slot_hash(seed, j) % 3 == 0)
    c = {0: 0, 1: 1, 2: j % 2, 3: (j + 1) % 2, 4: slot_hash(seed, j + 7) % 2}.get(cf, dflt)
    return (-2 if zero else j * ts), c


def halving(n):
    """the documented mechanism, restated: [a,b) with more than one item is split at (a+b)/2, the left
    half goes to a new thread, the right half stays; returns the forks and the thread owning each item"""
    forks, owner = [], {}
    todo = [(0, n, None)] if n > 0 else []
    while todo:
        a, b, t = todo.pop()
        if b - a == 1:
            owner[a] = t
        else:
            c = (a + b) // 2
            forks.append((a, c))
            todo.append((a, c, (a, c)))
            todo.append((c, b, t))
    return forks, owner


def oracle_big(case, out):
    w = case.split()
    n = int(w[3] if w[0] == "bulkbig" else w[2])
    if out.startswith("outcome="):
        return "the call over %d yielding items did not return normally: %s" % (n, out)
    if out == "skipped":
        return None
    d = fields(out)
    if int(d["once"]) != n or int(d["other"]) != 0:
        return "%d of %d items were not applied exactly once" % (n - int(d["once"]), n)
    if w[0] == "bulkbig":
        if d["ret"] != "0" or int(d["resok"]) != n:
            return "%d of %d result slots are wrong" % (n - int(d["resok"]), n)
        if d["created"] != d["reaped"]:
            return "returned with %s thread(s) created but %s joined" % (d["created"], d["reaped"])
    return None


def oracle_bulk(case, out, inf=None):
    w = case.split()
    kind, n = w[2], int(w[3])
    fs, as_, rs, is_, ts = map(int, w[4:9])
    hr, hi, ht = (x == "1" for x in w[9:12])
    cfp, skp, aseed = (int(w[12]), int(w[13]), int(w[14])) if len(w) >= 15 else (5, 0, 0)
    if out.startswith("outcome=") or out in ("skipped",):
        return None if out == "skipped" else "the call did not return normally: " + out
    d = fields(out)
    if d.get("ret") != "0":
        return "return value %s" % d.get("ret")
    fid = lambda i: MANY_FID if kind == "many" else (i % NFUN if fs else 0)
    exp = sorted((fid(i), i * as_) for i in range(n))
    inv4 = [tuple(map(int, x.split(":"))) for x in lst(d["inv"])]
    got = sorted((a, b) for a, b, _, _ in inv4)
    if got != exp:
        ce, cg = collections.Counter(exp), collections.Counter(got)
        miss = sorted((ce - cg).elements())[:5]
        extra = sorted((cg - ce).elements())[:5]
        return "applications differ from the sequential loop: missing (function, argument offset) %s, unexpected/duplicated %s" % (miss, extra)
    res = [tuple(map(int, x.split(":"))) for x in lst(d["res"])]
    if hr and n > 0:
        if rs >= 8:
            expres = sorted((i * rs, fid(i), i * as_) for i in range(n))
            if res != expres:
                bad = [x for x in res if x not in expres][:3] + [("missing",) + x for x in expres if x not in res][:3]
                return "result slots differ from ((void**)(results + i*stride))[0] = f_i(args + i*stride): %s" % (bad,)
        else:
            if len(res) != 1 or res[0][0] != 0 or (res[0][1], res[0][2]) not in exp:
                return "result slot (stride 0) holds %s" % (res,)
    elif res:
        return "results written although %s: %s" % ("n = 0" if hr else "results is NULL", res[:3])
    if int(d["resstray"]) != 0:
        return "%s byte(s) outside the result slots were modified" % d["resstray"]
    ids = [int(x) for x in lst(d["ids"])]
    if hi and n > 0:
        expid = sorted(set(i * is_ for i in range(n)))
        if ids != expid:
            return "id slots written %s..., expected %s..." % (ids[:6], expid[:6])
        if int(d["idmis"]) != 0:
            return "%s id slot(s) do not hold the id of the thread that ran the item" % d["idmis"]
    elif ids:
        return "ids written although %s" % ("n = 0" if hi else "ids is NULL")
    if int(d["idstray"]) != 0:
        return "%s byte(s) outside the id slots were modified" % d["idstray"]
    for k, what in (("argchg", "argument"), ("funchg", "function"), ("attrchg", "attribute")):
        if int(d[k]) != 0:
            return "the %s array was modified (%s bytes)" % (what, d[k])
    if d["created"] != d["reaped"]:
        return "returned with %s thread(s) created but %s joined" % (d["created"], d["reaped"])
    if n == 0 and d["created"] != "0":
        return "n = 0 created threads"
    if int(d.get("stkbad", "0")) != 0:
        return "%s application(s) did not run on the stack their thread was promised, or had their stack overwritten" % d["stkbad"]
    # per-item attributes: the thread created for the left half [a,c) gets attrs[a] (stack size seen
    # through the creation record and from inside the item, child-first or parent-first start)
    dflt = inf["default_child_first"] if inf else 1
    slot = lambda a: attr_slot(cfp, skp, aseed, a if ts else 0, ts, dflt) if ht else (-1, 1)
    forks, owner = halving(n)
    expcre = sorted(slot(a) for a, c in forks)
    gotcre = sorted(tuple(map(int, x.split(":"))) for x in lst(d["cre"]))
    if gotcre != expcre:
        ce, cg = collections.Counter(expcre), collections.Counter(gotcre)
        return ("creations (attribute slot offset, child_first) differ from 'the thread for [a,c) is created with attrs + a*stride': "
                "missing %s, unexpected %s" % (sorted((ce - cg).elements())[:4], sorted((cg - ce).elements())[:4]))
    expat = sorted((fid(i), i * as_, (slot(owner[i][0])[0] if owner[i] else -1)) for i in range(n))
    gotat = sorted((a, b, t) for a, b, _, t in inv4)
    if gotat != expat:
        ce, cg = collections.Counter(expat), collections.Counter(gotat)
        return ("items did not run in a thread created with the expected attribute (function, argument offset, attribute slot): "
                "missing %s, unexpected %s" % (sorted((ce - cg).elements())[:4], sorted((cg - ce).elements())[:4]))
    return None


def oracle_tg(case, out, inf):
    w = case.split()
    ops = w[5:]
    if out.startswith("outcome="):
        return "task_group program did not complete: " + out
    if out == "skipped":
        return None
    toks = out.split()
    if len(toks) != len(ops) + 1:
        return "unparsable output"
    k = 0
    for o, t in zip(ops, toks):
        f = t.split(":")
        if o == "w":
            if f[0] != "w":
                return "unparsable output"
            joined, done, created, overlap, nodes, mem = f[1:7]
            if int(done) != k:
                return "wait returned with %s of %d tasks completed exactly once" % (done, k)
            if int(joined) != k or int(created) != k:
                return "wait after %d run() calls joined %s thread(s) (%s created)" % (k, joined, created)
            if overlap != "0":
                return "two task objects of one cycle overlap in memory"
            if nodes != "0" or mem != "%d.0" % inf["csz"]:
                return "lists not reset after wait: nodes %s chunks %s" % (nodes, mem)
            k = 0
        else:
            if f[0] != "r" or int(f[1]) < 0 or int(f[2]) < 0:
                return "task object not inside any chunk of the allocator: " + t
            k += 1
    if toks[-1] != "end:0":
        return "some task body did not run exactly once (%s)" % toks[-1]
    return None


def oracle_pf(case, out):
    w = case.split()
    form, ty = w[2], w[3]
    first, last, step, grain = map(int, w[4:8])
    if out.startswith("outcome="):
        return "parallel_for did not return normally: " + out
    if out == "skipped":
        return None
    if " | " in out:
        out, stats = out.split(" | ", 1)
        if fields(stats).get("stkbad", "0") != "0":
            return "the stack pattern of %s body call(s) was overwritten" % fields(stats)["stkbad"]
    if form in ("fl", "rng"):
        step = 1
    exp = list(range(first, last, step))
    if form in ("fl", "fls"):
        if not out.startswith("calls="):
            return "unparsable output"
        got = [int(x) for x in lst(out[6:])]
        if got != exp:
            ce, cg = collections.Counter(exp), collections.Counter(got)
            return "body calls differ from the loop for (i = first; i < last; i += step): missing %s, unexpected/duplicated %s" % (
                sorted((ce - cg).elements())[:5], sorted((cg - ce).elements())[:5])
        return None
    if not out.startswith("leaves="):
        return "unparsable output"
    got = []
    for x in lst(out[7:]):
        lo, hi = map(int, x.split(":"))
        if (hi - lo) // step > 10 ** 6:
            return "leaf range %s is absurd" % x
        got += list(range(lo, hi, step))
    got.sort()
    if got != exp:
        ce, cg = collections.Counter(exp), collections.Counter(got)
        return "indices covered by the leaf ranges differ from the loop: missing %s, unexpected/duplicated %s" % (
            sorted((ce - cg).elements())[:5], sorted((cg - ce).elements())[:5])
    return None


def oracle(case, out, inf):
    try:
        k = case.split()[0]
        if k in ("bulkbig", "pfbig"):
            return oracle_big(case, out)
        if k == "bulk":
            return oracle_bulk(case, out, inf)
        if k == "tg":
            return oracle_tg(case, out, inf)
        return oracle_pf(case, out)
    except (IndexError, ValueError, KeyError) as e:
        return "unparsable output %r (%s)" % (out[:200], e)


# ----------------------------------------------------------------------------------------------
# the check
# ----------------------------------------------------------------------------------------------

def corpus_cases(inf):
    cp = os.path.join(vlib.VERIF, "corpus", "C17", "cases.txt")
    res = []
    if os.path.exists(cp):
        for l in open(cp):
            l = l.strip()
            if l and not l.startswith("#"):
                l = l.replace("@CAP", str(inf["cap"])).replace("@CSZ", str(inf["csz"]))
                l = l.replace("@SIZES", ",".join(map(str, inf["sizes"]))).replace("@A", str(inf["attr_size"]))
                res.append(l)
    return res


def evaluate(exes, cases, inf):
    """returns (impl lines, model lines, diffs, oracle failures, model-guard mismatches)"""
    in_guard = [c.split()[0] != "pf" or (pf_guard(c) and pf_small(c)) for c in cases]
    run_idx = [i for i, g in enumerate(in_guard) if g]
    impl_part = run_impl(exes, [cases[i] for i in run_idx])
    impl = ["not-run (outside the representability guard)"] * len(cases)
    for j, i in enumerate(run_idx):
        impl[i] = impl_part[j]
    midx = [i for i, c in enumerate(cases) if in_guard[i] or not pf_guard(c)]
    mpart = run_model(exes, [cases[i] for i in midx])
    model = ["not-run (too large)"] * len(cases)
    for j, i in enumerate(midx):
        model[i] = mpart[j]
    diffs, fails, guard_bad = [], [], []
    for i, c in enumerate(cases):
        if not in_guard[i]:
            if model[i] != "overflow" and not pf_guard(c):
                guard_bad.append((c, model[i]))
            continue
        if model[i] == "overflow":
            guard_bad.append((c, model[i]))
            continue
        if impl[i] == "skipped":
            continue
        msg = oracle(c, impl[i], inf)
        if msg:
            fails.append((c, impl[i], msg))
        if impl[i].split(" | ")[0] != model[i]:      # after " | ": schedule-dependent counters
            diffs.append((i, c, impl[i], model[i]))
    return impl, model, diffs, fails, guard_bad


def neighbours(ctx, inf, case):
    """boundary inputs around a disagreeing case"""
    w = case.split()
    res = []
    if w[0] == "bulk":
        n = int(w[3])
        for dn in (-2, -1, 0, 1, 2):
            for W in (1, 2, 4):
                for m in range(8):
                    if n + dn >= 0:
                        res.append(" ".join(["bulk", str(W), w[2], str(n + dn)] + w[4:9] + [str(m & 1), str((m >> 1) & 1), str((m >> 2) & 1)] + w[12:]))
    elif w[0] == "pf":
        first, last, step, grain = map(int, w[4:8])
        for df in (-1, 0, 1):
            for dl in (-2, -1, 0, 1, 2):
                for W in (1, 3):
                    c = "pf %d %s %s %d %d %d %d" % (W, w[2], w[3], first + df, last + dl, step, grain)
                    res.append(c)
    else:
        res += [tg_case(ctx.rng, inf, [k]) for k in range(0, 20)]
    return res


def run(ctx):
    broken, log = ctx.prove("Properties_C17.v", "Properties_C17")
    exes = build(ctx)
    inf = info(exes)
    nb, nt, npf, nmax = (300, 60, 300, 300) if not ctx.thorough else (4000, 600, 4000, 1500)
    corpus = corpus_cases(inf)
    cases = corpus + gen_big(ctx) + gen_bulk(ctx, inf, nb, 300 if not ctx.thorough else 1000) + gen_tg(ctx, inf, nt) + gen_pf(ctx, npf, nmax)
    impl, model, diffs, fails, guard_bad = evaluate(exes, cases, inf)

    searched = 0
    if (diffs or broken or guard_bad) and not fails:
        # something broke but no input violates the property yet: search around the disagreements
        # and with fresh random cases
        extra = []
        for _, c, _, _ in diffs[:6]:
            extra += neighbours(ctx, inf, c)
        extra += gen_bulk(ctx, inf, 200, 300) + gen_tg(ctx, inf, 30) + gen_pf(ctx, 300, 600)
        searched = len(extra)
        _, _, _, fails2, _ = evaluate(exes, extra, inf)
        fails += fails2

    kinds, wdist, ndist, outd = collections.Counter(), collections.Counter(), collections.Counter(), collections.Counter()
    for c, o in zip(cases, impl):
        w = c.split()
        kinds[w[0] + ("/" + w[2] if w[0] in ("bulk", "bulkbig", "pf") else "")] += 1
        wdist["workers=" + w[1]] += 1
        if w[0] in ("bulkbig", "pfbig"):
            ndist["big: 50000+ yielding items"] += 1
        elif w[0] == "bulk":
            n = int(w[3])
            ndist["bulk n=0" if n == 0 else "bulk n=1" if n == 1 else "bulk n=2..8" if n <= 8 else "bulk n=9..64" if n <= 64 else "bulk n>64"] += 1
            ndist["bulk results=%s ids=%s attrs=%s" % (w[9], w[10], w[11])] += 1
            if w[11] == "1" and len(w) >= 14:
                ndist["bulk attrs child_first pattern %s" % ["all 0 (help-first)", "all 1", "alternating", "alternating'", "random", "default"][int(w[12])]] += 1
                ndist["bulk attrs stack pattern %s" % ["128K", "random 16..256K", "stack size 0", "mix"][int(w[13])]] += 1
        elif w[0] == "tg":
            k = sum(1 for t in w[5:] if t != "w")
            ndist["tg runs<=8" if k <= 8 else "tg runs 9..40" if k <= 40 else "tg runs>40"] += 1
        else:
            first, last = int(w[4]), int(w[5])
            ndist["pf empty" if first == last else "pf reversed" if first > last else "pf single" if last - first <= int(w[6]) else "pf several"] += 1
        outd[o.split("=")[0] if o.startswith("outcome") or o.startswith("not-run") else "completed"] += 1
    # schedule coverage: did the items really interleave and migrate?  (counters after " | ")
    sched = {"bulk_cases_with_working_bodies_multi_worker": 0, "items_started_on_a_worker_other_than_the_creators": 0,
             "max_items_started_but_not_finished": 0, "max_items_started_but_not_finished_one_worker": 0,
             "yields_by_item_bodies": 0, "parallel_for_max_bodies_in_flight": 0, "parallel_for_yields": 0,
             "items_run_under_their_own_attribute_slot": 0, "items_run_under_an_earlier_items_attribute_slot": 0,
             "items_run_in_the_calling_thread": 0}
    for c, o in zip(cases, impl):
        w = c.split()
        if " | " not in o:
            continue
        st = fields(o.split(" | ", 1)[1])
        if w[0] == "bulk":
            multi = int(w[1]) >= 2 and len(w) >= 16 and w[15] == "1"
            if multi:
                sched["bulk_cases_with_working_bodies_multi_worker"] += 1
                sched["items_started_on_a_worker_other_than_the_creators"] += int(st["xw"])
                sched["max_items_started_but_not_finished"] = max(sched["max_items_started_but_not_finished"], int(st["maxact"]))
            elif int(w[1]) == 1:
                sched["max_items_started_but_not_finished_one_worker"] = max(sched["max_items_started_but_not_finished_one_worker"], int(st["maxact"]))
            sched["yields_by_item_bodies"] += int(st["yields"])
            if w[11] == "1" and int(w[8]) > 0:
                ts, as_ = int(w[8]), int(w[5])
                for x in lst(fields(o.split(" | ")[0]).get("inv", "")):
                    f, off, inl, tag = map(int, x.split(":"))
                    if inl:
                        sched["items_run_in_the_calling_thread"] += 1
                    elif as_ > 0 and tag >= 0:
                        sched["items_run_under_their_own_attribute_slot" if tag // ts == off // as_ else "items_run_under_an_earlier_items_attribute_slot"] += 1
        elif w[0] == "pf":
            sched["parallel_for_max_bodies_in_flight"] = max(sched["parallel_for_max_bodies_in_flight"], int(st["maxact"]))
            sched["parallel_for_yields"] += int(st["yields"])
    ctx.cov["schedule_coverage"] = sched
    ctx.cov["correspondence"] = {
        "cases": len(cases), "corpus_cases": len(corpus), "disagreements": len(diffs),
        "oracle_failures": len(fails), "model_guard_mismatches": len(guard_bad),
        "input_distribution": dict(kinds), "workers": dict(wdist), "sizes": dict(ndist),
        "impl_result_distribution": dict(outd), "search_cases_after_a_break": searched,
        "harness_info": inf}
    pick = [0, len(cases) // 3, 2 * len(cases) // 3, len(cases) - 1]
    ctx.cov["samples"] += [{"case": cases[i], "impl": impl[i][:300], "model": model[i][:300]} for i in pick]
    ctx.cov["evaluations"] = len(cases)
    ctx.cov["distinct_nontrivial"] = len(set(c.split(None, 2)[2] for c in cases))
    ctx.cov["trusted_base"] += [
        "extraction: ExtrOcamlBasic only; ocaml/driver_C17.ml (mirrors the input layout of the C harness: function slot j holds function j mod 16, attribute slot j asks for stack size base+j), ocaml/zio.ml",
        "harness/c17_bulk.c (0xA5-filled buffers with 64 guard bytes around every array; result values with all bytes in 0x40..0x7f; create.init / create.start / join.reap / alloc.stack hook events recorded during the call; item bodies yield, spin and fill part of their stack; one forked child per case)",
        "oracle rule for per-item attributes: the thread for the left half [a,c) of a split is created with attrs + a*stride (the code's documented mechanism, restated in Python independently of the Coq model); NOT 'item i runs under attrs[i]', which the library does not implement (see schedule_coverage.items_run_under_*)",
        "harness/c17_mtbb.cc (reads the public members of task_group to locate task objects; Rng<T> stands in for tbb::blocked_range; g++ default -std; one forked child per case with alarm and creation-count watchdog)",
        "modelled, not verified: myth_create_ex / myth_join themselves (C01); addresses as unbounded integers (no 64-bit wrap); signed overflow in parallel_for is excluded by the stated guards, not modelled"]

    if fails:
        c, o, msg = fails[0]
        ctx.violation("oracle", "%s  [case: %s]" % (msg, c),
                      {"case": c, "observed": o, "expected": "the sequential loop (see property C17); model says: " + model_line(exes, c),
                       "level": "library", "all_failing": [(a, m) for a, _, m in fails[:20]]}, found=True)
    elif diffs:
        i, c, a, b = diffs[0]
        ctx.violation("correspondence", "model and implementation disagree on %d case(s); first: %s" % (len(diffs), c),
                      {"theorem_or_correspondence": "correspondence Bulk/*Model.v <-> src/myth_sched_func.h, src/mtbb/task_group.h, src/mtbb/parallel_for.h",
                       "case": c, "observed": a[:2000], "expected": b[:2000], "all": [(x[1], x[2][:300], x[3][:300]) for x in diffs[:10]]}, found=False)
    elif guard_bad:
        c, m = guard_bad[0]
        ctx.violation("correspondence", "the model's overflow guard and the check's guard disagree on: %s (model: %s)" % (c, m[:100]),
                      {"theorem_or_correspondence": "pf3_guard / pf2_guard / pg_guard / pr_guard", "case": c, "expected": m[:300]}, found=False)
    if not fails and not diffs and sched["bulk_cases_with_working_bodies_multi_worker"] >= 50 and (
            sched["items_started_on_a_worker_other_than_the_creators"] == 0 or sched["max_items_started_but_not_finished"] < 2):
        ctx.violation("coverage", "schedule coverage gate: in %d multi-worker bulk cases %d items ran on another worker than their creator's and at most %d items were in flight at once" % (
            sched["bulk_cases_with_working_bodies_multi_worker"], sched["items_started_on_a_worker_other_than_the_creators"],
            sched["max_items_started_but_not_finished"]),
            {"theorem_or_correspondence": "schedule coverage of the correspondence run (C17_various_any_schedule)", "counters": sched}, found=False)
    if broken:
        ctx.violation("proof", "theorem(s) no longer check: " + ", ".join(broken),
                      {"theorem_or_correspondence": ", ".join(broken), "log": getattr(ctx, "proof_log", log[-3000:])}, found=False)
    return ctx.finish(assumptions=[
        "n >= 0 (a negative count never terminates: C17_various_negative_diverges); arrays inside the address space (no wrap of base + i*stride)",
        "parallel_for: step >= 1 and the intermediate values of (last - first + step - 1) / step representable in Index (pf3_guard); the grain-size overload for every representable grain size (<= 0 included); the range-based form for a Range whose is_divisible() is false on one-element ranges (grainsize >= 1 for the blocked_range-like Rng)",
        "create/join semantics of C01: a joined thread has run to completion"])


def model_line(exes, c):
    try:
        return run_model(exes, [c])[0][:500]
    except Exception as e:   # noqa
        return "<%s>" % e


def replay(ctx, path):
    body = json.load(open(path))
    exes = build(ctx)
    inf = info(exes)
    if "case" not in body:
        print("replay file has no case (broken obligation): " + body.get("what", ""))
        return 0
    c = body["case"]
    impl = run_impl(exes, [c])[0] if (c.split()[0] != "pf" or pf_guard(c)) else "not-run (outside the guard)"
    model = run_model(exes, [c])[0]
    print("case:  ", c)
    print("impl:  ", impl)
    print("model: ", model)
    print("oracle:", oracle(c, impl, inf))
    return 0
