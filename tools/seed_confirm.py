#!/usr/bin/env python3
"""tools/seed_confirm.py <Cxx> <k> [<check-id> ...]: confirm a seeded change produced by an independent sub-agent in
/tmp/seed-<Cxx>/out/<k> (patch.diff + demonstration + meta.json): on the unchanged worktree the demonstration passes; with the
patch the library builds, the whole test suite passes and the demonstration fails; then run our checks against the patched
tree (VERIF_REPO) and record everything under /verif/seeded/<Cxx>-<k>/."""
import json, os, shutil, subprocess, sys, time
P, K = sys.argv[1], sys.argv[2]
CHECKS = sys.argv[3:] or [P]
RND = os.environ.get("SEED_ROUND", "1")
WT = "/tmp/seed-%s" % P if RND == "1" else "/tmp/seed%s-%s" % (RND, P)
OUT = os.path.join(WT, "out", K)
DEST = "/verif/seeded/%s-%s" % (P, K) if RND == "1" else "/verif/seeded/%s-r%s-%s" % (P, RND, K)

def sh(cmd, cwd=None, timeout=3600, env=None):
    try:
        p = subprocess.run(cmd, shell=True, executable="/bin/bash", cwd=cwd, timeout=timeout, env=env, stdout=subprocess.PIPE, stderr=subprocess.STDOUT, text=True, errors="replace")
        return p.returncode, p.stdout
    except subprocess.TimeoutExpired as e:
        return 124, (e.stdout or b"").decode("utf-8", "replace") if isinstance(e.stdout, bytes) else (e.stdout or "") + "[timeout]"

def demo():
    meta = json.load(open(os.path.join(OUT, "meta.json")))
    import re
    cmd = re.sub(r"\s{2,}\(.*$", "", meta["how_to_run"], flags=re.S)     # drop a trailing parenthesised remark
    rc, out = sh(cmd, cwd=OUT, timeout=1200)
    # demonstrations report failure through the exit status or by printing FAIL / NG / exit=<n> / rc=<n>
    ok = (rc == 0 and not re.search(r"FAIL|\bNG\b|\bexit=[1-9]|\brc=[1-9]|VIOLATION", out))
    last = [l.strip() for l in out.split("\n") if l.strip()]
    if last and re.fullmatch(r"\d+", last[-1]) and last[-1] != "0":     # `...; echo $?` style
        ok = False
    return ok, rc, out[-1500:]

log = {"property": P, "change": K, "at": time.strftime("%Y-%m-%d %H:%M:%S")}
PREV = None
if os.environ.get("SEED_REUSE") and os.path.exists(os.path.join(DEST, "meta.json")):
    PREV = json.load(open(os.path.join(DEST, "meta.json"))).get("confirmation_by_orchestrator")
sh("git checkout -- src include", cwd=WT)
rc, out = sh("make -j8 2>&1 | tail -3", cwd=WT)
ok0, rc0, out0 = demo()
log["demo_on_unchanged_tree"] = {"passes": ok0, "rc": rc0, "tail": out0[-600:]}
rc, out = sh("git apply out/%s/patch.diff" % K, cwd=WT)
log["patch_applies"] = (rc == 0)
rc, out = sh("make -j8 2>&1 | tail -5", cwd=WT)
log["builds"] = (rc == 0)
if PREV and "PASS: 257" in PREV.get("test_suite_with_change", ""):
    log["test_suite_with_change"] = PREV["test_suite_with_change"]      # measured in the previous confirmation run
else:
    rc, out = sh("make -C tests check -j8 2>&1 | grep -E '^# (TOTAL|PASS|FAIL|ERROR)'", cwd=WT, timeout=3000)
    log["test_suite_with_change"] = " ".join(out.split())
ok1, rc1, out1 = demo()
log["demo_with_change"] = {"passes": ok1, "rc": rc1, "tail": out1[-600:]}
log["checks"] = {}
if PREV:
    log["checks"] = dict(PREV.get("checks", {}))
for c in CHECKS:
    if PREV and c in PREV.get("checks", {}):
        continue
    env = dict(os.environ, VERIF_REPO=WT)
    rc, out = sh("./check %s --tier quick" % c, cwd="/verif", env=env, timeout=3000)
    lines = [l for l in out.split("\n") if l.startswith(("OK", "VIOLATION", "KNOWN-FINDING", "  ("))]
    log["checks"][c] = {"rc": rc, "lines": lines[:8]}
sh("git checkout -- src include", cwd=WT)
sh("make -j8 2>&1 | tail -1", cwd=WT)
confirmed = log["patch_applies"] and log["builds"] and "PASS: 257" in log["test_suite_with_change"] and ok0 and not ok1
log["confirmed"] = confirmed
os.makedirs(DEST, exist_ok=True)
for f in os.listdir(OUT):
    if os.path.isfile(os.path.join(OUT, f)) and os.path.getsize(os.path.join(OUT, f)) < 200000 and not os.access(os.path.join(OUT, f), os.X_OK):
        shutil.copy(os.path.join(OUT, f), DEST)
meta = json.load(open(os.path.join(OUT, "meta.json")))
meta["confirmation_by_orchestrator"] = log
json.dump(meta, open(os.path.join(DEST, "meta.json"), "w"), indent=1)
print(json.dumps({k: log[k] for k in ("confirmed", "test_suite_with_change", "checks")}, indent=1))
print("demo unchanged passes:", ok0, " demo with change passes:", ok1)
