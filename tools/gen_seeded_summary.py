#!/usr/bin/env python3
"""writes seeded/SUMMARY.md from seeded/*/meta.json"""
import json, os, glob, re
V = "/verif"
def outc(v):
    L = v.get("lines", [])
    if any("VIOLATION" in l and "no-failing" not in l for l in L): return "found"
    if any("no-failing" in l for l in L): return "nfif"
    return "quiet" if L else "-"
rows, stats = [], {"total": 0, "first_found": 0, "first_nfif": 0, "first_missed": 0, "final_found": 0, "final_nfif": 0, "final_missed": 0}
for d in sorted(glob.glob(V + "/seeded/*/meta.json")):
    k = os.path.basename(os.path.dirname(d)); m = json.load(open(d)); prop = k.split("-")[0]
    c = m.get("confirmation_by_orchestrator", {}); r = m.get("recheck", {})
    if not c.get("confirmed"): continue
    own = {p: outc(v) for p, v in c.get("checks", {}).items()}
    fin = {p: outc(v) for p, v in r.get("checks", {}).items()} if r else {}
    def best(dct):
        vals = list(dct.values())
        return "found" if "found" in vals else "nfif" if "nfif" in vals else "missed"
    b1, b2 = best(own), best(fin) if fin else ""
    stats["total"] += 1; stats["first_" + b1] += 1
    if b2: stats["final_" + b2] += 1
    what = re.sub(r"\s+", " ", m.get("what_it_breaks", ""))[:160].replace("|", "/")
    needs = re.sub(r"\s+", " ", m.get("needs_to_manifest", ""))[:160].replace("|", "/")
    rows.append("| %s | %s | %s | %s | %s |" % (k, what, needs, ", ".join("%s %s" % x for x in own.items()), ", ".join("%s %s" % x for x in fin.items())))
with open(V + "/seeded/SUMMARY.md", "w") as f:
    f.write("# Seeded changes (independent sub-agents; see DESIGN.md 11.7)\n\n")
    f.write("Confirmed changes: %(total)d.  At first run: found %(first_found)d, no-failing-input-found %(first_nfif)d, missed %(first_missed)d.  "
            "Final checks (recheck): found %(final_found)d, no-failing-input-found %(final_nfif)d, missed %(final_missed)d.\n\n" % stats)
    f.write("`found` = VIOLATION with a concrete failing input; `nfif` = VIOLATION ... no-failing-input-found; `quiet` = exit 0.\n\n")
    f.write("| id | what it breaks | needs to manifest | checks when first run | final checks |\n|---|---|---|---|---|\n")
    f.write("\n".join(rows) + "\n")
print(stats)
