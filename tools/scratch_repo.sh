#!/bin/sh
# tools/scratch_repo.sh <dir>  -- make a scratch copy of /repo's working tree (sources, headers, configure
# output; no objects, no .git) for mutation experiments:   VERIF_REPO=<dir> ./check Cxx --tier quick
# Remove it (rm -rf <dir>) as soon as you are done.  <dir> must be outside /repo and /verif (e.g. /tmp/c04-mut).
set -e
d="$1"; [ -n "$d" ] || { echo "usage: $0 <dir>"; exit 2; }
case "$d" in /repo*|/verif*) echo "scratch dir must be outside /repo and /verif"; exit 2;; esac
mkdir -p "$d"
rsync -a --delete --exclude '.git' --exclude '*.o' --exclude '*.lo' --exclude '*.la' --exclude '.libs' --exclude '.deps' \
  --exclude 'tests/*' --exclude 'docs' --exclude 'examples' "${VERIF_REPO_SRC:-/repo}/" "$d/"
echo "$d"
