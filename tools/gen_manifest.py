#!/usr/bin/env python3
"""Writes /verif/MANIFEST.json from /verif/claims.json (property -> technique, text, note, design_ref),
so that the manifest is always schema-valid and consistent with what ./check implements.  A property
without an entry in claims.json is listed under not_applicable with the reason given in
claims.json["_not_claimed"][id] (default: not built yet)."""
import json, os, subprocess
V = os.path.dirname(os.path.dirname(os.path.abspath(__file__)))
NOT_YET = "check not finished in this round (work in progress, see DESIGN.md section 7); not claimed until it is green on the unchanged tree"

def main():
    props = [json.loads(l)["id"] for l in open(os.path.join(V, "properties.jsonl"))]
    claims = json.load(open(os.path.join(V, "claims.json")))
    why_not = claims.pop("_not_claimed", {})
    repo_commits = subprocess.run(["git", "-C", "/repo", "log", "--format=%H %s", "--grep=^verif hooks"],
                                  capture_output=True, text=True).stdout.strip().split("\n")
    checks, na = [], []
    for p in props:
        if p in claims:
            c = claims[p]
            checks.append({
                "property_id": p,
                "quick_cmd": "./check %s --tier quick" % p,
                "thorough_cmd": "./check %s --tier thorough" % p,
                "evidence_file": "/verif/evidence/%s.json" % p,
                "replay_cmd_template": "./check %s --replay {path}" % p,
                "engine": "coq-proof+correspondence",
                "level_claimed": {"category": "proof", "text": c["text"], "design_ref": c.get("design_ref", "DESIGN.md section 4 " + p)},
                "level_note": c["note"],
                "technique": c["technique"]})
        else:
            na.append({"property_id": p, "reason": why_not.get(p, NOT_YET)})
    m = {"version": 1,
         "setup_cmd": "./setup.sh",
         "hooks": {"guard": "MYTH_VERIF",
                   "enable": "checks compile /repo/src/*.c themselves with -DMYTH_VERIF (plus the flags of src/Makefile.am) "
                             "into /verif/build/lib/<hash>/libmyth.a; nothing under /repo is written",
                   "baseline_off_cmd": "cd /repo && make -j8 >/dev/null 2>&1 && make -C tests check -j8",
                   "source_commits": [c.split()[0] for c in repo_commits if c],
                   "add_only": True},
         "engines": [{"name": "coq-proof+correspondence", "path": "/verif/check",
                      "serves_properties": sorted(claims),
                      "kind_free_text": "Coq 8.16 theorems about executable Gallina models (coq/), extracted to OCaml "
                                        "(ocaml/) and run against harnesses built from /repo's working tree (harness/); "
                                        "translators regenerate Coq data from the source for C02/C03/C16/C19"}],
         "checks": checks,
         "not_applicable": na,
         "notes": "All checks: ./check <id> --tier quick|thorough. A VIOLATION line ends with no-failing-input-found when "
                  "only a proof obligation or the model/code correspondence broke. known_findings.json lists recorded defects."}
    with open(os.path.join(V, "MANIFEST.json"), "w") as f:
        json.dump(m, f, indent=1)
        f.write("\n")

if __name__ == "__main__":
    main()
