#!/usr/bin/env python3
"""Writes /verif/MANIFEST.json from the table below (kept here so that the manifest is always
schema-valid and consistent with what ./check implements)."""
import json, os, subprocess
V = os.path.dirname(os.path.dirname(os.path.abspath(__file__)))

# property -> (claimed?, technique, level text, level note, design ref)
CLAIMS = {
 "C20": ("Coq theorems over an executable Gallina model of the deadline arithmetic and polling loops "
         "+ differential correspondence against the library under a scripted virtual clock",
         "Machine-checked (Coq 8.16) theorems for all valid timespec operands, all clock sequences and all "
         "availability scripts: exact addition/comparison, EINVAL iff malformed, return only at the first clock "
         "reading strictly past start+request with one yield between polls, timeout only past the deadline and only "
         "after every attempt failed, success whenever an attempt before the observed deadline finds the resource "
         "available, first attempt before any clock test. The hand-written model is tied to the code by running "
         "the extracted model and the real myth_nanosleep/usleep/sleep/mutex_timedlock/timedjoin (hooks-on build of "
         "the current tree) on the same generated cases.",
         "Trusted: Coq kernel; extraction (ExtrOcamlBasic only) + ocaml/driver_C20.ml; harness/c20_unit.c; the MYTH_VERIF "
         "virtual-clock hook. Modelled not verified: clock_gettime; signed overflow of tv_sec (UB, excluded by guard). "
         "Liveness (the loop ends) is proved only under the hypothesis that some later reading passes the deadline.",
         "DESIGN.md section 4 C20"),
}
NOT_YET = "not built yet in this round (see DESIGN.md section 7, order of work)"

def main():
    props = [json.loads(l)["id"] for l in open(os.path.join(V, "properties.jsonl"))]
    repo_commits = subprocess.run(["git", "-C", "/repo", "log", "--format=%H %s", "--grep=^verif hooks"],
                                  capture_output=True, text=True).stdout.strip().split("\n")
    checks, na = [], []
    for p in props:
        if p in CLAIMS:
            tech, text, note, ref = CLAIMS[p]
            checks.append({
                "property_id": p,
                "quick_cmd": "./check %s --tier quick" % p,
                "thorough_cmd": "./check %s --tier thorough" % p,
                "evidence_file": "/verif/evidence/%s.json" % p,
                "replay_cmd_template": "./check %s --replay {path}" % p,
                "engine": "coq-proof+correspondence",
                "level_claimed": {"category": "proof", "text": text, "design_ref": ref},
                "level_note": note,
                "technique": tech})
        else:
            na.append({"property_id": p, "reason": NOT_YET})
    m = {"version": 1,
         "setup_cmd": "./setup.sh",
         "hooks": {"guard": "MYTH_VERIF",
                   "enable": "checks compile /repo/src/*.c themselves with -DMYTH_VERIF (plus the flags of src/Makefile.am) "
                             "into /verif/build/lib/<hash>/libmyth.a; nothing under /repo is written",
                   "baseline_off_cmd": "cd /repo && make -j8 >/dev/null 2>&1 && make -C tests check -j8",
                   "source_commits": [c.split()[0] for c in repo_commits if c],
                   "add_only": True},
         "engines": [{"name": "coq-proof+correspondence", "path": "/verif/check",
                      "serves_properties": sorted(CLAIMS),
                      "kind_free_text": "Coq 8.16 theorems about executable Gallina models (coq/), extracted to OCaml "
                                        "(ocaml/) and run against harnesses built from /repo's working tree (harness/)"}],
         "checks": checks,
         "not_applicable": na,
         "notes": "All checks: ./check <id> --tier quick|thorough. A VIOLATION line ends with no-failing-input-found when "
                  "only a proof obligation or the model/code correspondence broke. known_findings.json lists recorded defects."}
    with open(os.path.join(V, "MANIFEST.json"), "w") as f:
        json.dump(m, f, indent=1)
        f.write("\n")

if __name__ == "__main__":
    main()
