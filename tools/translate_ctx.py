"""C03 translator: context-switch asm statements of the CURRENT tree -> Coq data.

For every library translation unit (vlib.COMMON_SRCS) and every requested optimisation level:
  * `gcc <library flags> <opt> -g -fPIC -S`  -> every asm statement (between #APP / #NO_APP,
    delimited by the `# <line> "<file>" 1` ... `# 0 "" 2` markers gcc emits around each statement)
    that WRITES %rsp (push/pop/call/ret/leave or %rsp as destination operand) is a context-switch
    site; its instructions are parsed into the constructors of Ctx/X86Model.v (anything else
    becomes IUnknown, which the checker rejects);
  * `gcc <library flags> <opt> -fPIC -E`  -> every asm statement whose template mentions rsp, with
    the (file, line) of its `asm` keyword, its output / input constraints and clobbers; matched
    to the sites of the .s file by (file, line) (and by call target / shape when several
    statements share a line);
  * the bodies of myth_make_context_empty / myth_make_context_voidcall as preprocessed.
Everything it extracts is also returned as JSON-able data for the evidence file.
This module is in the trusted base of C03 (named there)."""
import os, re, subprocess, hashlib
import vlib

REGS = {"rsp": "RSP", "rbp": "RBP", "rbx": "RBX", "r12": "R12", "r13": "R13", "r14": "R14", "r15": "R15",
        "rax": "RAX", "rcx": "RCX", "rdx": "RDX", "rsi": "RSI", "rdi": "RDI",
        "r8": "R8", "r9": "R9", "r10": "R10", "r11": "R11"}
CONSTRAINT_REG = {"a": "RAX", "b": "RBX", "c": "RCX", "d": "RDX", "S": "RSI", "D": "RDI"}


def flags(opt):
    return vlib.lib_cflags() + [opt, "-g", "-fPIC"]


def compile_all(outdir, opts):
    """gcc -S and gcc -E of every TU; returns {(tu,opt): (spath, ipath)}; raises BuildError"""
    os.makedirs(outdir, exist_ok=True)
    procs, res = [], {}
    for opt in opts:
        for tu in vlib.COMMON_SRCS:
            src = os.path.join(vlib.REPO, "src", tu)
            base = os.path.join(outdir, tu[:-2] + opt)
            s, i = base + ".s", base + ".i"
            res[(tu, opt)] = (s, i)
            procs.append((tu, opt, subprocess.Popen(["gcc"] + flags(opt) + ["-S", src, "-o", s],
                                                    stdout=subprocess.PIPE, stderr=subprocess.STDOUT, text=True)))
            procs.append((tu, opt, subprocess.Popen(["gcc"] + flags(opt) + ["-E", src, "-o", i],
                                                    stdout=subprocess.PIPE, stderr=subprocess.STDOUT, text=True)))
    errs = []
    for tu, opt, p in procs:
        out, _ = p.communicate()
        if p.returncode != 0:
            errs.append("%s %s:\n%s" % (tu, opt, out[-1200:]))
    if errs:
        raise vlib.BuildError("translator: gcc -S/-E failed:\n" + "\n".join(errs[:4]))
    return res


# ---------------------------------------------------------------------------------------------
# .s side
# ---------------------------------------------------------------------------------------------

MARK_BEGIN = re.compile(r'^#\s+(\d+)\s+"([^"]*)"\s+1\s*$')
MARK_END = re.compile(r'^#\s+0\s+""\s+2\s*$')


def asm_statements(stext):
    """[(file, line, [instruction text])] for every asm statement of a gcc -S output"""
    res, inapp, cur = [], False, None
    for raw in stext.split("\n"):
        l = raw.strip()
        if l == "#APP":
            inapp = True
            continue
        if l == "#NO_APP":
            inapp, cur = False, None
            continue
        if not inapp:
            continue
        m = MARK_BEGIN.match(l)
        if m:
            cur = (m.group(2), int(m.group(1)), [])
            res.append(cur)
            continue
        if MARK_END.match(l):
            cur = None
            continue
        if not l or l.startswith("#"):
            continue
        if re.match(r"^\.(loc|file|cfi_|LVL|LBB|LBE|LVU|L[A-Z]*\d)", l) or re.match(r"^\.\w+\d*:$", l):
            continue      # debug directives / compiler-local labels interleaved by -g
        if cur is None:
            cur = ("?", 0, [])
            res.append(cur)
        for part in l.split(";"):
            part = part.strip()
            if part:
                cur[2].append(part)
    return res


def writes_rsp(ins):
    for t in ins:
        m = t.split(None, 1)
        op = m[0]
        if re.match(r"^(push|pop|call|ret|leave|enter)[qlw]?$", op):
            return True
        if len(m) > 1 and re.search(r",\s*%rsp\s*$", m[1]):
            return True
    return False


def touches_rsp(ins):
    return any("%rsp" in t or "%esp" in t for t in ins)


def num(s):
    s = s.strip()
    neg = s.startswith("-")
    if neg:
        s = s[1:]
    v = int(s, 16) if s.lower().startswith("0x") else int(s)
    return -v if neg else v


def zlit(v):
    return str(v) if v >= 0 else "(%d)" % v


def parse_instr(t, k, calls):
    """one instruction -> Coq term"""
    t = re.sub(r"\s+", " ", t.strip())
    r = r"%(\w+)"
    m = re.match(r"^subq? \$(-?\w+), ?%rsp$", t)
    if m:
        return "ISubRsp %s" % zlit(num(m.group(1)))
    m = re.match(r"^addq? \$(-?\w+), ?%rsp$", t)
    if m:
        return "IAddRsp %s" % zlit(num(m.group(1)))
    m = re.match(r"^pushq? " + r + "$", t)
    if m and m.group(1) in REGS:
        return "IPush " + REGS[m.group(1)]
    m = re.match(r"^popq? " + r + "$", t)
    if m and m.group(1) in REGS:
        return "IPop " + REGS[m.group(1)]
    m = re.match(r"^leaq? (\d+)f\(%rip\), ?" + r + "$", t)
    if m and m.group(2) in REGS:
        return "ILea %s %s" % (m.group(1), REGS[m.group(2)])
    m = re.match(r"^movq? %rsp, ?\(" + r + r"\)$", t)
    if m and m.group(1) in REGS:
        return "IStoreRsp " + REGS[m.group(1)]
    m = re.match(r"^movq? \(" + r + r"\), ?%rsp$", t)
    if m and m.group(1) in REGS:
        return "ILoadRsp " + REGS[m.group(1)]
    m = re.match(r"^movq? " + r + ", ?" + r + "$", t)
    if m and m.group(1) in REGS and m.group(2) in REGS:
        return "IMov %s %s" % (REGS[m.group(1)], REGS[m.group(2)])
    m = re.match(r"^callq? ([A-Za-z_][\w.]*)(@PLT)?$", t)
    if m:
        name = m.group(1)
        if name not in calls:
            calls.append(name)
        return "ICall %d" % calls.index(name)
    m = re.match(r"^jmpq? \*" + r + "$", t)
    if m and m.group(1) in REGS:
        return "IJmp " + REGS[m.group(1)]
    m = re.match(r"^(\d+):$", t)
    if m:
        return "ILabel " + m.group(1)
    if t == "ud2":
        return "IUd2"
    return "IUnknown %d" % k


# ---------------------------------------------------------------------------------------------
# .i side (constraints, clobbers, make_context bodies)
# ---------------------------------------------------------------------------------------------

LINEMARK = re.compile(r'^#\s+(\d+)\s+"([^"]*)"')


def line_map(itext):
    """offset of each physical line start -> (file, line)"""
    starts, info = [], []
    off, f, ln = 0, "?", 1
    for raw in itext.split("\n"):
        m = LINEMARK.match(raw)
        if m:
            f, ln = m.group(2), int(m.group(1))
            starts.append(off)
            info.append((f, 0))
        else:
            starts.append(off)
            info.append((f, ln))
            ln += 1
        off += len(raw) + 1
    return starts, info


def locate(starts, info, off):
    import bisect
    k = bisect.bisect_right(starts, off) - 1
    return info[k]


def balanced(text, i):
    """text[i] == '(' -> index just after the matching ')' (string literals respected)"""
    depth, n = 0, len(text)
    while i < n:
        c = text[i]
        if c == '"':
            i += 1
            while i < n and text[i] != '"':
                i += 2 if text[i] == "\\" else 1
        elif c == "(":
            depth += 1
        elif c == ")":
            depth -= 1
            if depth == 0:
                return i + 1
        i += 1
    return n


def split_top(s, sep):
    parts, depth, cur, i, n = [], 0, [], 0, len(s)
    while i < n:
        c = s[i]
        if c == '"':
            j = i + 1
            while j < n and s[j] != '"':
                j += 2 if s[j] == "\\" else 1
            cur.append(s[i:j + 1])
            i = j + 1
            continue
        if c in "([{":
            depth += 1
        elif c in ")]}":
            depth -= 1
        if c == sep and depth == 0:
            parts.append("".join(cur))
            cur = []
        else:
            cur.append(c)
        i += 1
    parts.append("".join(cur))
    return parts


def strings_of(s):
    return [bytes(m, "utf-8").decode("unicode_escape") for m in re.findall(r'"((?:[^"\\]|\\.)*)"', s)]


def constraint_reg(c, outs):
    c = c.strip().lstrip("=+&%")
    if c.isdigit():
        k = int(c)
        return outs[k] if k < len(outs) else None
    if len(c) == 1 and c in CONSTRAINT_REG:
        return CONSTRAINT_REG[c]
    return None


def asm_decls(itext):
    """asm statements of a preprocessed TU whose template mentions rsp:
       [{file,line,template,outs,ins,clobs,mem,cc,free_operands}]"""
    starts, info = line_map(itext)
    res = []
    for m in re.finditer(r"\b(?:asm|__asm__|__asm)\b\s*(?:volatile|__volatile__|__volatile)?\s*(?:goto\s*)?\(", itext):
        beg = m.end() - 1
        end = balanced(itext, beg)
        body = itext[beg + 1:end - 1]
        secs = split_top(body, ":")
        template = "".join(strings_of(secs[0]))
        if "rsp" not in template:
            continue
        f, ln = locate(starts, info, m.start())
        outs_c = [strings_of(x)[0] if strings_of(x) else "" for x in split_top(secs[1], ",")] if len(secs) > 1 and secs[1].strip() else []
        ins_c = [strings_of(x)[0] if strings_of(x) else "" for x in split_top(secs[2], ",")] if len(secs) > 2 and secs[2].strip() else []
        clob = [c for x in (split_top(secs[3], ",") if len(secs) > 3 and secs[3].strip() else []) for c in strings_of(x)]
        outs = [constraint_reg(c, []) for c in outs_c]
        ins = [constraint_reg(c, outs) for c in ins_c]
        cl = []
        for c in clob:
            c2 = c.strip().lstrip("%")
            if c2 in REGS:
                cl.append(REGS[c2])
        tl = [x.strip() for x in template.replace(";", "\n").split("\n") if x.strip()]
        res.append({"file": f, "line": ln, "template": tl,
                    "outs_text": outs_c, "ins_text": ins_c, "clobbers_text": clob,
                    "outs": [r for r in outs if r], "ins": [r for r in ins if r], "clobs": cl,
                    "free_operands": sum(1 for r in outs + ins if r is None),
                    "mem": "memory" in clob, "cc": "cc" in clob})
    return res


def function_body(itext, name):
    for m in re.finditer(r"\b" + re.escape(name) + r"\s*\(", itext):
        end = balanced(itext, m.end() - 1)
        j = end
        while j < len(itext) and itext[j] in " \t\r\n":
            j += 1
        if j < len(itext) and itext[j] == "{":
            depth, k = 0, j
            while k < len(itext):
                if itext[k] == "{":
                    depth += 1
                elif itext[k] == "}":
                    depth -= 1
                    if depth == 0:
                        return itext[j + 1:k]
                k += 1
    return None


def parse_mk(body):
    """body of myth_make_context_* (amd64 branch after preprocessing) -> (list of Coq mkop terms, statements)"""
    if body is None:
        return ["MkUnknown 0"], ["<function not found>"]
    body = re.sub(r'^#.*$', "", body, flags=re.M)
    stmts = [re.sub(r"\s+", " ", s).strip() for s in body.split(";")]
    stmts = [s for s in stmts if s]
    ops, dest_off, started = [], None, False
    N = r"(0[xX][0-9a-fA-F]+|\d+)(?:[uUlL]*)"
    for k, s in enumerate(stmts):
        if re.match(r"^\(void\) ?\w+$", s):
            continue
        if re.match(r"^uint64_t stack_tail = \(uint64_t\) ?stack$", s):
            if started or ops:
                ops.append("MkUnknown %d" % k)
            started = True
            continue
        m = re.match(r"^stack_tail (-|\+|&)= " + N + "$", s)
        if m and started:
            v = num(m.group(2))
            ops.append({"-": "MkSub %d", "+": "MkAdd %d", "&": "MkAnd %d"}[m.group(1)] % v)
            dest_off = None      # a later store through dest_addr would use the old value
            continue
        if re.match(r"^uint64_t ?\* ?dest_addr$", s):
            continue
        m = re.match(r"^dest_addr = \(uint64_t ?\*\) ?(?:stack_tail|\(stack_tail ?([-+]) ?" + N + r"\))$", s)
        if m and started:
            dest_off = 0 if not m.group(1) else (num(m.group(2)) * (-1 if m.group(1) == "-" else 1))
            continue
        m = re.match(r"^ctx ?-> ?rsp = stack_tail(?: ?([-+]) ?" + N + ")?$", s)
        if m and started:
            off = 0 if not m.group(1) else (num(m.group(2)) * (-1 if m.group(1) == "-" else 1))
            ops.append("MkSetRsp %s" % zlit(off))
            continue
        if re.match(r"^\* ?dest_addr = \(uint64_t\) ?func$", s) and started and dest_off is not None:
            ops.append("MkStoreFunc %s" % zlit(dest_off))
            continue
        ops.append("MkUnknown %d" % k)
    return ops, stmts


# ---------------------------------------------------------------------------------------------
# driver
# ---------------------------------------------------------------------------------------------

def mnemonics(instrs):
    out = []
    for t in instrs:
        w = t.split()
        m = w[0]
        if m.endswith(":"):
            out.append("L")
        elif m.startswith("call"):
            out.append("call " + re.sub(r"@PLT$", "", w[1]) if len(w) > 1 else "call")
        else:
            out.append(re.sub(r"[ql]$", "", m) if m not in ("call",) else m)
    return out


def match_decl(site, decls):
    """the asm statement of the preprocessed source that this compiler-output statement comes from:
    same file and line, same sequence of mnemonics and call targets (None if there is no such)"""
    want = mnemonics(site["text"])
    cands = [d for d in decls if d["file"] == site["file"] and d["line"] == site["line"]
             and mnemonics(d["template"]) == want]
    return cands[0] if cands else None


def translate(outdir, opts):
    """returns dict(sites=[...], others=..., mk=..., calls=[names], sources={path: sha})"""
    files = compile_all(outdir, opts)
    calls, sites, others, per_tu = [], [], {}, {}
    mk = None
    sources = {}
    for (tu, opt), (spath, ipath) in sorted(files.items(), key=lambda kv: (opts.index(kv[0][1]), vlib.COMMON_SRCS.index(kv[0][0]))):
        stext = open(spath, errors="replace").read()
        itext = open(ipath, errors="replace").read()
        decls = asm_decls(itext)
        n = 0
        for f, ln, ins in asm_statements(stext):
            if not touches_rsp(ins):
                continue
            if not writes_rsp(ins):
                key = " ; ".join(re.sub(r"-?\d+\(%rsp\)", "N(%rsp)", re.sub(r"%e?[a-d]x|%e?[sd]i|%r\d+d?", "%reg", t)) for t in ins)
                others[key] = others.get(key, 0) + 1
                continue
            st = {"tu": tu, "opt": opt, "file": f, "line": ln, "text": ins}
            st["coq"] = [parse_instr(t, k, calls) for k, t in enumerate(ins)]
            d = match_decl(st, decls)
            st["decl"] = d
            sites.append(st)
            n += 1
        per_tu["%s %s" % (tu, opt)] = n
        if tu == "myth_sched.c" and mk is None:
            e_ops, e_st = parse_mk(function_body(itext, "myth_make_context_empty"))
            v_ops, v_st = parse_mk(function_body(itext, "myth_make_context_voidcall"))
            mk = {"empty": e_ops, "voidcall": v_ops, "empty_src": e_st, "voidcall_src": v_st}
        # which source files produced asm statements / make_context
    for p in sorted(set([s["file"] for s in sites] + [os.path.join(vlib.REPO, "src", x) for x in
                                                         ("myth_context_func.h", "myth_context.h", "myth_config.h")])):
        sources[p] = vlib.file_sha(p)
    return {"sites": sites, "others": others, "mk": mk, "calls": calls, "per_tu": per_tu, "sources": sources}


def coq_site(k, st):
    d = st["decl"]
    if d is None:
        outs = ins = clobs = "[]"
        mem = cc = "false"
    else:
        outs = "[" + "; ".join(d["outs"]) + "]"
        ins = "[" + "; ".join(d["ins"]) + "]"
        clobs = "[" + "; ".join(d["clobs"]) + "]"
        mem = "true" if d["mem"] else "false"
        cc = "true" if d["cc"] else "false"
    return ("(* %s %s  %s:%d *)\nDefinition site_%d : site :=\n  mkSite %d\n    [%s]\n    %s %s %s %s %s.\n"
            % (st["tu"], st["opt"], os.path.relpath(st["file"], vlib.REPO) if st["file"].startswith(vlib.REPO) else st["file"],
               st["line"], k, k, "; ".join(st["coq"]), outs, ins, clobs, mem, cc))


def coq_data(tr, header, with_proofs=True, module_imports="Ctx.X86Model Ctx.CtxCheckModel"):
    o = [header, "From Coq Require Import ZArith List Bool.",
         "From MT Require Import %s." % module_imports, "Import ListNotations.", "Local Open Scope Z_scope.", ""]
    o.append("(* callback table (ICall n): " + ", ".join("%d=%s" % (i, c) for i, c in enumerate(tr["calls"])) + " *)\n")
    for k, st in enumerate(tr["sites"]):
        o.append(coq_site(k, st))
    o.append("Definition sites : list site :=\n  [" + "; ".join("site_%d" % k for k in range(len(tr["sites"]))) + "].\n")
    o.append("Definition mk_empty_ops : list mkop := [" + "; ".join(tr["mk"]["empty"]) + "].")
    o.append("Definition mk_voidcall_ops : list mkop := [" + "; ".join(tr["mk"]["voidcall"]) + "].\n")
    return "\n".join(o) + "\n"


def digest(tr):
    """canonical text of what was extracted (for the evidence hash)"""
    h = hashlib.sha256()
    for st in tr["sites"]:
        h.update(("%s|%s|%s|%d|%s|%s\n" % (st["tu"], st["opt"], st["file"], st["line"], ";".join(st["coq"]),
                                         (st["decl"] or {}).get("clobbers_text"))).encode())
    h.update(repr(tr["mk"]).encode())
    return h.hexdigest()


def distinct_sites(tr):
    """one representative per distinct (instructions, operand lists)"""
    seen, out = set(), []
    for st in tr["sites"]:
        d = st["decl"] or {}
        key = (tuple(st["coq"]), tuple(d.get("outs", [])), tuple(d.get("ins", [])), tuple(d.get("clobs", [])),
               d.get("mem"), d.get("cc"))
        if key not in seen:
            seen.add(key)
            out.append(st)
    return out


if __name__ == "__main__":
    # python3 tools/translate_ctx.py --pinned : regenerate coq/Ctx/CtxAsmPinned.v (a committed snapshot of the
    # distinct sites of the tree at hand, -O0; used only for the non-vacuity Examples of Properties_C03.v)
    import sys
    if "--pinned" in sys.argv:
        tr = translate(os.path.join(vlib.BUILD, "C03", "pin"), ["-O0"])
        tr["sites"] = distinct_sites(tr)
        txt = coq_data(tr, "(** Snapshot of the distinct context-switch asm statements of the pinned tree (gcc -S -O0),\n"
                           "    written by `python3 tools/translate_ctx.py --pinned`.  Used only for the Examples of\n"
                           "    Properties_C03.v; the check regenerates the data from the current tree on every run\n"
                           "    (build/C03/gen/CtxAsmGen.v). *)")
        open(os.path.join(vlib.COQ, "Ctx", "CtxAsmPinned.v"), "w").write(txt)
        print("wrote coq/Ctx/CtxAsmPinned.v with %d sites" % len(tr["sites"]))
