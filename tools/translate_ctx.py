"""C03 translator: context-switch asm statements of the CURRENT tree -> Coq data.

For every library translation unit (vlib.COMMON_SRCS) and every requested optimisation level:
  * `gcc <library flags> <opt> -g -fPIC -S`  -> every asm statement (between #APP / #NO_APP,
    delimited by the `# <line> "<file>" 1` ... `# 0 "" 2` markers gcc emits around each statement)
    that WRITES %rsp (push/pop/call/ret/leave or %rsp as destination operand) is a context-switch
    site; its instructions are parsed into the constructors of Ctx/X86Model.v (anything else
    becomes IUnknown, which the checker rejects);
  * `gcc <library flags> <opt> -fPIC -E`  -> every asm statement whose template mentions rsp, with
    the (file, line) of its `asm` keyword, its output / input constraints and clobbers; matched
    to the sites of the .s file by (file, line) (and by call target / shape when several
    statements share a line);
  * the bodies of myth_make_context_empty / myth_make_context_voidcall as preprocessed.
Everything it extracts is also returned as JSON-able data for the evidence file.
This module is in the trusted base of C03 (named there)."""
import os, re, subprocess, hashlib
import vlib

REGS = {"rsp": "RSP", "rbp": "RBP", "rbx": "RBX", "r12": "R12", "r13": "R13", "r14": "R14", "r15": "R15",
        "rax": "RAX", "rcx": "RCX", "rdx": "RDX", "rsi": "RSI", "rdi": "RDI",
        "r8": "R8", "r9": "R9", "r10": "R10", "r11": "R11"}
CONSTRAINT_REG = {"a": "RAX", "b": "RBX", "c": "RCX", "d": "RDX", "S": "RSI", "D": "RDI"}


def flags(opt):
    return vlib.lib_cflags() + [opt, "-g", "-fPIC"]


def compile_all(outdir, opts):
    """gcc -S and gcc -E of every TU; returns {(tu,opt): (spath, ipath)}; raises BuildError"""
    os.makedirs(outdir, exist_ok=True)
    procs, res = [], {}
    for opt in opts:
        for tu in vlib.COMMON_SRCS:
            src = os.path.join(vlib.REPO, "src", tu)
            base = os.path.join(outdir, tu[:-2] + opt)
            s, i = base + ".s", base + ".i"
            res[(tu, opt)] = (s, i)
            procs.append((tu, opt, subprocess.Popen(["gcc"] + flags(opt) + ["-S", src, "-o", s],
                                                    stdout=subprocess.PIPE, stderr=subprocess.STDOUT, text=True)))
            procs.append((tu, opt, subprocess.Popen(["gcc"] + flags(opt) + ["-E", src, "-o", i],
                                                    stdout=subprocess.PIPE, stderr=subprocess.STDOUT, text=True)))
    errs = []
    for tu, opt, p in procs:
        out, _ = p.communicate()
        if p.returncode != 0:
            errs.append("%s %s:\n%s" % (tu, opt, out[-1200:]))
    if errs:
        raise vlib.BuildError("translator: gcc -S/-E failed:\n" + "\n".join(errs[:4]))
    return res


# ---------------------------------------------------------------------------------------------
# .s side
# ---------------------------------------------------------------------------------------------

MARK_BEGIN = re.compile(r'^#\s+(\d+)\s+"([^"]*)"\s+1\s*$')
MARK_END = re.compile(r'^#\s+0\s+""\s+2\s*$')


def asm_statements(stext):
    """[(file, line, [instruction text])] for every asm statement of a gcc -S output"""
    res, inapp, cur = [], False, None
    for raw in stext.split("\n"):
        l = raw.strip()
        if l == "#APP":
            inapp = True
            continue
        if l == "#NO_APP":
            inapp, cur = False, None
            continue
        if not inapp:
            continue
        m = MARK_BEGIN.match(l)
        if m:
            cur = (m.group(2), int(m.group(1)), [])
            res.append(cur)
            continue
        if MARK_END.match(l):
            cur = None
            continue
        if not l or l.startswith("#"):
            continue
        if re.match(r"^\.(loc|file|cfi_|LVL|LBB|LBE|LVU|L[A-Z]*\d)", l) or re.match(r"^\.\w+\d*:$", l):
            continue      # debug directives / compiler-local labels interleaved by -g
        if cur is None:
            cur = ("?", 0, [])
            res.append(cur)
        for part in l.split(";"):
            part = part.strip()
            if part:
                cur[2].append(part)
    return res


def writes_rsp(ins):
    for t in ins:
        m = t.split(None, 1)
        op = m[0]
        if re.match(r"^(push|pop|call|ret|leave|enter)[qlw]?$", op):
            return True
        if len(m) > 1 and re.search(r",\s*%rsp\s*$", m[1]):
            return True
    return False


def touches_rsp(ins):
    return any("%rsp" in t or "%esp" in t for t in ins)


def num(s):
    s = s.strip()
    neg = s.startswith("-")
    if neg:
        s = s[1:]
    v = int(s, 16) if s.lower().startswith("0x") else int(s)
    return -v if neg else v


def zlit(v):
    return str(v) if v >= 0 else "(%d)" % v


def parse_instr(t, k, calls):
    """one instruction -> Coq term"""
    t = re.sub(r"\s+", " ", t.strip())
    r = r"%(\w+)"
    m = re.match(r"^subq? \$(-?\w+), ?%rsp$", t)
    if m:
        return "ISubRsp %s" % zlit(num(m.group(1)))
    m = re.match(r"^addq? \$(-?\w+), ?%rsp$", t)
    if m:
        return "IAddRsp %s" % zlit(num(m.group(1)))
    m = re.match(r"^pushq? " + r + "$", t)
    if m and m.group(1) in REGS:
        return "IPush " + REGS[m.group(1)]
    m = re.match(r"^popq? " + r + "$", t)
    if m and m.group(1) in REGS:
        return "IPop " + REGS[m.group(1)]
    m = re.match(r"^leaq? (\d+)f\(%rip\), ?" + r + "$", t)
    if m and m.group(2) in REGS:
        return "ILea %s %s" % (m.group(1), REGS[m.group(2)])
    m = re.match(r"^movq? %rsp, ?\(" + r + r"\)$", t)
    if m and m.group(1) in REGS:
        return "IStoreRsp " + REGS[m.group(1)]
    m = re.match(r"^movq? \(" + r + r"\), ?%rsp$", t)
    if m and m.group(1) in REGS:
        return "ILoadRsp " + REGS[m.group(1)]
    m = re.match(r"^movq? " + r + ", ?" + r + "$", t)
    if m and m.group(1) in REGS and m.group(2) in REGS:
        return "IMov %s %s" % (REGS[m.group(1)], REGS[m.group(2)])
    m = re.match(r"^callq? ([A-Za-z_][\w.]*)(@PLT)?$", t)
    if m:
        name = m.group(1)
        if name not in calls:
            calls.append(name)
        return "ICall %d" % calls.index(name)
    m = re.match(r"^jmpq? \*" + r + "$", t)
    if m and m.group(1) in REGS:
        return "IJmp " + REGS[m.group(1)]
    m = re.match(r"^(\d+):$", t)
    if m:
        return "ILabel " + m.group(1)
    if t == "ud2":
        return "IUd2"
    return "IUnknown %d" % k


# ---------------------------------------------------------------------------------------------
# .i side (constraints, clobbers, make_context bodies)
# ---------------------------------------------------------------------------------------------

LINEMARK = re.compile(r'^#\s+(\d+)\s+"([^"]*)"')


def line_map(itext):
    """offset of each physical line start -> (file, line)"""
    starts, info = [], []
    off, f, ln = 0, "?", 1
    for raw in itext.split("\n"):
        m = LINEMARK.match(raw)
        if m:
            f, ln = m.group(2), int(m.group(1))
            starts.append(off)
            info.append((f, 0))
        else:
            starts.append(off)
            info.append((f, ln))
            ln += 1
        off += len(raw) + 1
    return starts, info


def locate(starts, info, off):
    import bisect
    k = bisect.bisect_right(starts, off) - 1
    return info[k]


def balanced(text, i):
    """text[i] == '(' -> index just after the matching ')' (string literals respected)"""
    depth, n = 0, len(text)
    while i < n:
        c = text[i]
        if c == '"':
            i += 1
            while i < n and text[i] != '"':
                i += 2 if text[i] == "\\" else 1
        elif c == "(":
            depth += 1
        elif c == ")":
            depth -= 1
            if depth == 0:
                return i + 1
        i += 1
    return n


def split_top(s, sep):
    parts, depth, cur, i, n = [], 0, [], 0, len(s)
    while i < n:
        c = s[i]
        if c == '"':
            j = i + 1
            while j < n and s[j] != '"':
                j += 2 if s[j] == "\\" else 1
            cur.append(s[i:j + 1])
            i = j + 1
            continue
        if c in "([{":
            depth += 1
        elif c in ")]}":
            depth -= 1
        if c == sep and depth == 0:
            parts.append("".join(cur))
            cur = []
        else:
            cur.append(c)
        i += 1
    parts.append("".join(cur))
    return parts


def strings_of(s):
    return [bytes(m, "utf-8").decode("unicode_escape") for m in re.findall(r'"((?:[^"\\]|\\.)*)"', s)]


def constraint_reg(c, outs):
    c = c.strip().lstrip("=+&%")
    if c.isdigit():
        k = int(c)
        return outs[k] if k < len(outs) else None
    if len(c) == 1 and c in CONSTRAINT_REG:
        return CONSTRAINT_REG[c]
    return None


def asm_decls(itext):
    """asm statements of a preprocessed TU whose template mentions rsp:
       [{file,line,template,outs,ins,clobs,mem,cc,free_operands}]"""
    starts, info = line_map(itext)
    res = []
    for m in re.finditer(r"\b(?:asm|__asm__|__asm)\b\s*(?:volatile|__volatile__|__volatile)?\s*(?:goto\s*)?\(", itext):
        beg = m.end() - 1
        end = balanced(itext, beg)
        body = itext[beg + 1:end - 1]
        secs = split_top(body, ":")
        template = "".join(strings_of(secs[0]))
        if "rsp" not in template:
            continue
        f, ln = locate(starts, info, m.start())
        outs_c = [strings_of(x)[0] if strings_of(x) else "" for x in split_top(secs[1], ",")] if len(secs) > 1 and secs[1].strip() else []
        ins_c = [strings_of(x)[0] if strings_of(x) else "" for x in split_top(secs[2], ",")] if len(secs) > 2 and secs[2].strip() else []
        clob = [c for x in (split_top(secs[3], ",") if len(secs) > 3 and secs[3].strip() else []) for c in strings_of(x)]
        outs = [constraint_reg(c, []) for c in outs_c]
        ins = [constraint_reg(c, outs) for c in ins_c]
        cl = []
        for c in clob:
            c2 = c.strip().lstrip("%")
            if c2 in REGS:
                cl.append(REGS[c2])
        tl = [x.strip() for x in template.replace(";", "\n").split("\n") if x.strip()]
        res.append({"file": f, "line": ln, "template": tl,
                    "outs_text": outs_c, "ins_text": ins_c, "clobbers_text": clob,
                    "outs": [r for r in outs if r], "ins": [r for r in ins if r], "clobs": cl,
                    "free_operands": sum(1 for r in outs + ins if r is None),
                    "mem": "memory" in clob, "cc": "cc" in clob})
    return res


def function_body(itext, name):
    for m in re.finditer(r"\b" + re.escape(name) + r"\s*\(", itext):
        end = balanced(itext, m.end() - 1)
        j = end
        while j < len(itext) and itext[j] in " \t\r\n":
            j += 1
        if j < len(itext) and itext[j] == "{":
            depth, k = 0, j
            while k < len(itext):
                if itext[k] == "{":
                    depth += 1
                elif itext[k] == "}":
                    depth -= 1
                    if depth == 0:
                        return itext[j + 1:k]
                k += 1
    return None


def parse_mk(body):
    """body of myth_make_context_* (amd64 branch after preprocessing) -> (list of Coq mkop terms, statements)"""
    if body is None:
        return ["MkUnknown 0"], ["<function not found>"]
    body = re.sub(r'^#.*$', "", body, flags=re.M)
    stmts = [re.sub(r"\s+", " ", s).strip() for s in body.split(";")]
    stmts = [s for s in stmts if s]
    ops, dest_off, started = [], None, False
    N = r"(0[xX][0-9a-fA-F]+|\d+)(?:[uUlL]*)"
    for k, s in enumerate(stmts):
        if re.match(r"^\(void\) ?\w+$", s):
            continue
        if re.match(r"^uint64_t stack_tail = \(uint64_t\) ?stack$", s):
            if started or ops:
                ops.append("MkUnknown %d" % k)
            started = True
            continue
        m = re.match(r"^stack_tail (-|\+|&)= " + N + "$", s)
        if m and started:
            v = num(m.group(2))
            ops.append({"-": "MkSub %d", "+": "MkAdd %d", "&": "MkAnd %d"}[m.group(1)] % v)
            dest_off = None      # a later store through dest_addr would use the old value
            continue
        if re.match(r"^uint64_t ?\* ?dest_addr$", s):
            continue
        m = re.match(r"^dest_addr = \(uint64_t ?\*\) ?(?:stack_tail|\(stack_tail ?([-+]) ?" + N + r"\))$", s)
        if m and started:
            dest_off = 0 if not m.group(1) else (num(m.group(2)) * (-1 if m.group(1) == "-" else 1))
            continue
        m = re.match(r"^ctx ?-> ?rsp = stack_tail(?: ?([-+]) ?" + N + ")?$", s)
        if m and started:
            off = 0 if not m.group(1) else (num(m.group(2)) * (-1 if m.group(1) == "-" else 1))
            ops.append("MkSetRsp %s" % zlit(off))
            continue
        if re.match(r"^\* ?dest_addr = \(uint64_t\) ?func$", s) and started and dest_off is not None:
            ops.append("MkStoreFunc %s" % zlit(dest_off))
            continue
        ops.append("MkUnknown %d" % k)
    return ops, stmts


# ---------------------------------------------------------------------------------------------
# driver
# ---------------------------------------------------------------------------------------------

def mnemonics(instrs):
    out = []
    for t in instrs:
        w = t.split()
        m = w[0]
        if m.endswith(":"):
            out.append("L")
        elif m.startswith("call"):
            out.append("call " + re.sub(r"@PLT$", "", w[1]) if len(w) > 1 else "call")
        else:
            out.append(re.sub(r"[ql]$", "", m) if m not in ("call",) else m)
    return out


def match_decl(site, decls):
    """the asm statement of the preprocessed source that this compiler-output statement comes from:
    same file and line, same sequence of mnemonics and call targets (None if there is no such)"""
    want = mnemonics(site["text"])
    cands = [d for d in decls if d["file"] == site["file"] and d["line"] == site["line"]
             and mnemonics(d["template"]) == want]
    return cands[0] if cands else None


def translate(outdir, opts):
    """returns dict(sites=[...], others=..., mk=..., calls=[names], sources={path: sha})"""
    files = compile_all(outdir, opts)
    calls, sites, others, per_tu = [], [], {}, {}
    mk = carve = None
    itexts = {}
    sources = {}
    for (tu, opt), (spath, ipath) in sorted(files.items(), key=lambda kv: (opts.index(kv[0][1]), vlib.COMMON_SRCS.index(kv[0][0]))):
        stext = open(spath, errors="replace").read()
        itext = open(ipath, errors="replace").read()
        decls = asm_decls(itext)
        if opt == opts[0]:
            itexts[tu] = itext
        n = 0
        for f, ln, ins in asm_statements(stext):
            if not touches_rsp(ins):
                continue
            if not writes_rsp(ins):
                key = " ; ".join(re.sub(r"-?\d+\(%rsp\)", "N(%rsp)", re.sub(r"%e?[a-d]x|%e?[sd]i|%r\d+d?", "%reg", t)) for t in ins)
                others[key] = others.get(key, 0) + 1
                continue
            st = {"tu": tu, "opt": opt, "file": f, "line": ln, "text": ins}
            st["coq"] = [parse_instr(t, k, calls) for k, t in enumerate(ins)]
            d = match_decl(st, decls)
            st["decl"] = d
            sites.append(st)
            n += 1
        per_tu["%s %s" % (tu, opt)] = n
        if tu == "myth_sched.c" and mk is None:
            e_ops, e_st = parse_mk(function_body(itext, "myth_make_context_empty"))
            v_ops, v_st = parse_mk(function_body(itext, "myth_make_context_voidcall"))
            mk = {"empty": e_ops, "voidcall": v_ops, "empty_src": e_st, "voidcall_src": v_st}
            carve = extract_carve(itext)
        # which source files produced asm statements / make_context
    for p in sorted(set([s["file"] for s in sites] + [os.path.join(vlib.REPO, "src", x) for x in
                                                         ("myth_context_func.h", "myth_context.h", "myth_config.h")])):
        sources[p] = vlib.file_sha(p)
    sources[os.path.join(vlib.REPO, "src", "myth_sched_func.h")] = vlib.file_sha(os.path.join(vlib.REPO, "src", "myth_sched_func.h"))
    publish = extract_publish(itexts)
    for b in publish["bodies"]:
        sources.setdefault(b["file"], vlib.file_sha(b["file"]))
    return {"sites": sites, "others": others, "mk": mk, "carve": carve, "publish": publish, "calls": calls, "per_tu": per_tu, "sources": sources}


def coq_site(k, st):
    d = st["decl"]
    if d is None:
        outs = ins = clobs = "[]"
        mem = cc = "false"
    else:
        outs = "[" + "; ".join(d["outs"]) + "]"
        ins = "[" + "; ".join(d["ins"]) + "]"
        clobs = "[" + "; ".join(d["clobs"]) + "]"
        mem = "true" if d["mem"] else "false"
        cc = "true" if d["cc"] else "false"
    return ("(* %s %s  %s:%d *)\nDefinition site_%d : site :=\n  mkSite %d\n    [%s]\n    %s %s %s %s %s.\n"
            % (st["tu"], st["opt"], os.path.relpath(st["file"], vlib.REPO) if st["file"].startswith(vlib.REPO) else st["file"],
               st["line"], k, k, "; ".join(st["coq"]), outs, ins, clobs, mem, cc))


def coq_data(tr, header, with_proofs=True, module_imports="Ctx.X86Model Ctx.CtxCheckModel"):
    o = [header, "From Coq Require Import ZArith List Bool.",
         "From MT Require Import %s." % module_imports, "Import ListNotations.", "Local Open Scope Z_scope.", ""]
    o.append("(* callback table (ICall n): " + ", ".join("%d=%s" % (i, c) for i, c in enumerate(tr["calls"])) + " *)\n")
    for k, st in enumerate(tr["sites"]):
        o.append(coq_site(k, st))
    o.append("Definition sites : list site :=\n  [" + "; ".join("site_%d" % k for k in range(len(tr["sites"]))) + "].\n")
    o.append("Definition mk_empty_ops : list mkop := [" + "; ".join(tr["mk"]["empty"]) + "].")
    o.append("Definition mk_voidcall_ops : list mkop := [" + "; ".join(tr["mk"]["voidcall"]) + "].\n")
    o.append("(* custom-data carve-out of myth_create_ex_body, case custom_data_size > 0:\n" +
             "\n".join("     " + n.replace("*)", "* )") for n in tr["carve"]["notes"] + ["NOT UNDERSTOOD: " + u for u in tr["carve"]["unknown"]]) + " *)")
    o.append(coq_carve(tr["carve"]))
    o.append(coq_publish(tr["publish"]))
    return "\n".join(o) + "\n"


def digest(tr):
    """canonical text of what was extracted (for the evidence hash)"""
    h = hashlib.sha256()
    for st in tr["sites"]:
        h.update(("%s|%s|%s|%d|%s|%s\n" % (st["tu"], st["opt"], st["file"], st["line"], ";".join(st["coq"]),
                                         (st["decl"] or {}).get("clobbers_text"))).encode())
    h.update(repr(tr["mk"]).encode())
    h.update(repr([tr["carve"][k] for k in ("empty", "voidcall", "ptr", "copy_dst", "copy_len", "ok")]).encode())
    h.update(repr([(b["name"], b["events"]) for b in tr["publish"]["bodies"]]).encode())
    return h.hexdigest()


def distinct_sites(tr):
    """one representative per distinct (instructions, operand lists)"""
    seen, out = set(), []
    for st in tr["sites"]:
        d = st["decl"] or {}
        key = (tuple(st["coq"]), tuple(d.get("outs", [])), tuple(d.get("ins", [])), tuple(d.get("clobs", [])),
               d.get("mem"), d.get("cc"))
        if key not in seen:
            seen.add(key)
            out.append(st)
    return out


# ---------------------------------------------------------------------------------------------
# custom-data carve-out of myth_create_ex_body (src/myth_sched_func.h)
#
# Abstract interpretation of the preprocessed function body for the case custom_data_size > 0.
# Values are linear forms   s*stk + c + r*round16(size) + l*size   (stk = what the stack allocator
# returned, size = custom_data_size).  Tracked: every variable whose value derives from stk.  Calls to
# functions defined in the same translation unit whose body mentions custom_data_ptr are inlined with C's
# by-value parameter passing.  Anything that could change a tracked variable and is not understood
# makes the result `unknown` (the Coq checker then rejects).
# ---------------------------------------------------------------------------------------------

CAST = re.compile(r"\(\s*(?:const\s+|unsigned\s+|struct\s+)*(?:void|char|long|int|intptr_t|uintptr_t|size_t|uint64_t|int64_t)\s*\**\s*\)")


class Lin:
    def __init__(self, s=0, c=0, r=0, l=0):
        self.s, self.c, self.r, self.l = s, c, r, l

    def __add__(self, o):
        return Lin(self.s + o.s, self.c + o.c, self.r + o.r, self.l + o.l)

    def __sub__(self, o):
        return Lin(self.s - o.s, self.c - o.c, self.r - o.r, self.l - o.l)

    def const(self):
        return self.c if (self.s, self.r, self.l) == (0, 0, 0) else None

    def tup(self):
        return (self.s, self.c, self.r, self.l)

    def coq(self):
        return "mkLin %s %s %s %s" % tuple(zlit(x) for x in self.tup())

    def __repr__(self):
        return "%d*stk%+d%+d*round16(size)%+d*size" % self.tup()


class Unknown(Exception):
    pass


def tokenize(e):
    toks = re.findall(r"0[xX][0-9a-fA-F]+[uUlL]*|\d+[uUlL]*|[A-Za-z_]\w*(?:\s*->\s*\w+)*|<<|>>|[-+&~()*]", e)
    if "".join(toks).replace(" ", "") != re.sub(r"\s+", "", e).replace(" ", ""):
        raise Unknown("cannot tokenize: " + e)
    return toks


class ExprParser:
    """+ - << >> & ~ over linear forms; recognises round16 as ((x+15)>>4)<<4 and (x+15)&~15"""

    def __init__(self, toks, env):
        self.t, self.i, self.env = toks, 0, env

    def peek(self):
        return self.t[self.i] if self.i < len(self.t) else None

    def eat(self, x=None):
        tok = self.peek()
        if x is not None and tok != x:
            raise Unknown("expected %s got %s" % (x, tok))
        self.i += 1
        return tok

    def parse(self):
        v = self.p_and()
        if self.peek() is not None:
            raise Unknown("trailing tokens")
        return v

    def p_and(self):
        v = self.p_shift()
        while self.peek() == "&":
            self.eat()
            w = self.p_shift()
            v = self.do_and(v, w)
        return v

    def do_and(self, v, w):
        if isinstance(v, Lin) and isinstance(w, Lin) and w.const() is not None and w.const() in (-16, 2 ** 64 - 16):
            if v.tup() == (0, 15, 0, 1):
                return Lin(0, 0, 1, 0)
        raise Unknown("& not understood")

    def p_shift(self):
        v = self.p_add()
        while self.peek() in ("<<", ">>"):
            op = self.eat()
            w = self.p_add()
            if not (isinstance(w, Lin) and w.const() == 4):
                raise Unknown("shift amount")
            if op == ">>" and isinstance(v, Lin) and v.tup() == (0, 15, 0, 1):
                v = ("shr4",)
            elif op == "<<" and v == ("shr4",):
                v = Lin(0, 0, 1, 0)
            else:
                raise Unknown("shift not understood")
        return v

    def p_add(self):
        v = self.p_unary()
        while self.peek() in ("+", "-"):
            op = self.eat()
            w = self.p_unary()
            if not (isinstance(v, Lin) and isinstance(w, Lin)):
                raise Unknown("arith on non-linear")
            v = v + w if op == "+" else v - w
        return v

    def p_unary(self):
        tok = self.peek()
        if tok == "-":
            self.eat()
            v = self.p_unary()
            if not isinstance(v, Lin):
                raise Unknown("neg")
            return Lin() - v
        if tok == "~":
            self.eat()
            v = self.p_unary()
            if isinstance(v, Lin) and v.const() is not None:
                return Lin(0, -v.const() - 1)
            raise Unknown("~")
        if tok == "(":
            self.eat()
            v = self.p_and()
            self.eat(")")
            return v
        if tok is None:
            raise Unknown("unexpected end")
        self.eat()
        if re.match(r"^(0[xX][0-9a-fA-F]+|\d+)", tok):
            return Lin(0, num(re.sub(r"[uUlL]+$", "", tok)))
        name = re.sub(r"\s+", "", tok)
        if name in self.env:
            return self.env[name]
        raise Unknown("unknown identifier " + name)


def eval_expr(e, env):
    e = CAST.sub(" ", e)
    return ExprParser(tokenize(e.strip()), env).parse()


def split_statements(body):
    """top-level items of a block: ('if', cond, then, else) | ('block', text) | ('stmt', text)"""
    items, i, n = [], 0, len(body)
    while i < n:
        if body[i] in " \t\r\n;":
            i += 1
            continue
        m = re.match(r"if\s*\(", body[i:])
        if m:
            j = balanced(body, i + m.end() - 1)
            cond = body[i + m.end():j - 1]
            then, k = take_substatement(body, j)
            els = None
            m2 = re.match(r"\s*else\b", body[k:])
            if m2:
                els, k = take_substatement(body, k + m2.end())
            items.append(("if", cond.strip(), then, els))
            i = k
            continue
        if body[i] == "{":
            j = match_brace(body, i)
            items.append(("block", body[i + 1:j]))
            i = j + 1
            continue
        m = re.match(r"do\s*\{", body[i:])
        if m:
            j = match_brace(body, i + m.end() - 1)
            k = body.index(";", j)
            items.append(("stmt", body[i:k]))
            i = k + 1
            continue
        # plain statement up to the next top-level ';'
        depth, k = 0, i
        while k < n:
            ch = body[k]
            if ch == '"':
                k += 1
                while k < n and body[k] != '"':
                    k += 2 if body[k] == "\\" else 1
            elif ch in "([{":
                depth += 1
            elif ch in ")]}":
                depth -= 1
            elif ch == ";" and depth == 0:
                break
            k += 1
        items.append(("stmt", body[i:k]))
        i = k + 1
    return items


def match_brace(text, i):
    depth = 0
    while i < len(text):
        if text[i] == '"':
            i += 1
            while i < len(text) and text[i] != '"':
                i += 2 if text[i] == "\\" else 1
        elif text[i] == "{":
            depth += 1
        elif text[i] == "}":
            depth -= 1
            if depth == 0:
                return i
        i += 1
    return len(text) - 1


def take_substatement(body, i):
    while i < len(body) and body[i] in " \t\r\n":
        i += 1
    if i < len(body) and body[i] == "{":
        j = match_brace(body, i)
        return body[i + 1:j], j + 1
    items = split_statements_one(body, i)
    return items


def split_statements_one(body, i):
    depth, k = 0, i
    while k < len(body):
        ch = body[k]
        if ch in "([{":
            depth += 1
        elif ch in ")]}":
            depth -= 1
        elif ch == ";" and depth == 0:
            break
        k += 1
    return body[i:k + 1], k + 1


def function_def(itext, name):
    """(parameter names, body) of a function defined in the preprocessed text"""
    for m in re.finditer(r"\b" + re.escape(name) + r"\s*\(", itext):
        end = balanced(itext, m.end() - 1)
        j = end
        while j < len(itext) and itext[j] in " \t\r\n":
            j += 1
        if j < len(itext) and itext[j] == "{":
            params = [re.findall(r"[A-Za-z_]\w*", p)[-1] for p in split_top(itext[m.end():end - 1], ",") if re.findall(r"[A-Za-z_]\w*", p)]
            k = match_brace(itext, j)
            return params, re.sub(r"^#.*$", "", itext[j + 1:k], flags=re.M)
    return None


class Carve:
    def __init__(self, itext):
        self.itext = itext
        self.notes, self.unknown = [], []
        self.sinks = {}          # 'empty' / 'voidcall' -> Lin
        self.ptr = None          # value assigned to ->custom_data_ptr
        self.copy = None         # (dst, len) of the memcpy of the hint
        self.stack_field = None
        self.depth = 0

    def tracked(self, env):
        return [k for k in env if k not in ("custom_data_size",)]

    def mentions(self, text, env):
        return [v for v in self.tracked(env) if re.search(r"(?<![\w>.])" + re.escape(v) + r"\b", text)]

    def run_block(self, body, env):
        for it in split_statements(body):
            if it[0] == "block":
                self.run_block(it[1], env)
            elif it[0] == "if":
                cond = re.sub(r"\s+", " ", it[1])
                if re.match(r"^custom_data_size ?> ?0$", cond) or re.match(r"^custom_data_size$", cond):
                    self.run_block(it[2], env)          # the case analysed: custom_data_size > 0
                elif re.match(r"^child_first$", cond):
                    self.run_block(it[2], env)
                    if it[3] is not None:
                        self.run_block(it[3], env)      # both branches only read the tracked variables (checked below)
                else:
                    whole = it[2] + (it[3] or "")
                    if self.modifies(whole, env) or "make_context" in whole or "custom_data_ptr" in whole:
                        self.unknown.append("conditional not understood: if (%s)" % cond)
            else:
                self.run_stmt(re.sub(r"\s+", " ", it[1]).strip(), env)

    def modifies(self, text, env):
        for v in self.mentions(text, env):
            if re.search(r"&\s*" + re.escape(v) + r"\b", text) or \
               re.search(r"(?<![\w>.])" + re.escape(v) + r"\s*(?:[-+&|^*/]|<<|>>)?=(?!=)", text) or \
               re.search(r"(\+\+|--)\s*" + re.escape(v) + r"\b|\b" + re.escape(v) + r"\s*(\+\+|--)", text):
                return True
        return False

    def run_stmt(self, s, env):
        if not s:
            return
        # declaration with initialiser / assignment of a tracked variable
        m = re.match(r"^(?:(?:const |unsigned |struct )*(?:void|char|intptr_t|uintptr_t|size_t|uint64_t|long|int) ?\*? ?)?([A-Za-z_]\w*) ?(=|-=|\+=) ?(.+)$", s)
        if m and not re.match(r"^(return|if|while|for)\b", s):
            var, op, rhs = m.groups()
            is_src = re.match(r"^get_new_myth_thread_struct_stack ?\(", rhs) is not None
            if is_src:
                env[var] = Lin(1, 0, 0, 0)
                self.notes.append("%s := stack top from the allocator" % var)
                return
            touches = self.mentions(rhs, env) or var in env
            if not touches:
                return
            if var == "custom_data_size":
                if not re.search(r"attr ?-> ?custom_data_size", rhs):
                    self.unknown.append("custom_data_size reassigned: " + s)
                return
            try:
                val = eval_expr(rhs, env)
                if not isinstance(val, Lin):
                    raise Unknown("non-linear value")
                if op == "=":
                    env[var] = val
                elif var in env:
                    env[var] = env[var] - val if op == "-=" else env[var] + val
                else:
                    raise Unknown("compound assignment to untracked variable")
                self.notes.append("%s %s %s   => %s = %r" % (var, op, rhs, var, env[var]))
            except Unknown as e:
                self.unknown.append("%s  (%s)" % (s, e))
                env.pop(var, None)
            return
        # field assignment  x->f = e
        m = re.match(r"^([A-Za-z_]\w*) ?-> ?(\w+) ?= ?(.+)$", s)
        if m:
            obj, fld, rhs = m.groups()
            if fld == "custom_data_ptr":
                try:
                    self.ptr = eval_expr(rhs, env)
                    self.notes.append("->custom_data_ptr = %s   => %r" % (rhs, self.ptr))
                except Unknown as e:
                    self.unknown.append("%s  (%s)" % (s, e))
            elif self.mentions(rhs, env) and fld == "stack":
                self.stack_field = rhs
            elif self.modifies(rhs, env):
                self.unknown.append(s)
            return
        # calls
        m = re.match(r"^([A-Za-z_]\w*) ?\((.*)\)$", s)
        if m:
            f, args = m.group(1), split_top(m.group(2), ",")
            if f == "memcpy" and len(args) == 3 and (self.mentions(args[0], env) or "custom_data" in args[1]):
                try:
                    self.copy = (eval_expr(args[0], env), eval_expr(args[2], env))
                    self.notes.append("memcpy(%s, .., %s)" % (args[0].strip(), args[2].strip()))
                except Unknown as e:
                    self.unknown.append("%s  (%s)" % (s, e))
                return
            if f in ("myth_make_context_empty", "myth_make_context_voidcall"):
                a = args[1] if f.endswith("empty") else args[2]
                try:
                    self.sinks[f[len("myth_make_context_"):]] = eval_expr(a, env)
                    self.notes.append("%s(.., %s, ..)   => stack top %r" % (f, a.strip(), self.sinks[f[len("myth_make_context_"):]]))
                except Unknown as e:
                    self.unknown.append("%s  (%s)" % (s, e))
                return
            if self.modifies(s, env):
                self.unknown.append("address of a tracked variable escapes: " + s)
                return
            d = function_def(self.itext, f)
            if d and ("custom_data_ptr" in d[1] or "make_context" in d[1]) and self.depth < 3:
                params, body = d
                if len(params) != len(args):
                    self.unknown.append("call with unexpected arity: " + s)
                    return
                cenv = {}
                for p, a in zip(params, args):
                    a = a.strip()
                    if re.sub(r"\s+", "", CAST.sub("", a)) == "custom_data_size":
                        if p != "custom_data_size":
                            body = re.sub(r"\b" + re.escape(p) + r"\b", "custom_data_size", body)
                        continue
                    if self.mentions(a, env):
                        try:
                            cenv[p] = eval_expr(a, env)      # passed BY VALUE: the callee works on a copy
                        except Unknown as e:
                            self.unknown.append("%s  (%s)" % (s, e))
                cenv["custom_data_size"] = env["custom_data_size"]
                self.notes.append("inlining %s(%s) with by-value parameters %s" % (f, ", ".join(x.strip() for x in args), sorted(cenv)))
                self.depth += 1
                self.run_block(body, cenv)
                self.depth -= 1
            return
        if self.modifies(s, env):
            self.unknown.append("statement not understood: " + s[:120])


def extract_carve(itext):
    body = function_body(itext, "myth_create_ex_body")
    if body is None:
        return {"ok": False, "unknown": ["myth_create_ex_body not found"], "notes": [], "empty": None, "voidcall": None,
                "ptr": None, "copy_dst": None, "copy_len": None}
    body = re.sub(r"^#.*$", "", body, flags=re.M)
    c = Carve(itext)
    env = {"custom_data_size": Lin(0, 0, 0, 1)}
    c.run_block(body, env)
    for k in ("empty", "voidcall"):
        if not isinstance(c.sinks.get(k), Lin):
            c.unknown.append("no call of myth_make_context_%s with an understood stack top" % k)
    if not isinstance(c.ptr, Lin):
        c.unknown.append("no understood assignment to ->custom_data_ptr")
    if c.copy is None or not all(isinstance(x, Lin) for x in c.copy):
        c.unknown.append("no understood memcpy of the hint")
    g = lambda v: v if isinstance(v, Lin) else None
    return {"ok": not c.unknown, "unknown": c.unknown, "notes": c.notes, "empty": g(c.sinks.get("empty")),
            "voidcall": g(c.sinks.get("voidcall")), "ptr": g(c.ptr),
            "copy_dst": g(c.copy[0]) if c.copy else None, "copy_len": g(c.copy[1]) if c.copy else None}


def coq_carve(cv):
    o = lambda v: "(Some (%s))" % v.coq() if v is not None else "None"
    return ("Definition cd_layout : carve :=\n  mkCarve %s %s %s %s %s %s.\n"
            % (o(cv["empty"]), o(cv["voidcall"]), o(cv["ptr"]), o(cv["copy_dst"]), o(cv["copy_len"]), "true" if cv["ok"] else "false"))


# ---------------------------------------------------------------------------------------------
# publication of the running thread versus the save of its context
#
# For every function defined in a library translation unit that is NOT a context-switch callback (the callbacks
# are the call targets inside the switching asm statements) the ordered list of events
#   PPubSelf            the running thread (an alias of env->this_thread, or the thread whose context the function's
#                       switch statement saves) is handed to a publishing operation (run-queue push/put/pass, sleep
#                       queue / stack enqueue, store into a ->th / ->join_thread field), directly or through a helper
#                       function that publishes the corresponding parameter
#   PPubOther           another thread is published
#   PSwitchCall n       switch with callback n that saves the running thread's context
#   PSwitchPlainThread  switch WITHOUT callback that saves a thread's context
#   PSwitchPlainSched   switch without callback that saves the scheduler's context (env->sched.context)
#   PSetCall n / PSetPlain   switch that saves nothing (the running thread has finished)
# ---------------------------------------------------------------------------------------------

PUBLISH_OPS = ["myth_queue_put", "myth_queue_push", "myth_queue_pass", "myth_queue_trypass",
               "myth_sleep_queue_enq_th", "myth_sleep_queue_enq", "myth_sleep_stack_push_th", "myth_sleep_stack_push"]
PUBLISH_FIELDS = ["th", "join_thread"]
_KEYWORDS = {"if", "while", "for", "switch", "return", "sizeof", "do", "else", "asm", "__asm__", "__attribute__", "defined"}


def function_defs(itext):
    """{name: (params, body, file, line)} of every function definition in a preprocessed translation unit"""
    starts, info = line_map(itext)
    res, i, n, depth = {}, 0, len(itext), 0
    while i < n:
        c = itext[i]
        if c == '"':
            i += 1
            while i < n and itext[i] != '"':
                i += 2 if itext[i] == "\\" else 1
        elif c == "'":
            i += 1
            while i < n and itext[i] != "'":
                i += 2 if itext[i] == "\\" else 1
        elif c == "{":
            if depth == 0:
                j = i - 1
                while j >= 0 and itext[j] in " \t\r\n":
                    j -= 1
                end = match_brace(itext, i)
                if j >= 0 and itext[j] == ")":
                    # find the matching '(' backwards
                    d, k = 0, j
                    while k >= 0:
                        if itext[k] == ")":
                            d += 1
                        elif itext[k] == "(":
                            d -= 1
                            if d == 0:
                                break
                        k -= 1
                    base = max(0, k - 160)
                    m = re.search(r"([A-Za-z_]\w*)\s*$", itext[base:k])
                    if m and m.group(1) not in _KEYWORDS:
                        params = []
                        for p in split_top(itext[k + 1:j], ","):
                            ids = re.findall(r"[A-Za-z_]\w*", p)
                            params.append(ids[-1] if ids else "")
                        f, ln = locate(starts, info, base + m.start(1))
                        res[m.group(1)] = (params, re.sub(r"^#.*$", "", itext[i + 1:end], flags=re.M), f, ln)
                i = end
            else:
                depth += 1
        elif c == "}":
            depth = max(0, depth - 1)
        i += 1
    return res


def strip_casts(a):
    a = CAST.sub(" ", a)
    a = re.sub(r"\(\s*(?:struct\s+)?\w+_t\s*\**\s*\)", " ", a)
    a = a.strip()
    while a.startswith("(") and balanced(a, 0) == len(a):
        a = a[1:-1].strip()
    return a


def body_events(name, params, body, defs, callbacks, helper_pub, calls_tbl):
    """ordered [(pos, event, detail)] of one non-callback function body"""
    ev = []
    selfs = set(re.findall(r"\b([A-Za-z_]\w*)\s*=[^=;]*?->\s*this_thread\b", body))
    selfs |= set(re.findall(r"\b([A-Za-z_]\w*)\s*=\s*myth_self_body\s*\(", body))
    # switching asm statements
    for m in re.finditer(r"\b(?:asm|__asm__)\b\s*(?:volatile|__volatile__)?\s*\(", body):
        beg = m.end() - 1
        end = balanced(body, beg)
        secs = split_top(body[beg + 1:end - 1], ":")
        tmpl = "".join(strings_of(secs[0]))
        if "rsp" not in tmpl or not re.search(r"mov[q]?\s+[^\n]*,\s*%%?rsp|push|pop", tmpl):
            continue
        saves = re.search(r"mov[q]?\s+%%?rsp\s*,", tmpl) is not None
        cm = re.search(r"call[q]?\s+([A-Za-z_]\w*)", tmpl)
        ins = split_top(secs[2], ",") if len(secs) > 2 else []
        frm = strip_casts(re.sub(r'^\s*"[^"]*"\s*', "", ins[0])) if ins else ""
        frm = strip_casts(frm[1:-1]) if frm.startswith("(") and frm.endswith(")") else frm
        if saves:
            fm = re.match(r"^&\s*\(?\s*([A-Za-z_]\w*)\s*\)?\s*->\s*context$", frm)
            if fm:
                selfs.add(fm.group(1))
                kind = ("PSwitchCall", cm.group(1)) if cm else ("PSwitchPlainThread", frm)
            elif re.search(r"sched\s*\.\s*context$", frm):
                kind = ("PSwitchCallSched", cm.group(1)) if cm else ("PSwitchPlainSched", frm)
            else:
                kind = ("PSwitchCall", cm.group(1)) if cm else ("PSwitchPlainThread", frm or "?")
        else:
            kind = ("PSetCall", cm.group(1)) if cm else ("PSetPlain", "")
        ev.append((m.start(), kind[0], kind[1]))
    asm_spans = [(m.start(), balanced(body, m.end() - 1)) for m in re.finditer(r"\b(?:asm|__asm__)\b\s*(?:volatile|__volatile__)?\s*\(", body)]
    in_asm = lambda p: any(a <= p < b for a, b in asm_spans)
    is_self = lambda a: strip_casts(a) in selfs
    # publishing operations and helpers
    for m in re.finditer(r"\b([A-Za-z_]\w*)\s*\(", body):
        f = m.group(1)
        if in_asm(m.start()) or f in _KEYWORDS:
            continue
        if f in PUBLISH_OPS or f in helper_pub:
            end = balanced(body, m.end() - 1)
            args = split_top(body[m.end():end - 1], ",")
            idxs = [len(args) - 1] if f in PUBLISH_OPS else sorted(helper_pub[f])
            for k in idxs:
                if k < len(args):
                    a = strip_casts(args[k])
                    ev.append((m.start(), "PPubSelf" if is_self(a) else "PPubOther", "%s(%s)" % (f, a)))
    for m in re.finditer(r"->\s*(%s)\s*=(?!=)\s*([^;]+);" % "|".join(PUBLISH_FIELDS), body):
        if in_asm(m.start()):
            continue
        a = strip_casts(m.group(2))
        if re.match(r"^(0|NULL|\(\(void ?\*\)0\))$", a):
            continue
        ev.append((m.start(), "PPubSelf" if is_self(a) else "PPubOther", "->%s = %s" % (m.group(1), a)))
    ev.sort()
    return ev, selfs


def extract_publish(itexts):
    """itexts: {tu: preprocessed text}.  Returns {"bodies": [{name, file, line, tus, events:[(event, detail)]}], "callbacks": [...]}"""
    callbacks = set()
    alldefs = {}
    for tu, it in itexts.items():
        for d in asm_decls(it):
            for tl in d["template"]:
                m = re.match(r"call[q]?\s+([A-Za-z_]\w*)", tl)
                if m:
                    callbacks.add(m.group(1))
        for name, v in function_defs(it).items():
            alldefs.setdefault(name, []).append((tu,) + v)
    # helpers that publish one of their parameters (one level; callbacks excluded)
    helper_pub = {}
    for name, vs in alldefs.items():
        if name in callbacks or name in PUBLISH_OPS:
            continue
        tu, params, body, f, ln = vs[0]
        for m in re.finditer(r"\b(%s)\s*\(" % "|".join(PUBLISH_OPS), body):
            end = balanced(body, m.end() - 1)
            args = split_top(body[m.end():end - 1], ",")
            a = strip_casts(args[-1]) if args else ""
            if a in params:
                helper_pub.setdefault(name, set()).add(params.index(a))
        for m in re.finditer(r"->\s*(%s)\s*=(?!=)\s*([^;]+);" % "|".join(PUBLISH_FIELDS), body):
            a = strip_casts(m.group(2))
            if a in params:
                helper_pub.setdefault(name, set()).add(params.index(a))
    bodies, seen = [], {}
    cb_names = sorted(callbacks)
    for name in sorted(alldefs):
        if name in callbacks:
            continue
        for tu, params, body, f, ln in alldefs[name]:
            key = (name, hashlib.sha1(body.encode()).hexdigest())
            if key in seen:
                seen[key]["tus"].append(tu)
                continue
            ev, selfs = body_events(name, params, body, alldefs, callbacks, helper_pub, None)
            if not any(e[1].startswith(("PSwitch", "PSet")) or e[1] == "PPubSelf" for e in ev):
                continue
            b = {"name": name, "file": f, "line": ln, "tus": [tu], "self_aliases": sorted(selfs),
                 "events": [(e[1], e[2]) for e in ev]}
            seen[key] = b
            bodies.append(b)
    return {"bodies": bodies, "callbacks": cb_names,
            "helpers_publishing_a_parameter": {k: sorted(v) for k, v in helper_pub.items()}}


def coq_publish(pb):
    cbs = pb["callbacks"]
    o = ["(* publication of the running thread vs. the save of its context, per non-callback function body;",
         "   callbacks (PSwitchCall n / PSetCall n): " + ", ".join("%d=%s" % (i, c) for i, c in enumerate(cbs)) + " *)"]
    names = []
    for k, b in enumerate(pb["bodies"]):
        evs = []
        for e, d in b["events"]:
            if e in ("PSwitchCall", "PSwitchCallSched", "PSetCall"):
                evs.append("%s %d" % (e, cbs.index(d) if d in cbs else 999))
            else:
                evs.append(e)
        o.append("(* %s  (%s:%d)  %s *)" % (b["name"], os.path.relpath(b["file"], vlib.REPO) if b["file"].startswith(vlib.REPO) else b["file"], b["line"],
                                           "; ".join("%s %s" % (e, d) for e, d in b["events"]).replace("*)", "* )")))
        o.append("Definition body_%d : list pev := [%s]." % (k, "; ".join(evs)))
        names.append("body_%d" % k)
    o.append("Definition bodies : list (list pev) := [%s].\n" % "; ".join(names))
    return "\n".join(o) + "\n"


if __name__ == "__main__":
    # python3 tools/translate_ctx.py --pinned : regenerate coq/Ctx/CtxAsmPinned.v (a committed snapshot of the
    # distinct sites of the tree at hand, -O0; used only for the non-vacuity Examples of Properties_C03.v)
    import sys
    if "--pinned" in sys.argv:
        tr = translate(os.path.join(vlib.BUILD, "C03", "pin"), ["-O0"])
        tr["sites"] = distinct_sites(tr)
        txt = coq_data(tr, "(** Snapshot of the distinct context-switch asm statements of the pinned tree (gcc -S -O0),\n"
                           "    written by `python3 tools/translate_ctx.py --pinned`.  Used only for the Examples of\n"
                           "    Properties_C03.v; the check regenerates the data from the current tree on every run\n"
                           "    (build/C03/gen/CtxAsmGen.v). *)")
        open(os.path.join(vlib.COQ, "Ctx", "CtxAsmPinned.v"), "w").write(txt)
        print("wrote coq/Ctx/CtxAsmPinned.v with %d sites" % len(tr["sites"]))
