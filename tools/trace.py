"""Library-level controlled runs (harness/lib_interp.c) and projection of their traces onto the
per-object protocol models (DESIGN.md 2.4.2, strength (ii): per-object projection).

A *case* is the text of a case file (see lib_interp.c).  run_case() executes it on the real library
built from vlib.REPO with -DMYTH_VERIF under the schedule controller and returns the parsed trace.
"""
import os, re, subprocess
import vlib


def build_interp(ctx_dir=None):
    lib = vlib.build_lib()
    d = ctx_dir or os.path.join(vlib.BUILD, "li")
    key = vlib.sha(vlib.file_sha(lib), vlib.file_sha(os.path.join(vlib.VERIF, "harness", "lib_interp.c")))[:12]
    exe = os.path.join(vlib.BUILD, "li", "lib_interp-" + key)
    with vlib.Lock("li-" + key):
        if not os.path.exists(exe):
            vlib.cc(exe + ".tmp", [os.path.join(vlib.VERIF, "harness", "lib_interp.c")],
                    flags=vlib.lib_cflags() + ["-O0", "-g"], libs=[lib, "-lpthread", "-ldl", "-lrt"])
            os.rename(exe + ".tmp", exe)
            # keep the directory small
            olds = sorted((os.path.getmtime(os.path.join(vlib.BUILD, "li", f)), f)
                          for f in os.listdir(os.path.join(vlib.BUILD, "li")) if f.startswith("lib_interp-"))
            now = __import__("time").time()
            for mt, f in olds[:-12]:
                if now - mt > 7200:      # never remove a binary a concurrent check may be running
                    try:
                        os.remove(os.path.join(vlib.BUILD, "li", f))
                    except OSError:
                        pass
    return exe


class Ev:
    __slots__ = ("kind", "step", "w", "actor", "ctx", "words", "snap", "raw")

    def __repr__(self):
        return self.raw


def parse_trace(text):
    evs, verdict = [], None
    for line in text.split("\n"):
        if not line:
            continue
        k = line[0]
        if k == "V":
            verdict = line[2:]
            continue
        if k not in "CRPSE":
            continue
        e = Ev()
        e.raw = line
        e.kind = k
        head, _, snap = line.partition(" | ")
        w = head.split()
        # a library that crashes mid-run leaves a cut last line: skip anything malformed
        if len(w) < 5 or not w[1].isdigit() or not (w[2][:1] == "w" and w[2][1:].isdigit()):
            continue
        e.step = int(w[1])
        e.w = int(w[2][1:])
        a = w[3]
        if a[0] in "tc" and a[1:].isdigit():
            e.actor, e.ctx = int(a[1:]), ("c" if a[0] == "c" else "m")
        else:
            e.actor, e.ctx = None, "m"
        e.words = w[4:]
        e.snap = snap
        evs.append(e)
    return evs, verdict


def run_case(exe, case_text, workdir, name="case", timeout=60):
    os.makedirs(workdir, exist_ok=True)
    cp = os.path.join(workdir, name + ".case")
    tp = os.path.join(workdir, name + ".trace")
    with open(cp, "w") as f:
        f.write(case_text)
    try:
        os.remove(tp)
    except OSError:
        pass
    rc, out = vlib.sh([exe, cp, tp], timeout=timeout, cwd=workdir)
    txt = open(tp, errors="replace").read() if os.path.exists(tp) else ""
    evs, verdict = parse_trace(txt)
    return {"rc": rc, "out": out, "events": evs, "verdict": verdict, "trace_path": tp, "case_path": cp,
            "trace_text": txt}


# ------------------------------------------------------------------------------------------------
# case text helpers
# ------------------------------------------------------------------------------------------------

def case_text(workers, seed, objs, threads, scripts=None, pswitch=35, extra=None, maxsteps=200000):
    """objs: list of 'name kind [param]' strings; threads: {tag: [op strings]}"""
    l = ["workers %d" % workers, "seed %d" % seed, "pswitch %d" % pswitch, "maxsteps %d" % maxsteps]
    for k, v in (extra or {}).items():
        l.append("%s %s" % (k, v))
    for o in objs:
        l.append("obj " + o)
    for t in sorted(threads):
        l.append("thread %d : %s" % (t, " ; ".join(threads[t]) if threads[t] else "nop"))
    for i, s in enumerate(scripts or []):
        l.append("script %d : %s" % (i, " ; ".join(s) if s else "nop"))
    return "\n".join(l) + "\n"


def parse_case(text):
    objs, threads, scripts, params = {}, {}, {}, {}
    for line in text.split("\n"):
        w = line.split()
        if not w:
            continue
        if w[0] == "obj":
            objs[w[1]] = (w[2], [int(x) for x in w[3:]])
        elif w[0] in ("thread", "script"):
            idx = int(w[1])
            ops = [o.split() for o in line.split(":", 1)[1].split(";") if o.split()]
            (threads if w[0] == "thread" else scripts)[idx] = ops
        else:
            params[w[0]] = " ".join(w[1:])
    return objs, threads, scripts, params


# ------------------------------------------------------------------------------------------------
# projection onto Abs(mutex, conds, felock)  (coq/Sync/SyncModel.v, ocaml/driver_Sync.ml)
# ------------------------------------------------------------------------------------------------

def sync_groups(case):
    """groups of objects that form one instance of the Sync model:
       {'mutex': name or None, 'conds': [names], 'felock': name or None}"""
    objs, threads, scripts, _ = parse_case(case)
    mut_conds = {}
    all_ops = [o for t in list(threads.values()) + list(scripts.values()) for o in t]
    for o in all_ops:
        if o[0] in ("cwait", "await"):
            mut_conds.setdefault(o[2], [])
            if o[1] not in mut_conds[o[2]]:
                mut_conds[o[2]].append(o[1])
    groups = []
    used_conds = set()
    for n, (k, _) in objs.items():
        if k == "mutex":
            cs = mut_conds.get(n, [])
            used_conds.update(cs)
            groups.append({"mutex": n, "conds": cs, "felock": None})
        elif k == "felock":
            groups.append({"mutex": None, "conds": [], "felock": n})
    for n, (k, _) in objs.items():
        if k == "cond" and n not in used_conds:
            groups.append({"mutex": None, "conds": [n], "felock": None})
    return groups, len(threads)


_Q = re.compile(r"\[([^\]]*)\]")


def _qlist(s):
    return [x[1:] for x in s.split(",") if x]


def _val(v):
    if v and v[0] == "t" and v[1:].isdigit():
        return v[1:]
    if v in ("-", "big", "t?"):
        return "-"
    return v


def sync_block(group, nthreads, events):
    """driver input block for one object group; returns (lines, index of trace event per line)"""
    names = set([group["mutex"]] + group["conds"] + [group["felock"]]) - {None}
    cidx = {c: i for i, c in enumerate(group["conds"])}
    nconds = 2 if group["felock"] else max(1, len(group["conds"]))
    lines, src = ["begin %d %d" % (nthreads, nconds)], [None]
    open_call = {}
    for e in events:
        if e.kind == "C":
            op = e.words
            m = None
            if op[0] in ("lock", "trylock", "timedlock", "unlock") and op[1] == group["mutex"]:
                m = op[0]
            elif op[0] == "cwait" and op[1] in cidx and op[2] == group["mutex"]:
                m = "cwait %d" % cidx[op[1]]
            elif op[0] in ("signal", "bcast") and op[1] in cidx:
                m = "%s %d" % (op[0], cidx[op[1]])
            elif op[0] in ("fewl", "fems") and op[1] == group["felock"]:
                m = "%s %s" % (op[0], op[2])
            elif op[0] in ("felock", "feunlock") and op[1] == group["felock"]:
                m = "lock" if op[0] == "felock" else "unlock"
            if m:
                lines.append("call %d %s" % (e.actor, m))
                src.append(e)
                open_call[e.actor] = True
        elif e.kind == "R":
            if open_call.get(e.actor):
                lines.append("ret %d %s" % (e.actor, e.words[1]))
                src.append(e)
                open_call[e.actor] = False
        elif e.kind == "P":
            pid, obj, val = e.words[0], e.words[1], e.words[2]
            if obj not in names or e.actor is None:
                continue
            qs = _Q.findall(e.snap)
            if obj == group["felock"]:
                st = re.search(r"status=(-?\d+)", e.snap).group(1)
                ms = re.search(r"state=(-?\d+)", e.snap).group(1)
                q = [_qlist(x) for x in qs]
                obs = "F %s %s %d %s %d %s %d %s" % (st, ms, len(q[0]), " ".join(q[0]), len(q[1]), " ".join(q[1]),
                                                     len(q[2]), " ".join(q[2]))
            elif obj == group["mutex"]:
                ms = re.search(r"state=(-?\d+)", e.snap).group(1)
                q = _qlist(qs[0])
                obs = "M %s %d %s" % (ms, len(q), " ".join(q))
            else:
                q = _qlist(qs[0])
                obs = "Q %d %d %s" % (cidx[obj], len(q), " ".join(q))
            lines.append("tick %d %s %d %s %s %s" % (e.actor, e.ctx, e.w, pid, _val(val), obs))
            src.append(e)
    lines.append("end")
    src.append(None)
    return lines, src


def validate_blocks(driver, blocks):
    """blocks: list of (lines, src).  Returns list of verdict strings ('ok N' / 'FAIL k reason')."""
    inp = "\n".join("\n".join(b[0]) for b in blocks) + "\n"
    rc, out = vlib.sh([driver], input=inp, timeout=600)
    res = [l for l in out.split("\n") if l.startswith(("ok", "FAIL"))]
    while len(res) < len(blocks):
        res.append("FAIL 0 driver produced no verdict (rc=%d): %s" % (rc, out[-300:]))
    return res
