#!/usr/bin/env python3
"""tools/claim.py Cxx [Cyy ...] : copy the 'Manifest text' block of notes/Cxx.md into claims.json and regenerate MANIFEST.json"""
import json, os, re, sys, subprocess
V = os.path.dirname(os.path.dirname(os.path.abspath(__file__)))
claims = json.load(open(os.path.join(V, "claims.json")))
for p in sys.argv[1:]:
    txt = open(os.path.join(V, "notes", p + ".md")).read()
    blk = txt[txt.index("## Manifest text"):]
    blk = blk.split("\n", 1)[1]
    nxt = re.search(r"^## ", blk, re.M)
    if nxt:
        blk = blk[:nxt.start()]
    fields = {}
    cur = None
    for line in blk.split("\n"):
        m = re.match(r"\s*[-*]?\s*`?(technique|level_text|level_note)`?\s*:\s*(.*)$", line)
        if m:
            cur = m.group(1)
            fields[cur] = m.group(2).strip()
        elif cur and line.strip():
            fields[cur] += " " + line.strip()
    for k in fields:
        fields[k] = fields[k].strip().strip("`").strip()
    assert all(k in fields for k in ("technique", "level_text", "level_note")), (p, list(fields))
    claims[p] = {"technique": fields["technique"], "text": fields["level_text"], "note": fields["level_note"],
                 "design_ref": "DESIGN.md section 4 " + p + "; notes/" + p + ".md"}
json.dump(claims, open(os.path.join(V, "claims.json"), "w"), indent=1)
subprocess.check_call([sys.executable, os.path.join(V, "tools", "gen_manifest.py")])
print("claimed:", sorted(k for k in claims if not k.startswith("_")))
