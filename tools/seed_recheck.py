#!/usr/bin/env python3
"""tools/seed_recheck.py [<id> ...]: re-run the current checks against every confirmed seeded change (patch applied to a
scratch copy of /repo's CURRENT tree) and record the outcome under "recheck" in /verif/seeded/<id>/meta.json."""
import json, os, subprocess, sys, glob, time, shutil
V = "/verif"
CHECKS = {"C01": ["C01", "C13"], "C13": ["C13", "C01"], "C16": ["C16", "C20"]}
args = sys.argv[1:]
shard = None
if args and args[0].startswith("--shard="):          # --shard=i/n : every n-th change starting at i
    i, n = args[0][8:].split("/"); shard = (int(i), int(n)); args = args[1:]
ids = args or sorted(os.path.basename(os.path.dirname(p)) for p in glob.glob(V + "/seeded/*/meta.json"))
if shard:
    ids = [x for k, x in enumerate(ids) if k % shard[1] == shard[0]]
for sid in ids:
    d = os.path.join(V, "seeded", sid)
    meta = json.load(open(os.path.join(d, "meta.json")))
    prop = sid.split("-")[0]      # C06-3, C06-r2-1
    scratch = "/tmp/recheck-" + sid
    subprocess.run([V + "/tools/scratch_repo.sh", scratch], stdout=subprocess.DEVNULL)
    r = subprocess.run("patch -p1 -s < %s/patch.diff" % d, shell=True, cwd=scratch, capture_output=True, text=True)
    out = {"at": time.strftime("%Y-%m-%d %H:%M:%S"), "patch_applies_to_current_tree": r.returncode == 0, "checks": {}}
    if r.returncode == 0:
        # the property's own check(s) and every check that was run when the change was confirmed
        cs = list(CHECKS.get(prop, [prop]))
        for c in meta.get("confirmation_by_orchestrator", {}).get("checks", {}):
            if c not in cs and c.startswith("C") and c[1:].isdigit():
                cs.append(c)
        for c in cs:
            p = subprocess.run("./check %s --tier quick" % c, shell=True, cwd=V, env=dict(os.environ, VERIF_REPO=scratch),
                               capture_output=True, text=True, timeout=3600)
            lines = [l for l in p.stdout.split("\n") if l.startswith(("OK", "VIOLATION", "KNOWN-FINDING", "  ("))]
            out["checks"][c] = {"rc": p.returncode, "lines": lines[:6]}
    else:
        out["note"] = "patch no longer applies (the file was changed by a later fix: commit): " + (r.stdout + r.stderr)[-300:]
    shutil.rmtree(scratch, ignore_errors=True)
    meta["recheck"] = out
    json.dump(meta, open(os.path.join(d, "meta.json"), "w"), indent=1)
    print(sid, out["patch_applies_to_current_tree"], {c: ("found" if any("VIOLATION" in l and "no-failing" not in l for l in v["lines"]) else "nfif" if any("no-failing" in l for l in v["lines"]) else "OK") for c, v in out["checks"].items()})
    sys.stdout.flush()
