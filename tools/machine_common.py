"""Whole-machine lock-step (DESIGN.md 2.4.2, strength (i)): the scheduler-level abstract machine
coq/Machine/MachineModel.v replayed against controlled runs of the real library.  lib_interp (case
option `msnap 1`) prints after every trace line the real this_thread of every worker and the real
contents of every run queue; the moves a worker made between two of its lines are read off the
trace; every move must be enabled in the model and the model's cur / dq must equal the library's
at every line."""
import os, re
import vlib, trace

MACHINE_VFILES = ["Machine/MachineModel.v"]
PUSH_IDS = ("wake1.push", "wakeany.push", "wakemany.push", "wakemanys.push", "uncond.sig.push")


def build_driver():
    return vlib.build_driver("Machine", "Extract_Machine.v", "driver_Machine.ml", MACHINE_VFILES)


def _lines(trace_text):
    """[(kind, worker, actor, words, snap_after_bar, machine_snapshot)] for every C/R/P/S/E line"""
    out = []
    for line in trace_text.split("\n"):
        if not line:
            continue
        if line[0] == "M":
            if out:
                out[-1][5] = line
            continue
        if line[0] not in "CRPSE":
            continue
        head, _, snap = line.partition(" | ")
        w = head.split()
        if len(w) < 5 or not (w[2][:1] == "w" and w[2][1:].isdigit()):
            continue                      # cut line of a crashed run
        out.append([w[0], int(w[2][1:]), w[3], w[4:], snap, None, line])
    return out


def _snap(mline):
    m = re.match(r"M cur=\[(.*?)\] dq=\[(.*)\]$", mline)
    if not m:
        return "snap ?"                   # cut line of a crashed run: the driver reports a mismatch
    cur = m.group(1).split(",")
    dqs = re.findall(r"\[([^\[\]]*)\]", m.group(2))
    return "snap " + " ".join(cur) + " | " + " | ".join(dqs)


def machine_block(case_text, trace_text):
    objs, threads, scripts, params = trace.parse_case(case_text)
    nw = int(params.get("workers", "2"))
    nt = max(threads) + 1 if threads else 1
    L = _lines(trace_text)
    nxt = {}
    last = {}
    for i in range(len(L) - 1, -1, -1):
        w = L[i][1]
        nxt[i] = last.get(w)
        last[w] = i
    out, src = ["begin %d %d" % (nw, nt)], [None]

    def emit(s, i):
        out.append(s)
        src.append(i)

    lastP = {}
    for i, (k, w, actor, words, snap, ms, raw) in enumerate(L):
        if ms:
            emit(_snap(ms), i)
        if k == "P":
            lastP[w] = (words[0], snap)
        # ---- what follows this line
        if k == "E" and words[0] == "cb.leave":
            emit("move %d EndCb" % w, i)
        if k == "P" and words[0] in PUSH_IDS:
            emit("move %d PushTop %s" % (w, words[2]), i)
        if k == "E" and words[0] == "yield.put":
            emit("move %d PutBase" % w, i)
        if k == "E" and words[0] == "sched.run":
            emit("move %d RunHand" % w, i)
        if k == "E" and words[0] == "ws.pop":            # wsapi pop by a running thread (logged before the call)
            emit("autopop %d" % w, i)
        if k == "E" and words[0] == "ws.pass":           # wsapi pass of the popped thread (logged before the call)
            emit("passhand %d %s %s" % (w, words[1], words[2]), i)
        # ---- what precedes this worker's next line
        j = nxt.get(i)
        if j is None:
            continue
        Y = L[j]
        yk, yw = Y[0], Y[3]
        if k == "E" and words[0] == "create.init":
            if yk == "E" and yw[0] == "create.start" and yw[2] == "1" and yw[1] == words[1]:
                emit("move %d CreateCF %s" % (w, words[1]), i)
            else:
                emit("move %d CreatePF %s" % (w, words[1]), i)
        elif yk == "E" and yw[0] == "cb.enter":
            lp = lastP.get(w)
            if k == "P" and words[0] == "finish.readjoin":
                jt = re.search(r"jt=(\S+)", snap).group(1)
                if jt != "-":
                    emit("move %d TakeJoiner %s" % (w, jt), i)
                else:
                    emit("autopop %d" % w, i)
                emit("move %d FinishCtx" % w, i)
            else:
                emit("autopop %d" % w, i)
                emit("move %d SaveCtx" % w, i)
        elif yk == "E" and yw[0] == "steal.got":
            emit("stealfind %d %s" % (w, yw[1]), i)
        elif yk == "E" and yw[0] == "sched.run":
            emit("autopop %d" % w, i)
    emit("end", None)
    return out, src, L


def validate(driver, blocks):
    inp = "\n".join("\n".join(b[0]) for b in blocks) + "\n"
    rc, out = vlib.sh([driver], input=inp, timeout=600)
    res = [l for l in out.split("\n") if l.startswith(("ok", "FAIL"))]
    while len(res) < len(blocks):
        res.append("FAIL 0 driver produced no verdict (rc=%d): %s" % (rc, out[-300:]))
    return res


def oracle_single_place(trace_text):
    """independent statement on the implementation: at every snapshot no thread occupies two places
    (two workers' this_thread, or a worker and a run queue, or two queue slots)"""
    for line in trace_text.split("\n"):
        if not line.startswith("M "):
            continue
        m = re.match(r"M cur=\[(.*?)\] dq=\[(.*)\]$", line)
        if not m:
            continue
        cur = [c for c in m.group(1).split(",") if c.startswith("t")]
        qs = [t for q in re.findall(r"\[([^\[\]]*)\]", m.group(2)) for t in q.split()]
        allp = cur + qs
        if len(allp) != len(set(allp)):
            return "thread in two places: " + line
    return None
