#!/usr/bin/env python3
import argparse, importlib, os, sys, traceback
sys.path.insert(0, os.path.dirname(os.path.abspath(__file__)))
import vlib

def _own_group():
    """run in a process group of our own and, on the way out (normal exit or SIGTERM from an outer `timeout`), kill
    whatever descendants are still alive in it - a harness child that outlived its watchdog must not keep
    spinning after the check has ended"""
    import atexit, signal
    try:
        os.setpgrp()
    except OSError:
        return
    me = os.getpid()
    if os.getpgrp() != me:
        return

    def reap(*_):
        for d in os.listdir("/proc"):
            if not d.isdigit() or int(d) == me:
                continue
            try:
                with open("/proc/%s/stat" % d) as f:
                    st = f.read()
                if int(st[st.rindex(")") + 2:].split()[2]) == me:
                    os.kill(int(d), signal.SIGKILL)
            except (OSError, ValueError, IndexError):
                pass
    atexit.register(reap)

    def on_term(sig, frm):
        reap()
        os._exit(143)
    signal.signal(signal.SIGTERM, on_term)


def main():
    _own_group()
    ap = argparse.ArgumentParser()
    ap.add_argument("prop")
    ap.add_argument("--tier", default=os.environ.get("VERIF_TIER", "quick"), choices=["quick", "thorough"])
    ap.add_argument("--replay", default=None)
    ap.add_argument("--seed", type=int, default=None)
    a = ap.parse_args()
    seed = a.seed if a.seed is not None else int(os.environ.get("VERIF_SEED", "1") or "1")
    mod = importlib.import_module("props." + a.prop.lower())
    ctx = vlib.Ctx(a.prop, a.tier, seed)
    # whole-library halves: the scheduler-level machine (C01, C02, C04, C12) and the spin lock / sleep
    # queue (every protocol model that treats a spin-locked region as one step and the queue as a list)
    ATTACH = {"C01": ["machine"], "C03": ["machine"], "C02": ["machine"], "C04": ["machine", "spin", "compose", "sync_steps", "abi_probe"],
              "C12": ["machine"], "C05": ["spin", "compose", "sync_steps", "abi_probe"], "C06": ["compose", "sync_steps", "abi_probe"],
              "C07": ["spin", "compose", "sync_steps", "abi_probe"], "C08": ["compose", "abi_probe"],
              "C09": ["spin", "compose", "sync_steps", "abi_probe"], "C14": ["abi_probe"],
              "C16": ["spin"], "C20": ["machine"]}
    if not a.replay:
        for m in ATTACH.get(a.prop, []):
            am = importlib.import_module("props." + m)
            n = (60 if m == "machine" else 40) * (10 if a.tier == "thorough" else 1)
            ctx.attachments = getattr(ctx, "attachments", []) + [lambda c, am=am, n=n: am.attach(c, n)]
    try:
        if a.replay:
            return mod.replay(ctx, a.replay)
        return mod.run(ctx)
    except vlib.BuildError as e:
        # the current tree does not build with the hooks / harness: the property is no longer
        # shown to hold (the correspondence cannot even be run)
        ctx.violation("build", "harness/library build failed: " + str(e)[:1500],
                      {"theorem_or_correspondence": "build of the correspondence harness", "log": str(e)[-4000:]}, found=False)
        return ctx.finish()

if __name__ == "__main__":
    sys.exit(main())
