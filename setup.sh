#!/bin/sh
# Build the framework from files on disk only (offline): the whole Coq development (full .vo).
# Harnesses, extracted drivers and the hooks-on library are (re)built by each check from /repo's
# current working tree.
set -e
cd "$(dirname "$0")"
mkdir -p build evidence replays
python3 -c "import sys; sys.path.insert(0,'tools'); import vlib; vlib.gen_coqproject()"
cd coq
coq_makefile -f _CoqProject -o Makefile >/dev/null
timeout 3600 make -k -j"$(nproc)" 2>&1 | grep -v '^COQC\|^COQDEP\|^Closed under\|^make' | tail -40 || true
exit 0
