(* C18 model driver: reads the case language of harness/c18_sim.c (one case per line) and prints,
   for every contraction setting of the case, the root totals the extracted model computes
   (same text as the harness's first segment), then the quantities of the specification side:
   the explicit DAG of the tree (work, longest path, node and edge counts), well-formedness,
   and the totals under two arbitrary contraction choice functions. *)
open DagTreeModel
open DagRecordModel
let zs = Zio.z_of_string and sz = Zio.string_of_z

let toks = ref [||] and pos = ref 0
let next () = let t = !toks.(!pos) in incr pos; t
let leaf () = let s = zs (next ()) in let e = zs (next ()) in let w = zs (next ()) in
  { l_start = s; l_end = e; l_worker = w }

let rec parse_task () =      (* after 'T' *)
  let items = ref [] in
  let rec go () =
    match next () with
    | "e" -> let l = leaf () in Task (Stdlib.List.rev !items, l)
    | "o" -> let l = leaf () in items := Other l :: !items; go ()
    | "S" | "B" -> let s = parse_section () in items := s :: !items; go ()
    | t -> failwith ("bad token in task: " ^ t) in
  go ()
and parse_section () =       (* after 'S' / 'B' *)
  let items = ref [] in
  let rec go () =
    match next () with
    | "w" -> let l = leaf () in Sect (Stdlib.List.rev !items, l)
    | "o" -> let l = leaf () in items := Other l :: !items; go ()
    | "c" -> let l = leaf () in
             if next () <> "T" then failwith "T expected";
             let c = parse_task () in items := Create (l, c) :: !items; go ()
    | "S" | "B" -> let s = parse_section () in items := s :: !items; go ()
    | t -> failwith ("bad token in section: " ^ t) in
  go ()

(* which variant of the library the model is to follow (see Dag/DagRecordModel.v):
   argv[1] = 1: other_cont edges are counted by the accumulation; argv[2] = 1: the report adds
   the end edges of contracted sections *)
let oc = Array.length Sys.argv > 1 && Sys.argv.(1) = "1"
let fe = Array.length Sys.argv > 2 && Sys.argv.(2) = "1"

(* the lines of the .stat report that are totals of the DAG *)
let pr_stat b (n : node) =
  let i = ninfo n in
  let c = i.i_nodes in
  let e = stat_edges fe n in
  let ints = BinInt.Z.add (BinInt.Z.add c.nc_create c.nc_wait) (BinInt.Z.add c.nc_other c.nc_end) in
  let dagnodes = BinInt.Z.add (BinInt.Z.add ints (BinInt.Z.add c.nc_wait c.nc_create)) (Zio.z_of_int 1) in
  Buffer.add_string b (Printf.sprintf " ; stat work=%s tinf=%s cr=%s wt=%s en=%s dagnodes=%s mat=%s sedges=%s,%s,%s,%s,%s"
    (sz (stat_work n)) (sz i.i_tinf) (sz c.nc_create) (sz c.nc_wait) (sz c.nc_end) (sz dagnodes) (sz i.i_cur)
    (sz e.ec_end) (sz e.ec_create) (sz e.ec_ccont) (sz e.ec_wcont) (sz e.ec_ocont))

let pr_info b (i : info) =
  let n = i.i_nodes and e = i.i_edges in
  Buffer.add_string b (Printf.sprintf "rc=0 t1=%s tinf=%s nodes=%s,%s,%s,%s edges=%s,%s,%s,%s,%s cur=%s"
    (sz i.i_t1) (sz i.i_tinf) (sz n.nc_create) (sz n.nc_wait) (sz n.nc_other) (sz n.nc_end)
    (sz e.ec_end) (sz e.ec_create) (sz e.ec_ccont) (sz e.ec_wcont) (sz e.ec_ocont) (sz i.i_cur))

(* an arbitrary but reproducible contraction choice function *)
let choice salt (p : Datatypes.nat list) (q : Datatypes.nat list) =
  let h = ref salt in
  Stdlib.List.iter (fun k -> h := (!h * 31 + Zio.int_of_nat k + 7) land 0xFFFFFF) p;
  h := (!h * 131 + 5) land 0xFFFFFF;
  Stdlib.List.iter (fun k -> h := (!h * 37 + Zio.int_of_nat k + 11) land 0xFFFFFF) q;
  (!h lsr 3) land 3 = 0

let () =
  try while true do
    let l = input_line stdin in
    toks := Array.of_list (Stdlib.List.filter (fun s -> s <> "") (String.split_on_char ' ' (String.trim l)));
    pos := 0;
    if Array.length !toks = 0 then print_newline () else begin
      let _nw = int_of_string (next ()) in
      let nset = int_of_string (next ()) in
      let sets = Stdlib.List.init nset (fun _ ->
        let umin = zs (next ()) in let cmax = zs (next ()) in let nct = zs (next ()) in
        let prune = zs (next ()) in let cmc = zs (next ()) in let _chk = next () in let _order = next () in let _array = next () in
        { s_umin = umin; s_cmax = cmax; s_nct = nct; s_prune = prune; s_cmc = cmc }) in
      if next () <> "T" then failwith "T expected";
      let t = parse_task () in
      let b = Buffer.create 1024 in
      Stdlib.List.iteri (fun k st ->
        if k > 0 then Buffer.add_string b " | ";
        let n = record oc (summ_setting st) [] t in
        pr_info b (ninfo n);
        Buffer.add_string b (Printf.sprintf " mat=%s" (sz (materialized n)));
        pr_stat b n) sets;
      let rows = dag_of t in
      Buffer.add_string b (Printf.sprintf " # wf=%d nonneg=%d dag work=%s longest=%s nodes=%s,%s,%s,%s edges=%s,%s,%s,%s,%s"
        (if wf CChild t then 1 else 0) (if nonnegb t then 1 else 0)
        (sz (work t)) (sz (longest_path rows))
        (sz (count_kind KCreate t)) (sz (count_kind KWait t)) (sz (count_kind KOther t)) (sz (count_kind KEnd t))
        (sz (edge_count EEnd rows)) (sz (edge_count ECreate rows)) (sz (edge_count ECreateCont rows))
        (sz (edge_count EWaitCont rows)) (sz (edge_count EOtherCont rows)));
      Buffer.add_string b " # none ";
      pr_info b (root_info oc summ_none t);
      Stdlib.List.iter (fun salt ->
        Buffer.add_string b " # choice ";
        let n = record oc (summ_choice (choice salt)) [] t in
        pr_info b (ninfo n);
        Buffer.add_string b (Printf.sprintf " mat=%s" (sz (materialized n)))) [1; 2];
      print_endline (Buffer.contents b)
    end
  done with End_of_file -> ()
