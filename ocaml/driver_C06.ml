(* Trace validator for Abs(barrier) (coq/Barrier/BarrierModel.v).
   Input: blocks
     begin <nthreads> <n_threads-of-the-barrier>
     call <t> wait
     tick <t> <m|c> <label> <val|-> B <state> <n> <k> <stk top first ..>      (Bp: only the first k entries of a longer stack)
     ret <t> <v>
     end
   Output: one line per block: "ok <events>" or "FAIL <line-in-block> <reason>". *)
open BarrierModel
let zs = Zio.z_of_string and sz = Zio.string_of_z
let ni = Zio.nat_of_int and ino = Zio.int_of_nat
let bit b k = if b then 1 lsl k else 0
let char_of_ascii = function Ascii.Ascii (a,b,c,d,e,f,g,h) ->
  Char.chr (bit a 0 + bit b 1 + bit c 2 + bit d 3 + bit e 4 + bit f 5 + bit g 6 + bit h 7)
let rec str = function String.EmptyString -> "" | String.String (a, r) -> Stdlib.String.make 1 (char_of_ascii a) ^ str r
let split l = Stdlib.List.filter (fun s -> s <> "") (Stdlib.String.split_on_char ' ' l)
let qstr l = "[" ^ Stdlib.String.concat "," (Stdlib.List.map (fun n -> string_of_int (ino n)) l) ^ "]"
let rec take k l = if k = 0 then ([], l) else match l with x :: r -> let (a, b) = take (k - 1) r in (x :: a, b) | [] -> failwith "short obs"
(* compare the observed words (from the trace) with the model state; None if equal *)
let check_obs s obs =
  match obs with
  | "B" :: st :: n :: k :: rest ->
      let (q, _) = take (int_of_string k) rest in
      let q = "[" ^ Stdlib.String.concat "," q ^ "]" in
      let (ml, ok) = stack_list s in
      let m = Printf.sprintf "state=%s n=%s stk=%s%s" (sz (bstate s)) (sz (nthr s)) (qstr ml) (if ok then "" else "(cyclic)") in
      let i = Printf.sprintf "state=%s n=%s stk=%s" st n q in
      if i = m then None else Some ("barrier words differ: impl " ^ i ^ " model " ^ m)
  | "Bp" :: st :: n :: k :: rest ->
      (* the trace lists only the first k entries of a longer stack (case option snapmax): compare that prefix *)
      let (q, _) = take (int_of_string k) rest in
      let q = "[" ^ Stdlib.String.concat "," q ^ "]" in
      let (ml, ended) = walk (nxt s) (ni (int_of_string k)) (top s) in
      let m = Printf.sprintf "state=%s n=%s stk=%s%s" (sz (bstate s)) (sz (nthr s)) (qstr ml) (if ended then "(ends here)" else "...") in
      let i = Printf.sprintf "state=%s n=%s stk=%s..." st n q in
      if i = m then None else Some ("barrier words differ: impl " ^ i ^ " model " ^ m)
  | "-" :: _ | [] -> None
  | _ -> Some "unparsable obs"
let () =
  let st = ref (init_state (ni 0) (zs "0")) and ln = ref 0 and cnt = ref 0 and failed = ref None in
  let fail msg = if !failed = None then failed := Some (Printf.sprintf "FAIL %d %s" !ln msg) in
  try while true do
    let l = input_line stdin in
    incr ln;
    (match split l with
     | ["begin"; nt; n] -> st := init_state (ni (int_of_string nt)) (zs n); ln := 0; cnt := 0; failed := None
     | ["end"] -> (match !failed with Some m -> print_endline m | None -> Printf.printf "ok %d\n" !cnt)
     | _ when !failed <> None -> ()
     | ["call"; t; "wait"] ->
         (match step !st (ni (int_of_string t), ECall) with  (* the one-constructor type [op] is erased by the extraction *)
          | Some s' -> st := s'; incr cnt
          | None -> fail (Printf.sprintf "call not enabled in the model: t%s wait" t))
     | "ret" :: t :: v :: _ ->
         (match step !st (ni (int_of_string t), ERet (zs v)) with
          | Some s' -> st := s'; incr cnt
          | None -> fail (Printf.sprintf "return value differs or no call complete in the model: t%s returned %s" t v))
     | "tick" :: t :: ctx :: lab :: v :: obs ->
         let tn = ni (int_of_string t) and incb = (ctx = "c") in
         let ml = str (label !st tn incb) in
         if ml <> lab then fail (Printf.sprintf "t%s(%s) executes POINT %s but the model expects %s" t ctx lab (if ml = "" then "<no step>" else ml))
         else begin
           (match lval !st tn incb with
            | Some mv when v <> "-" && sz mv <> v -> fail (Printf.sprintf "t%s POINT %s carries value %s, model expects %s" t lab v (sz mv))
            | _ -> ());
           (match check_obs !st obs with Some m -> fail (Printf.sprintf "before t%s %s: %s" t lab m) | None -> ());
           (match step !st (tn, if incb then ECbTick else ETick) with
            | Some s' ->
                st := s'; incr cnt;
                if is_excess s' tn then fail (Printf.sprintf "t%s took the excess-threads exit(1) branch" t)
            | None -> fail (Printf.sprintf "step %s of t%s not enabled in the model" lab t))
         end
     | [] -> ()
     | _ -> fail ("unparsable line: " ^ l))
  done with End_of_file -> ()
