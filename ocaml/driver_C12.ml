(* C12 model driver: same case language as harness/c12_unit.c (idx / hist / shist), same output
   lines; plus "ledger": an event stream recorded from whole-library runs (harness/c12_lib.c,
   mapped to model events by tools/props/c12.py) is fed to the extracted ledger transition
   system, which must accept every step.

   The mmap oracle handed to the extracted functions returns region number k (k = number of
   regions so far) at (k+1) * 2^40; addresses are printed as r<k>+<offset>, like the C side
   prints them relative to the k-th real mmap call. *)
open SizeClassModel
open FlmallocModel
open StackModel
let zs = Zio.z_of_string and sz = Zio.string_of_z
let zi = Zio.z_of_int and iz = Zio.int_of_z
let ni = Zio.nat_of_int and ino = Zio.int_of_nat

let stride = 1 lsl 40
let oracle regs _len = zi ((Stdlib.List.length regs + 1) * stride)
let canon z = let p = iz z in Printf.sprintf "r%d+%d" (p / stride - 1) (p mod stride)
let regs_str regs =
  " |" ^ String.concat "" (Stdlib.List.rev_map (fun (_, l) -> " " ^ sz l) regs)

let split_ws s = Stdlib.List.filter (fun t -> t <> "") (String.split_on_char ' ' s)

(* ---------- idx ---------- *)
let do_idx s =
  match size_to_index (zs s) with
  | IdxUndef -> "idx undef"
  | Idx i ->
     let i' = iz i in
     if i' >= 0 && i' <= 30 then Printf.sprintf "idx %d rs %s" i' (sz (index_to_rsize i))
     else Printf.sprintf "idx %d rs ub" i'

(* ---------- hist ---------- *)
let do_hist toks =
  let b = Buffer.create 256 in
  Buffer.add_string b "hist";
  let st = ref fl_init in
  let handles = ref [||] in
  let push p = handles := Array.append !handles [|p|] in
  Stdlib.List.iter (fun tok ->
      match tok.[0] with
      | 'a' -> Scanf.sscanf tok "a%d:%s" (fun w s ->
                 match flmalloc oracle !st (ni w) (zs s) with
                 | AOk (p, st') -> st := st'; push p; Buffer.add_string b (" " ^ canon p)
                 | AOutOfRange i -> push (zi 0); Buffer.add_string b (" oor" ^ sz i)
                 | AUndef -> push (zi 0); Buffer.add_string b " undef"
                 | AOutOfFuel -> push (zi 0); Buffer.add_string b " outoffuel")
      | 'f' -> Scanf.sscanf tok "f%d:%d:%s" (fun w h s ->
                 match flfree !st (ni w) (zs s) (!handles).(h) with
                 | Some st' -> st := st'; Buffer.add_string b " f"
                 | None -> Buffer.add_string b " badfree")
      | _ -> Buffer.add_string b " badop") toks;
  Buffer.add_string b (regs_str (!st).fl_regs);
  Buffer.contents b

(* ---------- shist ---------- *)
let do_shist gsz dsz toks =
  let b = Buffer.create 256 in
  Buffer.add_string b "shist";
  let st = ref s_init in
  let handles = ref [||] in
  let push p = handles := Array.append !handles [|p|] in
  (* the ghost history of Alloc/StackModel.v (the object of C12_stack_histories) runs alongside:
     it must accept the history (well-formed) and stay in the same allocator state *)
  let gh = ref (Some hs_init) in
  let ghost o = match !gh with
    | Some h -> gh := sstep oracle gsz dsz h o
    | None -> () in
  Stdlib.List.iter (fun tok ->
      (match tok.[0] with
       | 's' -> Scanf.sscanf tok "s%d:%s" (fun w n -> ghost (SGet (ni w, zs n)))
       | 'r' -> Scanf.sscanf tok "r%d:%d" (fun w h -> ghost (SRel (ni w, (!handles).(h))))
       | 'd' -> Scanf.sscanf tok "d%d" (fun w -> ghost (DGet (ni w)))
       | 'e' -> Scanf.sscanf tok "e%d:%d" (fun w h -> ghost (DRel (ni w, (!handles).(h))))
       | _ -> ());
      match tok.[0] with
      | 's' -> Scanf.sscanf tok "s%d:%s" (fun w n ->
                 match stack_get oracle gsz !st (ni w) (zs n) with
                 | SOk (top, st') ->
                    st := st'; push top;
                    Buffer.add_string b (Printf.sprintf " %s/%s" (canon top) (sz (load st'.s_mem (BinInt.Z.add top (zi 8)))))
                 | SOutOfRange i -> push (zi 0); Buffer.add_string b (" oor" ^ sz i)
                 | SUndef -> push (zi 0); Buffer.add_string b " undef"
                 | SOutOfFuel -> push (zi 0); Buffer.add_string b " outoffuel")
      | 'r' -> Scanf.sscanf tok "r%d:%d" (fun w h ->
                 let top = (!handles).(h) in
                 let tgt = release_target (!st).s_mem top in
                 (match stack_release !st (ni w) top with
                  | Some st' -> st := st'
                  | None -> ());
                 match tgt with
                 | RDefault t -> Buffer.add_string b (" def@" ^ canon t)
                 | RClass (i, s) -> Buffer.add_string b (Printf.sprintf " c%s@%s" (sz i) (canon s))
                 | RBad -> Buffer.add_string b " bad")
      | 'd' -> Scanf.sscanf tok "d%d" (fun w ->
                 let (p, st') = desc_get oracle dsz !st (ni w) in
                 st := st'; push p; Buffer.add_string b (" " ^ canon p))
      | 'e' -> Scanf.sscanf tok "e%d:%d" (fun w h ->
                 st := desc_release !st (ni w) (!handles).(h); Buffer.add_string b " e")
      | _ -> Buffer.add_string b " badop") toks;
  (match !gh with
   | Some h when h.hs_st = !st -> ()
   | Some _ -> Buffer.add_string b " ghost-state-differs"
   | None -> Buffer.add_string b " history-not-well-formed");
  Buffer.add_string b (regs_str (!st).s_fl.fl_regs);
  Buffer.contents b

(* ---------- ledger ---------- *)
open LedgerModel
exception Reject of string

let ph_str = function
  | PNew w -> Printf.sprintf "PNew %d" (ino w) | PSaved -> "PSaved" | PRun w -> Printf.sprintf "PRun %d" (ino w)
  | PFin w -> Printf.sprintf "PFin %d" (ino w) | PAway w -> Printf.sprintf "PAway %d" (ino w)
  | PFreed w -> Printf.sprintf "PFreed %d" (ino w) | PDone -> "PDone" | PGone -> "PGone"

(* class of a stack as the ledger keys it: 0 = default list, i = allocator class *)
let cls_of_request n =
  if n = 0 then 0 else
    match size_class (round_page (zi n)) with
    | Class (i, _) -> iz i
    | _ -> raise (Reject "stack size outside the allocator's range")
let cls_of_word wd =
  if wd = 0 then 0 else
    match size_class (zi wd) with
    | Class (i, _) -> iz i
    | _ -> raise (Reject "size word outside the allocator's range")

let do_ledger nw toks =
  let st = ref (init_state (ni nw)) in
  let inferred = ref 0 and n = ref 0 in
  let apply w e what =
    match step !st (ni w, e) with
    | Some st' -> st := st'
    | None -> raise (Reject ("step not enabled in the model: " ^ what)) in
  let thread t = Stdlib.List.nth (!st).ths t in
  let wk w = Stdlib.List.nth (!st).wks w in
  let tid_of_desc d = match desc_owner !st (ni d) with
    | Some t -> ino t | None -> raise (Reject (Printf.sprintf "record D%d has no owner in the model" d)) in
  (* make thread u resumable: if the model still has it running on another worker, that worker
     must have left it by a switch that produced no event (yield, steal) *)
  let make_saved w u =
    match (thread u).t_ph with
    | PSaved -> ()
    | PRun w2 when ino w2 <> w -> incr inferred; apply (ino w2) ESuspend "inferred suspend of the previous worker"
    | p -> raise (Reject (Printf.sprintf "worker %d executes on the stack of thread %d which is in phase %s" w u (ph_str p))) in
  let owner_of_stack s =
    match stack_owner !st (ni s) with
    | Some u -> ino u
    | None -> raise (Reject (Printf.sprintf "executing on stack S%d, which no live thread owns (free or released)" s)) in
  let sync w s =
    let cur = match on_stack !st (ni w) with Some x -> ino x | None -> -1 in
    if cur <> s then begin
      incr inferred;
      if s < 0 then apply w ESuspend "inferred switch to an untracked stack"
      else begin
        let u = owner_of_stack s in
        make_saved w u;
        match (wk w).w_cur with
        | Some _ -> apply w (ESwitch (ni u)) "inferred switch"
        | None -> apply w (EResume (ni u)) "inferred resume"
      end
    end in
  let expect what got want = if got <> want then
      raise (Reject (Printf.sprintf "%s: model %d, implementation %d" what got want)) in
  (try
     Stdlib.List.iter (fun tok ->
         let f = Array.of_list (String.split_on_char ',' tok) in
         (* rank r of the current epoch is worker base + r of the model *)
         let w = ino (!st).base + int_of_string f.(0) and kind = f.(1) in
         let a i = int_of_string f.(i) in
         let s = a (Array.length f - 1) in
         (try
            (match kind with
             | "ad" -> sync w s; apply w (EAllocDesc (a 2 = 1)) "alloc.desc";
                       let t = Stdlib.List.length (!st).ths - 1 in
                       expect "record handed out" (ino (thread t).t_desc) (a 3)
             | "as" -> sync w s;
                       let t = match (wk w).w_new with Some t -> ino t | None -> raise (Reject "alloc.stack outside a creation") in
                       apply w (EAllocStack (ni (cls_of_request (a 2)))) "alloc.stack";
                       expect "stack handed out" (ino (thread t).t_stack) (a 3)
             | "at" -> sync w s
             | "epoch" -> apply w (EEpoch (ni (a 2))) "myth_fini + myth_init_ex"
             | "start" -> sync w s;
                          (match (wk w).w_cur with
                           | Some t -> expect "thread starting (record)" (ino (thread (ino t)).t_desc) (a 2)
                           | None -> raise (Reject "create.start on an untracked stack"))
             | "fin" -> sync w s;
                        (match (wk w).w_cur with
                         | Some t -> expect "thread finishing (record)" (ino (thread (ino t)).t_desc) (a 2)
                         | None -> raise (Reject "finish on an untracked stack"));
                        apply w EFinEnter "finish"
             | "cbenter" ->
                let finishing = match (wk w).w_cur with
                  | Some t -> (match (thread (ino t)).t_ph with PFin _ -> (ino (thread (ino t)).t_desc) = a 2 | _ -> false)
                  | None -> false in
                if finishing then begin
                    let next = if s < 0 then None else begin
                                   let u = owner_of_stack s in make_saved w u; Some (ni u) end in
                    apply w (ESwitchAway next) "switch away from the finished thread"
                  end else sync w s
             | "rs" -> sync w s;
                       let t = match (wk w).w_cb with Some t -> ino t | None -> raise (Reject "free.stack outside the finish callback") in
                       let th = thread t in
                       apply w ERelStack "free.stack";
                       expect "stack released" (ino th.t_stack) (a 2);
                       expect "class recomputed at release" (ino th.t_cls) (cls_of_word (a 3))
             | "pub" -> sync w s;
                        (match (wk w).w_cb with
                         | Some t -> expect "thread publishing FREE_READY2 (record)" (ino (thread (ino t)).t_desc) (a 2)
                         | None -> raise (Reject "FREE_READY2 outside the finish callback"));
                        apply w EPublish "publish FREE_READY2"
             | "rdf" -> sync w s;
                        (match (wk w).w_cb with
                         | Some t -> expect "record released by the finisher" (ino (thread (ino t)).t_desc) (a 2)
                         | None -> raise (Reject "free.desc (finisher) outside the finish callback"));
                        apply w ERelDescFin "free.desc by the finisher (detached)"
             | "det" -> sync w s; apply w (ESetDetached (ni (tid_of_desc (a 2)))) "detach.set"
             | "reap" -> sync w s; apply w (EReap (ni (tid_of_desc (a 2)))) "free.desc by join/detach"
             | _ -> raise (Reject "unknown event"))
          with Reject m -> raise (Reject (Printf.sprintf "event %d %s: %s" !n tok m)));
         incr n) toks;
     Printf.sprintf "ledger ok events %d inferred %d threads %d stacks %d records %d" !n !inferred
       (Stdlib.List.length (!st).ths) (ino (!st).nstk) (ino (!st).ndesc)
   with Reject m -> "ledger REJECT " ^ m)

let () =
  try while true do
    let l = input_line stdin in
    (match split_ws l with
     | [] -> print_string ""
     | "idx" :: s :: _ -> print_string (do_idx s)
     | "guard" :: s :: _ ->
        let (r1, a1) = attr_setstacksize (zi 777) (zs s) in
        Printf.printf "guard set %s %s setstack %s %s" (sz r1) (sz a1) (sz r1) (sz a1)
     | "create" :: s :: _ ->
        (* the stack side of myth_create_ex with an attribute whose stacksize field holds s, from the
           initial state: einval (nothing obtained) / ok / the arithmetic left its range *)
        print_string (match create_stack oracle (zi 131072) s_init (ni 0) (zs s) with
                      | CEinval -> "create 22 allocs 0"
                      | CCreated (_, st') -> Printf.sprintf "create 0 allocs %d" (Stdlib.List.length st'.s_fl.fl_regs)
                      | CFailed _ -> "create out-of-range")
     | "hist" :: _ :: ":" :: toks -> print_string (do_hist toks)
     | "shist" :: g :: d :: ":" :: toks -> print_string (do_shist (zs g) (zs d) toks)
     | "ledger" :: nw :: toks -> print_string (do_ledger (int_of_string nw) toks)
     | _ -> print_string "badcase");
    print_newline ()
  done with End_of_file -> ()
