(* C15 model driver: same case language as harness/c15_unit.c (unit cases) and the canonical
   lines that tools/props/c15.py derives from harness/c15_proc.c (proto cases).
   Strings travel hex-encoded:  h:<hex>  = set to these bytes,  U = variable unset. *)
open EnvModel
open CpuListModel
open InitProtoModel
let zi = Zio.z_of_int and zs = Zio.z_of_string and sz = Zio.string_of_z
let hexval c = match c with '0'..'9' -> Char.code c - 48 | 'a'..'f' -> Char.code c - 87 | 'A'..'F' -> Char.code c - 55
                           | _ -> failwith "hex"
let bytes_of tok =
  if tok = "U" then None
  else begin
    let h = String.sub tok 2 (String.length tok - 2) in
    let n = String.length h / 2 in
    Some (Stdlib.List.init n (fun i -> zi (hexval h.[2*i] * 16 + hexval h.[2*i+1])))
  end
let the = function Some x -> x | None -> []
let msg_name = function ExpectedDigit -> "expected-digit" | TooMany -> "too-many" | Junk -> "junk" | MinusOne -> "minus-one"
let pr_res r =
  match r with
  | Val l -> Printf.printf "ok %d%s\n" (Stdlib.List.length l) (String.concat "" (Stdlib.List.map (fun z -> " " ^ sz z) l))
  | Err d -> (match d.d_msg with
              | MinusOne -> Printf.printf "err minus-one\n"
              | m -> Printf.printf "err %s ok=%s i=%s\n" (msg_name m) (sz d.d_ok) (sz d.d_i))
  | AssertFail -> Printf.printf "assertfail\n"
  | OutOfFuel -> Printf.printf "outoffuel\n"
let optz = function "-" -> None | s -> Some (zs s)
(* schedule tokens  <tid>:<ev>   ev = I<a>/<d> (a = - for a NULL attribute) | F | S<n> | M<r> | T | G<r> | R *)
let parse_act tok =
  let k = String.index tok ':' in
  let tid = int_of_string (String.sub tok 0 k) in
  let e = String.sub tok (k + 1) (String.length tok - k - 1) in
  let arg = String.sub e 1 (String.length e - 1) in
  let ev = match e.[0] with
    | 'I' -> let j = String.index arg '/' in
             Call (OpInit (optz (String.sub arg 0 j), zs (String.sub arg (j + 1) (String.length arg - j - 1))))
    | 'F' -> Call OpFini
    | 'S' -> Call (OpSetNW (zs arg))
    | 'M' -> Call (OpMove (zs arg))
    | 'T' -> Tick
    | 'G' -> Mig (zs arg)
    | 'R' -> Ret
    | _ -> failwith "ev" in
  (tid, ev)
let () =
  try while true do
    let l = input_line stdin in
    let w = Array.of_list (Stdlib.List.filter (fun s -> s <> "") (String.split_on_char ' ' l)) in
    (match w.(0) with
     | "atoi" -> Printf.printf "atoi %s\n" (sz (atoi (the (bytes_of w.(1)))))
     | "dflt" ->
        let v = (match w.(1) with
          | "stk" -> default_stacksize (zs w.(2)) (bytes_of w.(3))
          | "stkpre" -> default_stacksize_prefix (zs w.(2)) (bytes_of w.(3))
          | "guard" -> default_guardsize (zs w.(2)) (bytes_of w.(3))
          | "nw" -> default_num_workers (zs w.(2)) (bytes_of w.(3)) (bytes_of w.(4))
          | "bind" -> default_bind_workers (zs w.(2)) (bytes_of w.(3))
          | "cf" -> default_child_first (zs w.(2)) (bytes_of w.(3))
          | _ -> failwith "dflt") in
        Printf.printf "dflt %s\n" (sz v)
     | "gattr" ->
        let d = { d_stack = zs w.(2); d_guard = zs w.(3); d_bind = zs w.(4); d_cf = zs w.(5) } in
        let ev = { e_stksize = bytes_of w.(6); e_guardsize = bytes_of w.(7); e_num_workers = bytes_of w.(8);
                   e_worker_num = bytes_of w.(9); e_bind = bytes_of w.(10); e_child_first = bytes_of w.(11) } in
        let a = globalattr_init d (zs w.(1)) ev in
        Printf.printf "gattr %s %s %s %s %s %s\n" (sz a.ga_stack) (sz a.ga_guard) (sz a.ga_nw) (sz a.ga_bind) (sz a.ga_cf) (sz a.ga_init)
     | "cpul" -> pr_res (parse_cpu_list (bytes_of w.(2)) (zs w.(1)))
     | "cpulpre" -> pr_res (parse_cpu_list_prefix (bytes_of w.(2)) (zs w.(1)))
     | "avail" ->
        let ncpu = zs w.(1) in
        let k = int_of_string w.(2) in
        let set = Stdlib.List.init k (fun i -> int_of_string w.(3 + i)) in
        let aff z = let v = Zio.int_of_z z in (match z with BinNums.Zneg _ -> false | _ -> Stdlib.List.mem v set) in
        let s = bytes_of w.(3 + k) in
        let nr = int_of_string w.(4 + k) in
        let tbl = available_cpus (parse_cpu_list s (zi 1024)) ncpu aff in
        let pr = parse_cpu_list s (zi 1024) in
        Printf.printf "avail %d%s ranks%s malformed=%d\n" (Stdlib.List.length tbl)
          (String.concat "" (Stdlib.List.map (fun z -> " " ^ sz z) tbl))
          (String.concat "" (Stdlib.List.init nr (fun r -> " " ^ sz (worker_cpu tbl (zi r)))))
          (match pr with Val _ -> 0 | _ -> 1)
     | "ranks" -> let l = worker_ranks (zs w.(1)) in
        Printf.printf "ranks%s\n" (String.concat "" (Stdlib.List.map (fun z -> " " ^ sz z) l))
     | "proto" ->
        let n = int_of_string w.(1) in
        let s = ref (init_state (Zio.nat_of_int n)) in
        let dis = ref 0 in
        let b = Buffer.create 64 in
        for k = 2 to Array.length w - 1 do
          let tok = w.(k) in
          if tok.[0] = 'P' then begin
            let tid = int_of_string (String.sub tok 1 (String.length tok - 1)) in
            Buffer.add_string b (Printf.sprintf " p(%s)" (match result !s (Zio.nat_of_int tid) with Some r -> sz r | None -> "-"))
          end else
          if tok.[0] = 'Q' then begin
            let tid = int_of_string (String.sub tok 1 (String.length tok - 1)) in
            Buffer.add_string b (Printf.sprintf " q(%s,%s,%s)" (sz !s.st) (sz !s.nworkers) (sz (rank_of !s (Zio.nat_of_int tid))))
          end else begin
            let (tid, ev) = parse_act tok in
            match step !s (Zio.nat_of_int tid, ev) with
            | Some s' -> s := s'
            | None -> incr dis
          end
        done;
        let s = !s in
        Printf.printf "proto st=%s gnw=%s nw=%s cas=%d really=%d fini=%d res=%s ranks=%s flags=%s dis=%d%s\n"
          (sz s.st) (match s.gnw with Some z -> sz z | None -> "-") (sz s.nworkers)
          (Zio.int_of_nat s.n_cas) (Zio.int_of_nat s.n_really) (Zio.int_of_nat s.n_fini)
          (String.concat "," (Stdlib.List.init n (fun i -> match result s (Zio.nat_of_int i) with Some r -> sz r | None -> "-")))
          (String.concat "," (Stdlib.List.init n (fun i -> sz (rank_of s (Zio.nat_of_int i)))))
          (String.concat "," (Stdlib.List.map sz s.flags)) !dis (Buffer.contents b)
     | "protots" ->
        (* test-then-set variant: tokens <tid>:C<a>/<d> | <tid>:T *)
        let n = int_of_string w.(1) in
        let s = ref { ts_st = zi 0; ts_really = Zio.nat_of_int 0; ts_threads = Stdlib.List.init n (fun _ -> TIdle) } in
        for k = 2 to Array.length w - 1 do
          let tok = w.(k) in
          let j = String.index tok ':' in
          let tid = int_of_string (String.sub tok 0 j) in
          let ev = if tok.[j + 1] = 'T' then TTick else TCall (None, zi 1) in
          (match step_ts !s (Zio.nat_of_int tid, ev) with Some s' -> s := s' | None -> ())
        done;
        Printf.printf "protots st=%s really=%d\n" (sz !s.ts_st) (Zio.int_of_nat !s.ts_really)
     | _ -> failwith ("bad op " ^ w.(0)))
  done with End_of_file -> ()
