(* Trace validator for Abs(mutex, conds, felock status) (coq/Sync/SyncModel.v).
   Input: blocks
     begin <nthreads> <nconds>
     call <t> <op> [arg]
     tick <t> <m|c> <worker> <label> <val|-> <obs>       (c = inside a context-switch callback of t, running on <worker>)   obs = M <state> <k> <q..> | Q <c> <k> <q..> | F <status> <mstate> <k> <mq..> <k> <c0..> <k> <c1..>
     ret <t> <v>
     end
   Output: one line per block: "ok <events>" or "FAIL <line-in-block> <reason>". *)
open SyncModel
let zs = Zio.z_of_string and sz = Zio.string_of_z
let ni = Zio.nat_of_int and ino = Zio.int_of_nat
let bit b k = if b then 1 lsl k else 0
let char_of_ascii = function Ascii.Ascii (a,b,c,d,e,f,g,h) ->
  Char.chr (bit a 0 + bit b 1 + bit c 2 + bit d 3 + bit e 4 + bit f 5 + bit g 6 + bit h 7)
let rec str = function String.EmptyString -> "" | String.String (a, r) -> Stdlib.String.make 1 (char_of_ascii a) ^ str r
let split l = Stdlib.List.filter (fun s -> s <> "") (Stdlib.String.split_on_char ' ' l)
let parse_op = function
  | ["lock"] -> Lock | ["trylock"] -> TryLock | ["timedlock"] -> TimedLock | ["unlock"] -> Unlock
  | ["cwait"; c] -> CondWait (ni (int_of_string c)) | ["signal"; c] -> Signal (ni (int_of_string c))
  | ["bcast"; c] -> Broadcast (ni (int_of_string c))
  | ["fewl"; s] -> FeWL (zs s) | ["fems"; s] -> FeMS (zs s)
  | l -> failwith ("bad op " ^ Stdlib.String.concat " " l)
let qstr l = "[" ^ Stdlib.String.concat "," (Stdlib.List.map (fun n -> string_of_int (ino n)) l) ^ "]"
let rec take k l = if k = 0 then ([], l) else match l with x :: r -> let (a, b) = take (k - 1) r in (x :: a, b) | [] -> failwith "short obs"
let getq k l = let (a, b) = take k l in ("[" ^ Stdlib.String.concat "," a ^ "]", b)
let nthq s c = try Stdlib.List.nth (cqs s) c with _ -> []
(* compare the observed words (from the trace) with the model state; returns None if equal *)
let check_obs s obs =
  match obs with
  | "M" :: st :: k :: rest ->
      let (q, _) = getq (int_of_string k) rest in
      let ms = sz (mword s) and mqs = qstr (mq s) in
      if st = ms && q = mqs then None else Some (Printf.sprintf "mutex words differ: impl state=%s q=%s model state=%s q=%s" st q ms mqs)
  | "Q" :: c :: k :: rest ->
      let (q, _) = getq (int_of_string k) rest in
      let mqs = qstr (nthq s (int_of_string c)) in
      if q = mqs then None else Some (Printf.sprintf "cond %s queue differs: impl %s model %s" c q mqs)
  | "F" :: fs :: st :: k :: rest ->
      let (q, rest) = getq (int_of_string k) rest in
      let (c0, rest) = (match rest with k0 :: r -> getq (int_of_string k0) r | [] -> failwith "short F") in
      let (c1, _) = (match rest with k1 :: r -> getq (int_of_string k1) r | [] -> failwith "short F") in
      let m = Printf.sprintf "status=%s state=%s q=%s c0=%s c1=%s" (sz (festat s)) (sz (mword s)) (qstr (mq s)) (qstr (nthq s 0)) (qstr (nthq s 1)) in
      let i = Printf.sprintf "status=%s state=%s q=%s c0=%s c1=%s" fs st q c0 c1 in
      if i = m then None else Some ("felock words differ: impl " ^ i ^ " model " ^ m)
  | "-" :: _ | [] -> None
  | _ -> Some "unparsable obs"
let () =
  let st = ref (init_state (ni 0) (ni 0)) and ln = ref 0 and cnt = ref 0 and failed = ref None in
  (* callbacks in flight of each thread, oldest first, named by the worker that runs them
     (mirrors the model's [cbs] list: a callback runs on one worker from start to end) *)
  let cbw : (int, int list) Hashtbl.t = Hashtbl.create 16 in
  let workers t = try Hashtbl.find cbw t with Not_found -> [] in
  let rec index x = function [] -> None | y :: r -> if x = y then Some 0 else (match index x r with Some i -> Some (i + 1) | None -> None) in
  let rec drop i = function [] -> [] | y :: r -> if i = 0 then r else y :: drop (i - 1) r in
  let fail msg = if !failed = None then failed := Some (Printf.sprintf "FAIL %d %s" !ln msg) in
  try while true do
    let l = input_line stdin in
    incr ln;
    (match split l with
     | ["begin"; nt; nc] -> st := init_state (ni (int_of_string nt)) (ni (int_of_string nc)); ln := 0; cnt := 0; failed := None; Hashtbl.reset cbw
     | ["end"] -> (match !failed with Some m -> print_endline m | None -> Printf.printf "ok %d\n" !cnt)
     | _ when !failed <> None -> ()
     | "call" :: t :: o ->
         (match step !st (ni (int_of_string t), ECall (parse_op o)) with
          | Some s' -> st := s'; incr cnt
          | None -> fail (Printf.sprintf "call not enabled in the model: t%s %s" t (Stdlib.String.concat " " o)))
     | "ret" :: t :: v :: _ ->
         (match step !st (ni (int_of_string t), ERet (zs v)) with
          | Some s' -> st := s'; incr cnt
          | None -> fail (Printf.sprintf "return value differs or no call complete in the model: t%s returned %s" t v))
     | "tick" :: t :: ctx :: wk :: lab :: v :: obs ->
         let ti = int_of_string t in
         let tn = ni ti and w = int_of_string wk in
         (* which activity of the thread: main, or the callback running on worker w *)
         let slot =
           if ctx <> "c" then Some None
           else match index w (workers ti) with
             | Some i -> Some (Some i)
             | None ->
                 (* first step of a new callback: it must be the newest entry of the model's list *)
                 let n = ino (ncbs !st tn) and k = Stdlib.List.length (workers ti) in
                 if n = k + 1 then (Hashtbl.replace cbw ti (workers ti @ [w]); Some (Some k)) else None in
         (match slot with
          | None -> fail (Printf.sprintf "t%s starts a context-switch callback on w%s (POINT %s) but the model has no new callback for it" t wk lab)
          | Some sl ->
         let incb = (match sl with Some i -> Some (ni i) | None -> None) in
         let ml = str (label !st tn incb) in
         if ml <> lab then fail (Printf.sprintf "t%s(%s) executes POINT %s but the model expects %s" t ctx lab (if ml = "" then "<no step>" else ml))
         else begin
           (match lval !st tn incb with
            | Some mv when v <> "-" && sz mv <> v -> fail (Printf.sprintf "t%s POINT %s carries value %s, model expects %s" t lab v (sz mv))
            | _ -> ());
           (match check_obs !st obs with Some m -> fail (Printf.sprintf "before t%s %s: %s" t lab m) | None -> ());
           let before = ino (ncbs !st tn) in
           (match step !st (tn, (match sl with Some i -> ECbTick (ni i) | None -> ETick)) with
            | Some s' ->
                st := s'; incr cnt;
                (* a finished callback leaves the model's list: forget its worker *)
                (match sl with Some i when ino (ncbs !st tn) < before -> Hashtbl.replace cbw ti (drop i (workers ti)) | _ -> ())
            | None -> fail (Printf.sprintf "step %s of t%s not enabled in the model" lab t))
         end)
     | [] -> ()
     | _ -> fail ("unparsable line: " ^ l))
  done with End_of_file -> ()
