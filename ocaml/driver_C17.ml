(* C17 model driver: same case language as harness/c17_bulk.c and harness/c17_mtbb.cc, same output
   lines.  The input layout of the C harness is mirrored here (function slot j holds function
   number j mod nfun; `many` passes function number many_fid; attribute slot j asks for a stack size
   carrying j in its low bits, reported back as the slot's byte offset, or for stack size 0 = -2). *)
open VariousModel
let zs = Zio.z_of_string and sz = Zio.string_of_z
let zi = Zio.z_of_int and iz = Zio.int_of_z
let fuel = Zio.nat_of_int 70
let nfun = 16 and many_fid = 3
(* arbitrary distinct non-NULL base addresses, far apart *)
let b_ids = 1 lsl 40 and b_attrs = 2 lsl 40 and b_funcs = 3 lsl 40 and b_args = 4 lsl 40 and b_res = 5 lsl 40

let join sep l = String.concat sep l
let sort_uniq_ints l = Stdlib.List.sort_uniq compare l

(* same formulas as harness/c17_bulk.c: which attribute slots ask for stack size 0 *)
let slot_hash seed j = (seed * 7919 + j * 104729 + ((j * j) mod 1009) * 31) mod 1000003
let slot_stack_zero sk seed j = sk = 2 || (sk = 3 && slot_hash seed j mod 3 = 0)
(* child_first of attribute slot j; pattern 5 = what myth_thread_attr_init gives = 1 (the check verifies
   the harness's "info default_child_first=1") *)
let slot_child_first cf seed j = match cf with
  | 0 -> 0 | 1 -> 1 | 2 -> j mod 2 | 3 -> (j + 1) mod 2 | 4 -> slot_hash seed (j + 7) mod 2 | _ -> 1

let rec bulk toks =
  match toks with
  | [_w; _kind; _n; _fs; _as; _rs; _is; _ts; _hr; _hi; _ht] -> bulk (toks @ ["5"; "0"; "0"; "0"])
  | [_w; _kind; _n; _fs; _as; _rs; _is; _ts; _hr; _hi; _ht; _cf; _sk; _seed] -> bulk (toks @ ["0"])
  | [_w; kind; n; fs; as_; rs; is; ts; hr; hi; ht; cf; sk; seed; _wk] ->
    let sk = int_of_string sk and seed = int_of_string seed and cf = int_of_string cf in
    let n = int_of_string n and fs = int_of_string fs and as_ = int_of_string as_ and rs = int_of_string rs
    and is = int_of_string is and ts = int_of_string ts in
    let many_ = (kind = "many") in
    let ids = if hi = "1" then b_ids else 0 and attrs = if ht = "1" then b_attrs else 0
    and results = if hr = "1" then b_res else 0 in
    let out =
      if many_ then many fuel (zi ids) (zi attrs) (zi b_funcs) (zi b_args) (zi results) (zi is) (zi ts) (zi as_) (zi rs) (zi n)
      else various fuel { ids = zi ids; attrs = zi attrs; funcs = zi b_funcs; args = zi b_args; results = zi results;
                          id_stride = zi is; attr_stride = zi ts; func_stride = zi fs; arg_stride = zi as_;
                          result_stride = zi rs } (zi n) in
    (match out with
     | OutOfFuel -> "outoffuel"
     | Done acts ->
       let fid_of (l : leaf) =
         if many_ then many_fid
         else let off = iz l.l_func - b_funcs in if fs = 0 then 0 else (off / fs) mod nfun in
       let lts = leaf_threads acts in
       let lvs = leaves acts in
       let cr = creates acts in
       (* attribute slot (as the harness reports it) of the creation for [a,c): offset, -2 for a slot
          asking for stack size 0, -1 without attributes; and its child_first *)
       let tag_cf at = match at with
         | Some a -> let off = iz a - b_attrs in
           let j = if ts = 0 then 0 else off / ts in
           ((if slot_stack_zero sk seed j then -2 else off), slot_child_first cf seed j)
         | None -> (-1, 1) in
       let atag_of t = match t with
         | None -> -1
         | Some (a, c) ->
           (match Stdlib.List.find_opt (fun ((a', c'), _) -> a' = a && c' = c) cr with
            | Some (_, at) -> fst (tag_cf at) | None -> -99) in
       let inv = Stdlib.List.map2 (fun (l : leaf) (_, t) -> (fid_of l, iz l.l_arg - b_args, (match t with None -> 1 | Some _ -> 0), atag_of t)) lvs lts in
       let inv = Stdlib.List.sort compare inv in
       let res = Stdlib.List.filter_map (fun (l : leaf) -> match l.l_res with
           | Some r -> Some (iz r - b_res, fid_of l, iz l.l_arg - b_args) | None -> None) lvs in
       let res = Stdlib.List.sort_uniq compare res in
       let idl = sort_uniq_ints (Stdlib.List.filter_map (fun (l : leaf) -> match l.l_id with Some r -> Some (iz r - b_ids) | None -> None) lvs) in
       let cre = Stdlib.List.sort compare (Stdlib.List.map (fun (_, at) -> tag_cf at) cr) in
       let njoin = Stdlib.List.length (Stdlib.List.filter (fun a -> match a with AJoin _ -> true | _ -> false) acts) in
       let balanced = (match fj [] acts with Some [] -> true | _ -> false) in
       Printf.sprintf "ret=0 inv=%s res=%s resstray=0 ids=%s idmis=0 idstray=0 cre=%s created=%d reaped=%d argchg=0 funchg=0 attrchg=0 stkbad=0%s"
         (join "," (Stdlib.List.map (fun (f, o, i, t) -> Printf.sprintf "%d:%d:%d:%d" f o i t) inv))
         (join "," (Stdlib.List.map (fun (r, f, o) -> Printf.sprintf "%d:%d:%d" r f o) res))
         (join "," (Stdlib.List.map string_of_int idl))
         (join "," (Stdlib.List.map (fun (o, c) -> Printf.sprintf "%d:%d" o c) cre))
         (Stdlib.List.length cr) njoin (if balanced then "" else " UNBALANCED"))
  | _ -> "badcase"

(* one call over n items, arrays of 8-byte slots: every index once *)
let bulkbig toks =
  match toks with
  | [_w; kind; n; _ny] ->
    let n = int_of_string n in
    let out =
      if kind = "many" then many fuel (zi 0) (zi 0) (zi b_funcs) (zi b_args) (zi b_res) (zi 0) (zi 0) (zi 8) (zi 8) (zi n)
      else various fuel { ids = zi 0; attrs = zi 0; funcs = zi b_funcs; args = zi b_args; results = zi b_res;
                          id_stride = zi 0; attr_stride = zi 0; func_stride = zi 0; arg_stride = zi 8;
                          result_stride = zi 8 } (zi n) in
    (match out with
     | OutOfFuel -> "outoffuel"
     | Done acts ->
       let cnt = Array.make (n + 1) 0 and resok = ref 0 in
       Stdlib.List.iter (fun (l : leaf) ->
           let i = iz l.l_i in
           if i >= 0 && i < n && iz l.l_arg - b_args = 8 * i then cnt.(i) <- cnt.(i) + 1 else cnt.(n) <- cnt.(n) + 1;
           (match l.l_res with Some r when iz r - b_res = 8 * i -> incr resok | _ -> ())) (leaves acts);
       let once = ref 0 and other = ref 0 in
       for i = 0 to n - 1 do if cnt.(i) = 1 then incr once else incr other done;
       if cnt.(n) <> 0 then incr other;
       let ncr = Stdlib.List.length (creates acts) in
       let njoin = Stdlib.List.length (Stdlib.List.filter (fun a -> match a with AJoin _ -> true | _ -> false) acts) in
       Printf.sprintf "big ret=0 n=%d once=%d other=%d resok=%d created=%d reaped=%d" n !once !other !resok ncr njoin)
  | _ -> "badcase"

(* ---- task_group ---- *)
open TaskGroupModel
let tg toks =
  match toks with
  | _w :: cap :: csz :: sizes :: ops ->
    let cap = zs cap and csz = zs csz in
    let sizes = Array.of_list (Stdlib.List.map zs (String.split_on_char ',' sizes)) in
    let st = ref (tg_init csz) in
    let buf = Buffer.create 256 in
    let cycle = ref 0 in
    let shape_nodes s = join "/" (Stdlib.List.map sz (tl_shape s.tasks)) in
    let shape_mem s = join "/" (Stdlib.List.map (fun (a, b) -> sz a ^ "." ^ sz b) (mem_shape s.tmem)) in
    let fail = ref false in
    Stdlib.List.iter (fun o ->
        if not !fail then begin
          let op = if o = "w" then Wait else Run sizes.(int_of_string (String.sub o 1 (String.length o - 1))) in
          match exec cap csz [op] !st with
          | None -> fail := true; Buffer.add_string buf "assert "
          | Some (st', evs) ->
            st := st';
            (match op with
             | Run _ ->
               incr cycle;
               (match evs with
                | [ECreate (_, ch, off, s)] ->
                  let sh = tl_shape st'.tasks in
                  Buffer.add_string buf (Printf.sprintf "r:%d:%s:%s:%d:%s " (Zio.int_of_nat ch) (sz off) (sz s)
                                           (Stdlib.List.length sh) (sz (Stdlib.List.nth sh (Stdlib.List.length sh - 1))))
                | _ -> Buffer.add_string buf "r:? ")
             | Wait ->
               let joined = Stdlib.List.length (Stdlib.List.filter (fun e -> match e with EJoin _ -> true | _ -> false) evs) in
               Buffer.add_string buf (Printf.sprintf "w:%d:%d:%d:0:%s:%s " joined !cycle !cycle (shape_nodes st') (shape_mem st'));
               cycle := 0)
        end) ops;
    Buffer.add_string buf "end:0";
    Buffer.contents buf
  | _ -> "badcase"

(* ---- parallel_for ---- *)
open ParForModel
let rec pf toks =
  match toks with
  | [w; form; ty; first; last; step; grain; _wk] -> pf [w; form; ty; first; last; step; grain]
  | [_w; form; ty; first; last; step; grain] ->
    let bits = zi (if ty = "i" then 32 else 64) in
    let first = zs first and last = zs last and step = zs step and grain = zs grain in
    let calls l = "calls=" ^ join "," (Stdlib.List.map sz l) in
    (match form with
     | "fl" -> if not (pf2_guard bits first last) then "overflow" else
         (match pf2 fuel first last with PDone l -> calls l | POutOfFuel -> "outoffuel")
     | "fls" -> if not (pf3_guard bits first last step) then "overflow" else
         (match pf3 fuel first last step with PDone l -> calls l | POutOfFuel -> "outoffuel")
     | "prefix" ->   (* the code before the repair, for the record *)
         (match pf_aux_prefix fuel first (zi 0) (count3 first last step) step with PDone l -> calls l | POutOfFuel -> "outoffuel")
     | "flsg" -> if not (pg_guard bits first last step grain) then "overflow" else
         (match pf_grain fuel first last step grain with
          | GDone l -> "leaves=" ^ join "," (Stdlib.List.map (fun (_, (lo, hi)) -> sz lo ^ ":" ^ sz hi) l)
          | GOutOfFuel -> "outoffuel")
     | "gprefix" ->  (* the grain-size code before its repair, for the record *)
         (match pg_aux_prefix fuel first (zi 0) (count3 first last step) step grain with
          | GDone l -> "leaves=" ^ join "," (Stdlib.List.map (fun (_, (lo, hi)) -> sz lo ^ ":" ^ sz hi) l)
          | GOutOfFuel -> "outoffuel")
     | "rng" -> if not (pr_guard bits first last grain) then "overflow" else
         (match pr_aux fuel first last grain with
          | RDone l -> "leaves=" ^ join "," (Stdlib.List.map (fun (a, b) -> sz a ^ ":" ^ sz b) l)
          | ROutOfFuel -> "outoffuel")
     | _ -> "badcase")
  | _ -> "badcase"

(* parallel_for(0, n, f) over n yielding bodies: every index once *)
let pfbig toks =
  match toks with
  | [_w; n; _ny] ->
    let n = int_of_string n in
    (match pf2 fuel (zi 0) (zi n) with
     | POutOfFuel -> "outoffuel"
     | PDone l ->
       let cnt = Array.make (n + 1) 0 in
       Stdlib.List.iter (fun v -> let i = iz v in if i >= 0 && i < n then cnt.(i) <- cnt.(i) + 1 else cnt.(n) <- cnt.(n) + 1) l;
       let once = ref 0 and other = ref 0 in
       for i = 0 to n - 1 do if cnt.(i) = 1 then incr once else incr other done;
       if cnt.(n) <> 0 then incr other;
       Printf.sprintf "big n=%d once=%d other=%d" n !once !other)
  | _ -> "badcase"

let () =
  try while true do
      let l = input_line stdin in
      let toks = Stdlib.List.filter (fun s -> s <> "") (String.split_on_char ' ' (String.trim l)) in
      (match toks with
       | "bulk" :: r -> print_endline (bulk r)
       | "bulkbig" :: r -> print_endline (bulkbig r)
       | "pfbig" :: r -> print_endline (pfbig r)
       | "tg" :: r -> print_endline (tg r)
       | "pf" :: r -> print_endline (pf r)
       | [] -> ()
       | _ -> print_endline "badcase")
    done with End_of_file -> ()
