(* Trace validator for Abs(uncond) (coq/Uncond/UncondModel.v), property C08.
   Input: blocks, one per uncondition variable of a run
     begin <nthreads>
     announce <t>
     call <t> <wait|signal>
     tick <t> <m|c> <label> <val|-> <th|->      th = u->th immediately before the access (thread tag or -)
     ret <t> <v>
     end
   Output: one line per block: "ok <events> ann=.. waits=.. sigs=.. pushes=.." or "FAIL <line-in-block> <reason>". *)
open UncondModel
let zs = Zio.z_of_string
let ni = Zio.nat_of_int and ino = Zio.int_of_nat
let bit b k = if b then 1 lsl k else 0
let char_of_ascii = function Ascii.Ascii (a,b,c,d,e,f,g,h) ->
  Char.chr (bit a 0 + bit b 1 + bit c 2 + bit d 3 + bit e 4 + bit f 5 + bit g 6 + bit h 7)
let rec str = function String.EmptyString -> "" | String.String (a, r) -> Stdlib.String.make 1 (char_of_ascii a) ^ str r
let split l = Stdlib.List.filter (fun s -> s <> "") (Stdlib.String.split_on_char ' ' l)
let parse_op = function
  | "wait" -> Wait | "signal" -> Signal
  | o -> failwith ("bad op " ^ o)
let thstr = function None -> "-" | Some n -> string_of_int (ino n)
let () =
  let st = ref (init_state (ni 0)) and ln = ref 0 and cnt = ref 0 and failed = ref None in
  let fail msg = if !failed = None then failed := Some (Printf.sprintf "FAIL %d %s" !ln msg) in
  try while true do
    let l = input_line stdin in
    incr ln;
    (match split l with
     | ["begin"; nt] -> st := init_state (ni (int_of_string nt)); ln := 0; cnt := 0; failed := None
     | ["end"] ->
         (match !failed with
          | Some m -> print_endline m
          | None -> Printf.printf "ok %d ann=%d waits=%d sigs=%d pushes=%d\n" !cnt (ino (ann !st)) (ino (waits !st))
                      (ino (sigs !st)) (ino (pushes !st)))
     | _ when !failed <> None -> ()
     | ["announce"; t] ->
         (match step !st (ni (int_of_string t), EAnnounce) with
          | Some s' -> st := s'; incr cnt
          | None -> fail (Printf.sprintf "announcement by t%s while the previous rendezvous is still open (protocol precondition)" t))
     | ["call"; t; o] ->
         (match step !st (ni (int_of_string t), ECall (parse_op o)) with
          | Some s' -> st := s'; incr cnt
          | None -> fail (Printf.sprintf "call not enabled in the model (protocol precondition): t%s %s" t o))
     | "ret" :: t :: v :: _ ->
         (match step !st (ni (int_of_string t), ERet (zs v)) with
          | Some s' -> st := s'; incr cnt
          | None -> fail (Printf.sprintf "t%s returned %s but in the model its call is not complete (no push yet) or returns another value" t v))
     | ["tick"; t; ctx; lab; v; obs] ->
         let tn = ni (int_of_string t) and incb = (ctx = "c") in
         let ml = str (label !st tn incb) in
         if ml <> lab then fail (Printf.sprintf "t%s(%s) executes POINT %s but the model expects %s" t ctx lab (if ml = "" then "<no step>" else ml))
         else begin
           (match lval !st tn incb with
            | Some mv when v <> "-" && string_of_int (ino mv) <> v ->
                fail (Printf.sprintf "t%s POINT %s names thread %s, model expects %d" t lab v (ino mv))
            | _ -> ());
           (if obs <> thstr (th !st) then
              fail (Printf.sprintf "before t%s %s: u->th differs: impl %s model %s" t lab obs (thstr (th !st))));
           (match step !st (tn, if incb then ECbTick else ETick) with
            | Some s' -> st := s'; incr cnt
            | None -> fail (Printf.sprintf "step %s of t%s not enabled in the model (push of a thread that is not suspended with a saved context?)" lab t))
         end
     | [] -> ()
     | _ -> fail ("unparsable line: " ^ l))
  done with End_of_file -> ()
