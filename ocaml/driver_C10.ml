(* C10 model driver: same case language as harness/c10_tls_unit.c, same output lines.
   Runs the extracted Tls/TlsTreeModel.v, Tls/TlsKeysModel.v, Tls/TlsSysModel.v. *)
module T = TlsTreeModel
module K = TlsKeysModel
module S = TlsSysModel
let zs = Zio.z_of_string and sz = Zio.string_of_z
let zi = Zio.z_of_int and iz = Zio.int_of_z
let toks = ref []
let rec next () = match !toks with
  | t :: r -> toks := r; t
  | [] -> let l = input_line stdin in
          toks := Stdlib.List.filter (fun s -> s <> "") (Stdlib.String.split_on_char ' ' l); next ()
let nexti () = int_of_string (next ())
let b = Buffer.create 65536
let out s = Buffer.add_string b s
let flush_line () = print_string (Buffer.contents b); print_newline (); Buffer.clear b

let org = function T.Pool o -> "P" ^ sz o | T.Heap i -> "H" ^ sz i
let rec dump = function
  | T.Nil -> out "-"
  | T.Leaf (o, es) ->
     out ("L" ^ org o ^ "{");
     Stdlib.List.iteri (fun i v -> if v <> BinNums.Z0 then out (Printf.sprintf "%d=%s," i (sz v))) es;
     out "}"
  | T.Inner (o, c0, c1, c2, c3) ->
     out ("I" ^ org o ^ "("); dump c0; dump c1; dump c2; dump c3; out ")"

let cell p = if p = -1 then "N" else if p = -2 then "L" else if p >= 0 && p < 1024 then string_of_int p else "?"
let valid p = p >= 0 && p < 1024
(* ascending runs a, a+1, .., b are printed as "a..b," *)
let run_lo = ref (-1) and run_hi = ref (-1)
let run_flush () =
  if !run_lo >= 0 then begin
    (if !run_lo = !run_hi then out (Printf.sprintf "%d," !run_lo) else out (Printf.sprintf "%d..%d," !run_lo !run_hi));
    run_lo := -1; run_hi := -1 end
let run_add k =
  if !run_lo >= 0 && k = !run_hi + 1 then run_hi := k else (run_flush (); run_lo := k; run_hi := k)
let dump_keys (ks : K.kst) =
  out "free=";
  let p = ref (iz ks.K.kfree) and n = ref 0 in
  while valid !p && !n < 1100 do
    run_add !p; p := iz (ks.K.knext (zi !p)); incr n
  done;
  run_flush ();
  if !p <> -1 then out ("!" ^ cell !p);
  out " live=";
  for i = 0 to 1023 do if iz (ks.K.knext (zi i)) = -2 then run_add i done;
  run_flush ()

let read_op () =
  let o = next () in let a = zs (next ()) in
  if o.[0] = 'c' then K.Create a else K.Delete a

let run_conc () =
  let nt = nexti () in
  let prog = Array.make nt [] in
  for t = 0 to nt - 1 do
    let n = nexti () in
    prog.(t) <- Stdlib.List.init n (fun _ -> read_op ())
  done;
  let _ = next () in
  let m = nexti () in
  let sched = Stdlib.List.init m (fun _ -> nexti ()) in
  let s = ref (K.init (Zio.nat_of_int nt)) in
  let res = Array.make nt [] in
  let ok = ref true in
  let pc_of t = Stdlib.List.nth (!s).K.threads t in
  let step_entry t =
    let h = iz (!s).K.ks.K.kfree in
    if h <> -1 && not (valid h) then (out " CORRUPT"; ok := false)
    else begin
      let nat_t = Zio.nat_of_int t in
      let what =
        (match pc_of t with
         | K.Idle ->
            (match prog.(t) with
             | [] -> Some "-"
             | o :: r -> prog.(t) <- r;
                         (match K.step !s (nat_t, K.Call o) with
                          | Some s' -> s := s'; None
                          | None -> Some "DISABLED"))
         | _ -> (match K.step !s (nat_t, K.Tick) with
                 | Some s' -> s := s'; None
                 | None -> Some "STUCK")) in
      let what = match what with
        | Some w -> w
        | None ->
           (match pc_of t with
            | K.Done r -> (match K.step !s (nat_t, K.Ret) with Some s' -> s := s' | None -> ());
                          res.(t) <- r :: res.(t); "R" ^ sz r
            | K.AHead _ -> "ah"
            | K.ANext _ as p -> "an:" ^ sz (K.label_val p)
            | K.ACas _ as p -> "ac:" ^ sz (K.label_val p)
            | K.DCheck _ as p -> "dk:" ^ sz (K.label_val p)
            | K.DHead _ as p -> "dh:" ^ sz (K.label_val p)
            | K.DCas _ as p -> "dc:" ^ sz (K.label_val p)
            | K.Idle -> "idle") in
      out (Printf.sprintf " %d:%s/f%s" t what (cell (iz (!s).K.ks.K.kfree)))
    end in
  out "conc";
  Stdlib.List.iter (fun t -> if !ok then (if t < 0 || t >= nt then out " ?" else step_entry t)) sched;
  if !ok then begin
    out " ;";
    for t = 0 to nt - 1 do
      let fuel = ref 4000 in
      let busy () = prog.(t) <> [] || (match pc_of t with K.Idle -> false | _ -> true) in
      while !ok && busy () && !fuel > 0 do decr fuel; step_entry t done
    done
  end;
  out " | res";
  for t = 0 to nt - 1 do
    out (Printf.sprintf " T%d" t);
    Stdlib.List.iter (fun r -> out (" " ^ sz r)) (Stdlib.List.rev res.(t))
  done;
  out " | "; dump_keys (!s).K.ks;
  flush_line ()

let () =
  try while true do
    let op = next () in
    (match op with
     | "consts" ->
        out "consts"; Stdlib.List.iter (fun z -> out (" " ^ sz z)) T.consts; flush_line ()
     | "tree" ->
        let n = nexti () in
        let t = ref T.empty and bad = ref false in
        out "tree";
        for _ = 1 to n do
          let o = next () in
          (match o.[0] with
           | 's' -> let k = zs (next ()) in let v = zs (next ()) in
                    if !bad then out " ASSERT" else
                    (match T.set !t k v with
                     | Some (t', rc) -> t := t'; out (" r" ^ sz rc)
                     | None -> bad := true; out " ASSERT")
           | 'g' -> let k = zs (next ()) in
                    (match T.get !t k with Some v -> out (" v" ^ sz v) | None -> out " ASSERT")
           | 'd' -> out " "; dump (!t).T.root
           | _ -> failwith "bad tree op")
        done;
        out (Printf.sprintf " pp=%s nh=%s" (sz (!t).T.pp) (sz (!t).T.nheap)); flush_line ()
     | "keys" ->
        let n = nexti () in
        let ks = ref K.kinit and h = ref [] in
        out "keys";
        for _ = 1 to n do
          let o = read_op () in
          (match K.seq_op !ks !h o with
           | Some ((k', h'), r) -> ks := k'; h := h'; out (" " ^ sz r)
           | None -> out " OUTOFFUEL")
        done;
        out " "; dump_keys !ks; flush_line ()
     | "sys" ->
        let nt = nexti () in let n = nexti () in
        let s = ref (S.sys_init (Zio.nat_of_int nt)) in
        out "sys";
        for _ = 1 to n do
          let o = next () in
          let sop = (match o.[0] with
            | 'c' -> S.KCreate (zs (next ()))
            | 'x' -> S.KDelete (zs (next ()))
            | 's' -> let t = nexti () in let k = zs (next ()) in let v = zs (next ()) in S.TSet (Zio.nat_of_int t, k, v)
            | 'g' -> let t = nexti () in let k = zs (next ()) in S.TGet (Zio.nat_of_int t, k)
            | 'n' -> S.TSpawn (Zio.nat_of_int (nexti ()))
            | _ -> failwith "bad sys op") in
          (match S.sys_step !s sop with
           | Some (s', r) -> s := s'; out (" " ^ sz r)
           | None -> out " NONE")
        done;
        flush_line ()
     | "conc" -> run_conc ()
     | _ -> failwith ("bad op " ^ op))
  done with End_of_file -> ()
