(* C10 model driver: same case language as harness/c10_tls_unit.c, same output lines.
   Runs the extracted Tls/TlsTreeModel.v, Tls/TlsKeysModel.v, Tls/TlsKeysLockModel.v, Tls/TlsSysModel.v.
   The first case "variant <tagged> <locked>" selects the model variant (generation tags in the
   tree / key table; key free list under a spin lock) - the check probes which one the library is. *)
module T = TlsTreeModel
module K = TlsKeysModel
module L = TlsKeysLockModel
module S = TlsSysModel
let zs = Zio.z_of_string and sz = Zio.string_of_z
let zi = Zio.z_of_int and iz = Zio.int_of_z
let toks = ref []
let rec next () = match !toks with
  | t :: r -> toks := r; t
  | [] -> let l = input_line stdin in
          toks := Stdlib.List.filter (fun s -> s <> "") (Stdlib.String.split_on_char ' ' l); next ()
let nexti () = int_of_string (next ())
let b = Buffer.create 65536
let out s = Buffer.add_string b s
let flush_line () = print_string (Buffer.contents b); print_newline (); Buffer.clear b

let tagged = ref false
let locked = ref false
let cfg () = if !tagged then T.cfg_tagged else T.cfg_plain

let org = function T.Pool o -> "P" ^ sz o | T.Heap i -> "H" ^ sz i
let rec dump = function
  | T.Nil -> out "-"
  | T.Leaf (o, es) ->
     out ("L" ^ org o ^ "{");
     Stdlib.List.iteri (fun i (v, g) ->
         if !tagged then (if v <> BinNums.Z0 || g <> BinNums.Z0 then out (Printf.sprintf "%d=%s@%s," i (sz v) (sz g)))
         else (if v <> BinNums.Z0 then out (Printf.sprintf "%d=%s," i (sz v)))) es;
     out "}"
  | T.Inner (o, c0, c1, c2, c3) ->
     out ("I" ^ org o ^ "("); dump c0; dump c1; dump c2; dump c3; out ")"

let cell p = if p = -1 then "N" else if p = -2 then "L" else if p >= 0 && p < 1024 then string_of_int p else "?"
let valid p = p >= 0 && p < 1024
(* ascending runs a, a+1, .., b are printed as "a..b," *)
let run_lo = ref (-1) and run_hi = ref (-1)
let run_flush () =
  if !run_lo >= 0 then begin
    (if !run_lo = !run_hi then out (Printf.sprintf "%d," !run_lo) else out (Printf.sprintf "%d..%d," !run_lo !run_hi));
    run_lo := -1; run_hi := -1 end
let run_add k =
  if !run_lo >= 0 && k = !run_hi + 1 then run_hi := k else (run_flush (); run_lo := k; run_hi := k)
let dump_keys (ks : K.kst) =
  out "free=";
  let p = ref (iz ks.K.kfree) and n = ref 0 in
  while valid !p && !n < 1100 do
    run_add !p; p := iz (ks.K.knext (zi !p)); incr n
  done;
  run_flush ();
  if !p <> -1 then out ("!" ^ cell !p);
  out " live=";
  for i = 0 to 1023 do if iz (ks.K.knext (zi i)) = -2 then run_add i done;
  run_flush ();
  if !tagged then begin
    out " gen=";
    for i = 0 to 1023 do let g = ks.K.kgen (zi i) in if g <> BinNums.Z0 then out (Printf.sprintf "%d:%s," i (sz g)) done
  end;
  out " dt=";
  for i = 0 to 1023 do let d = ks.K.kdtor (zi i) in if d <> BinNums.Z0 then out (Printf.sprintf "%d:%s," i (sz d)) done

let read_op () =
  let o = next () in let a = zs (next ()) in
  if o.[0] = 'c' then K.Create a else K.Delete a

(* lock-step run; [st] abstracts over the lock-free and the locked model *)
type 'a sys_ops = {
  head : 'a -> int;
  idle : 'a -> int -> bool;
  stepf : 'a -> (Datatypes.nat * K.ev) -> 'a option;
  after : 'a -> int -> string option * BinNums.coq_Z option;   (* where the thread now waits / result *)
  kst : 'a -> K.kst }

let run_conc_with (type a) (ops : a sys_ops) (s0 : a) nt prog sched =
  let s = ref s0 in
  let res = Array.make nt [] in
  let ok = ref true in
  let step_entry t =
    let h = ops.head !s in
    if h <> -1 && not (valid h) then (out " CORRUPT"; ok := false)
    else begin
      let nat_t = Zio.nat_of_int t in
      let what =
        if ops.idle !s t then
          (match prog.(t) with
           | [] -> Some "-"
           | o :: r -> prog.(t) <- r;
                       (match ops.stepf !s (nat_t, K.Call o) with
                        | Some s' -> s := s'; None
                        | None -> Some "DISABLED"))
        else (match ops.stepf !s (nat_t, K.Tick) with
              | Some s' -> s := s'; None
              | None -> Some "STUCK") in
      let what = match what with
        | Some w -> w
        | None ->
           (match ops.after !s t with
            | _, Some r -> (match ops.stepf !s (nat_t, K.Ret) with Some s' -> s := s' | None -> ());
                           res.(t) <- r :: res.(t); "R" ^ sz r
            | Some w, None -> w
            | None, None -> "idle") in
      out (Printf.sprintf " %d:%s/f%s" t what (cell (ops.head !s)))
    end in
  out "conc";
  Stdlib.List.iter (fun t -> if !ok then (if t < 0 || t >= nt then out " ?" else step_entry t)) sched;
  if !ok then begin
    out " ;";
    (* run every program to its end, round robin in thread order *)
    let fuel = ref 20000 in
    let busy t = prog.(t) <> [] || not (ops.idle !s t) in
    let any = ref true in
    while !ok && !any && !fuel > 0 do
      any := false;
      for t = 0 to nt - 1 do
        if !ok && busy t && !fuel > 0 then (any := true; decr fuel; step_entry t)
      done
    done
  end;
  out " | res";
  for t = 0 to nt - 1 do
    out (Printf.sprintf " T%d" t);
    Stdlib.List.iter (fun r -> out (" " ^ sz r)) (Stdlib.List.rev res.(t))
  done;
  out " | "; dump_keys (ops.kst !s);
  flush_line ()

let free_ops = {
  head = (fun s -> iz s.K.ks.K.kfree);
  idle = (fun s t -> match Stdlib.List.nth s.K.threads t with K.Idle -> true | _ -> false);
  stepf = (fun s a -> K.step !tagged s a);
  after = (fun s t -> match Stdlib.List.nth s.K.threads t with
                      | K.Done r -> None, Some r
                      | K.AHead _ -> Some "ah", None
                      | K.ANext _ as p -> Some ("an:" ^ sz (K.label_val p)), None
                      | K.ACas _ as p -> Some ("ac:" ^ sz (K.label_val p)), None
                      | K.DCheck _ as p -> Some ("dk:" ^ sz (K.label_val p)), None
                      | K.DHead _ as p -> Some ("dh:" ^ sz (K.label_val p)), None
                      | K.DCas _ as p -> Some ("dc:" ^ sz (K.label_val p)), None
                      | K.Idle -> None, None);
  kst = (fun s -> s.K.ks) }

let lock_ops = {
  head = (fun s -> iz s.L.lks.K.kfree);
  idle = (fun s t -> match Stdlib.List.nth s.L.lthreads t with L.LIdle -> true | _ -> false);
  stepf = (fun s a -> L.lstep !tagged s a);
  after = (fun s t -> match Stdlib.List.nth s.L.lthreads t with
                      | L.LDone r -> None, Some r
                      | L.LTry _ -> Some "st", None
                      | L.LWait _ -> Some "sw", None
                      | L.LUnlock _ -> Some "su", None
                      | L.LAHead _ -> Some "ah", None
                      | L.LANext _ as p -> Some ("an:" ^ sz (L.llabel_val p)), None
                      | L.LAStore _ as p -> Some ("ac:" ^ sz (L.llabel_val p)), None
                      | L.LDCheck _ as p -> Some ("dk:" ^ sz (L.llabel_val p)), None
                      | L.LDHead _ as p -> Some ("dh:" ^ sz (L.llabel_val p)), None
                      | L.LDStore _ as p -> Some ("dc:" ^ sz (L.llabel_val p)), None
                      | L.LIdle -> None, None);
  kst = (fun s -> s.L.lks) }

let run_conc () =
  let nt = nexti () in
  let prog = Array.make nt [] in
  for t = 0 to nt - 1 do
    let n = nexti () in
    prog.(t) <- Stdlib.List.init n (fun _ -> read_op ())
  done;
  let _ = next () in
  let m = nexti () in
  let sched = Stdlib.List.init m (fun _ -> nexti ()) in
  if !locked then run_conc_with lock_ops (L.linit (Zio.nat_of_int nt)) nt prog sched
  else run_conc_with free_ops (K.init (Zio.nat_of_int nt)) nt prog sched

let () =
  try while true do
    let op = next () in
    (match op with
     | "variant" ->
        tagged := (nexti () <> 0); locked := (nexti () <> 0);
        out (Printf.sprintf "variant %d %d" (if !tagged then 1 else 0) (if !locked then 1 else 0)); flush_line ()
     | "widths" ->
        (* width in bytes of the generation fields (key table cell, tree slot): GEN_MOD = 2^32 *)
        out (if !tagged then "widths 4 4" else "widths 0 0"); flush_line ()
     | "consts" ->
        out "consts"; Stdlib.List.iter (fun z -> out (" " ^ sz z)) (T.consts (cfg ())); flush_line ()
     | "tree" ->
        let n = nexti () in
        let t = ref T.empty and bad = ref false in
        let kg = Array.make 1024 0 in
        let kgf z = let k = iz z in if valid k then zi kg.(k) else BinNums.Z0 in
        out "tree";
        for _ = 1 to n do
          let o = next () in
          (match o.[0] with
           | 's' -> let k = zs (next ()) in let v = zs (next ()) in
                    if !bad then out " ASSERT" else
                    (match T.set (cfg ()) kgf !t k v with
                     | Some (t', rc) -> t := t'; out (" r" ^ sz rc)
                     | None -> bad := true; out " ASSERT")
           | 'g' -> let k = zs (next ()) in
                    (match T.get kgf !t k with Some v -> out (" v" ^ sz v) | None -> out " ASSERT")
           | 'b' -> let k = nexti () in
                    (if !tagged && valid k then kg.(k) <- (kg.(k) + 1) land 0xFFFFFFFF); out " b"
           | 'r' -> let k = nexti () in let n = nexti () in
                    (if !tagged && valid k then kg.(k) <- (kg.(k) + n) land 0xFFFFFFFF); out " b"
           | 'd' -> out " "; dump (!t).T.root
           | _ -> failwith "bad tree op")
        done;
        out (Printf.sprintf " pp=%s nh=%s" (sz (!t).T.pp) (sz (!t).T.nheap)); flush_line ()
     | "keys" ->
        let n = nexti () in
        let ks = ref K.kinit and h = ref [] in
        out "keys";
        for _ = 1 to n do
          let o = next () in
          if o.[0] = 'r' then begin
            (* N create/delete cycles of the head index: the proved closed form (C10_cycles_closed_form) *)
            let cnt = nexti () in let d = zs (next ()) in
            let k = iz (!ks).K.kfree in
            if not (valid k) then out " r-1"
            else ((if cnt >= 1 then ks := K.cycle_n !tagged !ks d (zi cnt)); out (Printf.sprintf " r%dx%d" k cnt))
          end else begin
            let a = zs (next ()) in
            let o = if o.[0] = 'c' then K.Create a else K.Delete a in
            (match K.seq_op !tagged !ks !h o with
             | Some ((k', h'), r) -> ks := k'; h := h'; out (" " ^ sz r)
             | None -> out " OUTOFFUEL")
          end
        done;
        out " "; dump_keys !ks; flush_line ()
     | "sys" ->
        let nt = nexti () in let n = nexti () in
        let var = { S.v_tagged = !tagged; S.v_cfg = cfg () } in
        let s = ref (S.sys_init (Zio.nat_of_int nt)) in
        out "sys";
        for _ = 1 to n do
          let o = next () in
          if o.[0] = 'r' then begin
            let cnt = nexti () in let d = zs (next ()) in
            let k = iz (!s).S.sk.K.kfree in
            if not (valid k) then out " r-1"
            else ((if cnt >= 1 then s := { !s with S.sk = K.cycle_n !tagged (!s).S.sk d (zi cnt) });
                  out (Printf.sprintf " r%dx%d" k cnt))
          end else
          let sop = (match o.[0] with
            | 'c' -> S.KCreate (zs (next ()))
            | 'x' -> S.KDelete (zs (next ()))
            | 's' -> let t = nexti () in let k = zs (next ()) in let v = zs (next ()) in S.TSet (Zio.nat_of_int t, k, v)
            | 'g' -> let t = nexti () in let k = zs (next ()) in S.TGet (Zio.nat_of_int t, k)
            | 'n' -> S.TSpawn (Zio.nat_of_int (nexti ()))
            | _ -> failwith "bad sys op") in
          (match S.sys_step var !s sop with
           | Some (s', r) -> s := s'; out (" " ^ sz r)
           | None -> out " NONE")
        done;
        flush_line ()
     | "conc" -> run_conc ()
     | _ -> failwith ("bad op " ^ op))
  done with End_of_file -> ()
