(* conversions between OCaml ints/strings and the extracted binary integers.
   Shared by every driver (copied next to the extracted code). *)
open BinNums
let rec pos_of_int n = if n = 1 then Coq_xH else if n land 1 = 0 then Coq_xO (pos_of_int (n lsr 1)) else Coq_xI (pos_of_int (n lsr 1))
let z_of_int n = if n = 0 then Z0 else if n > 0 then Zpos (pos_of_int n) else Zneg (pos_of_int (-n))
let n_of_int n = if n = 0 then N0 else Npos (pos_of_int n)
let rec int_of_pos = function Coq_xH -> 1 | Coq_xO p -> 2 * int_of_pos p | Coq_xI p -> 2 * int_of_pos p + 1
let int_of_z = function Z0 -> 0 | Zpos p -> int_of_pos p | Zneg p -> - (int_of_pos p)
let int_of_n = function N0 -> 0 | Npos p -> int_of_pos p
let rec nat_of_int n = if n <= 0 then Datatypes.O else Datatypes.S (nat_of_int (n - 1))
let rec int_of_nat = function Datatypes.O -> 0 | Datatypes.S n -> 1 + int_of_nat n
(* decimal strings of arbitrary size (for 64-bit values that do not fit OCaml's 63-bit int) *)
let z_of_string s =
  let neg = Stdlib.String.length s > 0 && Stdlib.String.get s 0 = '-' in
  let s = if neg then Stdlib.String.sub s 1 (Stdlib.String.length s - 1) else s in
  let ten = z_of_int 10 in
  let r = ref Z0 in
  Stdlib.String.iter (fun c -> r := BinInt.Z.add (BinInt.Z.mul !r ten) (z_of_int (Char.code c - 48))) s;
  if neg then BinInt.Z.opp !r else !r
let string_of_z z =
  let ten = z_of_int 10 in
  let neg, z = (match z with Zneg p -> true, Zpos p | _ -> false, z) in
  if z = Z0 then "0" else begin
    let b = Buffer.create 20 in
    let rec go z acc = if z = Z0 then acc else
      let q, r = BinInt.Z.div_eucl z ten in go q (string_of_int (int_of_z r) :: acc) in
    Stdlib.List.iter (Buffer.add_string b) (go z []);
    (if neg then "-" else "") ^ Buffer.contents b
  end
