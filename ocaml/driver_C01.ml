(* Trace validator for Abs(thread descriptor) (coq/Sched/DescModel.v), shared by the C01 and C13 checks.
   Input: blocks
     begin <nthreads> <default-stacksize> [cfg [gcf]]  cfg: now | prefix_nullid | prefix_det; gcf: global child_first (default 1)
     call <j> create <c> <none|attr[:pf][:cf][:det][:ss=N][:gs=N][:stk=N][:oldinit]> <nullid 0|1> <arg>
     call <j> join|tryjoin|timedjoin|detach <t>
     call <j> return|exit <v>
     tick <j> <m|c> <label> <val|-> <target|-> <st> <jt|-> <det> <lk>      (P lines, E create.start / free.stack)
     led <alloc.desc|alloc.stack|free.desc> <t> [size]                      (ledger events of thread t)
     call <j> cancel <t> | testcancel <acted|cont> | setcancel <0|1>     (silent atomic steps, see below)
     kact <j>                                   the testcancel of j did not return: j takes its exit path (E finish.enter)
     ret <j> <v> <joined|->
     end
   and, for the sequential allocator model,
     abegin / acreate <det 0|1> <d> <s> / afinish <t> / areap <t> / adetach <t> / aend
   Output: one line per block: "ok <events> <silent>" or "FAIL <line-in-block> <reason>";
           allocator blocks: "aok <records from system> <stacks from system>" or "FAIL ...". *)
open DescModel
let zs = Zio.z_of_string and sz = Zio.string_of_z
let ni = Zio.nat_of_int and ino = Zio.int_of_nat
let bit b k = if b then 1 lsl k else 0
let char_of_ascii = function Ascii.Ascii (a,b,c,d,e,f,g,h) ->
  Char.chr (bit a 0 + bit b 1 + bit c 2 + bit d 3 + bit e 4 + bit f 5 + bit g 6 + bit h 7)
let rec str = function String.EmptyString -> "" | String.String (a, r) -> Stdlib.String.make 1 (char_of_ascii a) ^ str r
let split l = Stdlib.List.filter (fun s -> s <> "") (Stdlib.String.split_on_char ' ' l)
let starts p s = Stdlib.String.length s >= Stdlib.String.length p && Stdlib.String.sub s 0 (Stdlib.String.length p) = p

let glob = ref { g_stacksize = zs "131072"; g_guardsize = zs "0"; g_child_first = zs "1" }

let parse_attr spec =
  if spec = "none" then None
  else begin
    let parts = Stdlib.String.split_on_char ':' spec in
    let old = Stdlib.List.mem "oldinit" parts in
    let a = ref ((if old then attr_init_prefix else attr_init) !glob attr_dirty) in
    Stdlib.List.iter (fun p ->
      if p = "pf" then a := attr_setchildfirst !a (zs "0")
      else if p = "cf" then a := attr_setchildfirst !a (zs "1")
      else if p = "det" then a := attr_setdetachstate !a (zs "1")
      else if starts "gs=" p then a := attr_setguardsize !a (zs (Stdlib.String.sub p 3 (Stdlib.String.length p - 3)))
      else if starts "stk=" p then a := attr_setstack !a (zs "4096") (zs (Stdlib.String.sub p 4 (Stdlib.String.length p - 4)))
      else if starts "ss=" p then a := attr_setstacksize !a (zs (Stdlib.String.sub p 3 (Stdlib.String.length p - 3)))
      else ()) parts;
    Some !a
  end

let parse_op = function
  | ["create"; c; spec; nullid; arg] -> Create (ni (int_of_string c), parse_attr spec, nullid = "1", zs arg)
  | ["join"; t] -> Join (ni (int_of_string t))
  | ["tryjoin"; t] -> TryJoin (ni (int_of_string t))
  | ["timedjoin"; t] -> TimedJoin (ni (int_of_string t))
  | ["detach"; t] -> Detach (ni (int_of_string t))
  | ["return"; v] -> Return (zs v)
  | ["exit"; v] -> Exit (zs v)
  | ["cancel"; t] -> Cancel (ni (int_of_string t))
  | "testcancel" :: _ -> TestCancel
  | ["setcancel"; b] -> SetCancel (b <> "0")
  | l -> failwith ("bad op " ^ Stdlib.String.concat " " l)

let obs_str s t =
  let th = gt s (ni t) in
  Printf.sprintf "st=%s jt=%s det=%d lk=%d" (sz (status th))
    (match join_thread th with Some j -> "t" ^ string_of_int (ino j) | None -> "-")
    (if detached th then 1 else 0) (if locked th then 1 else 0)

let () =
  let st = ref (init_state (ni 0)) and ln = ref 0 and cnt = ref 0 and sil = ref 0 and failed = ref None in
  let cfg = ref cfg_now in
  let tally : (string * int, int) Hashtbl.t = Hashtbl.create 64 in
  let ast = ref ainit and amode = ref false in
  let fail msg = if !failed = None then failed := Some (Printf.sprintf "FAIL %d %s" !ln msg) in
  let do_step a = step_cfg !cfg !st a in
  let bump k t = let c = (try Hashtbl.find tally (k, t) with Not_found -> 0) + 1 in Hashtbl.replace tally (k, t) c; c in
  (* cancellation steps carry no POINT.  The store of a cancel and the read of a testcancel happen somewhere between
     the call line and the outcome line (return, or the exit path for a testcancel that acts); the driver fires them at
     the outcome line and, when a cancel and a testcancel of its target overlap, in the order the observed outcome
     needs (the projection tells the outcome of every testcancel in advance) *)
  let hint : (int, string) Hashtbl.t = Hashtbl.create 16 in
  let would_act x = let th = gt !st (ni x) in cancel_enabled th && cancelled th in
  let fire_k j what =
    (match do_step (ni j, ETick) with
     | Some s' -> st := s'; incr sil
     | None -> fail (Printf.sprintf "%s of t%d not enabled in the model" what j)) in
  let nthr () = Stdlib.List.length (thr !st) in
  let pending_cancels x =
    let r = ref [] in
    for j = 0 to nthr () - 1 do
      (match main (gt !st (ni j)) with KCancel t when ino t = x -> r := j :: !r | _ -> ())
    done; !r in
  let check_led k t size =
    let c = bump k t in
    let g = gh (gt !st (ni t)) in
    let m = ino (match k with "alloc.desc" -> desc_alloc g | "alloc.stack" -> stack_alloc g
                            | "free.desc" -> desc_freed g | "free.stack" -> stack_freed g | _ -> ni (-1)) in
    if m <> c then fail (Printf.sprintf "ledger: %s of t%d seen %d time(s) in the trace, the model counts %d" k t c m);
    (match size with
     | Some v when k = "alloc.stack" && sz (stack_sz g) <> v ->
         fail (Printf.sprintf "stack of t%d requested with size %s, the model expects %s" t v (sz (stack_sz g)))
     | _ -> ()) in
  try while true do
    let l = input_line stdin in
    incr ln;
    (match split l with
     | "begin" :: nt :: ss :: rest ->
         (* optional 4th word: the global default creation order (myth_globalattr child_first) *)
         glob := { g_stacksize = zs ss; g_guardsize = zs "0";
                   g_child_first = (match rest with [_; gcf] -> zs gcf | _ -> zs "1") };
         cfg := (match rest with "prefix_nullid" :: _ -> cfg_prefix_nullid | "prefix_det" :: _ -> cfg_prefix_det | _ -> cfg_now);
         st := init_state (ni (int_of_string nt)); ln := 0; cnt := 0; sil := 0; failed := None; Hashtbl.reset tally; Hashtbl.reset hint; amode := false
     | ["end"] -> (match !failed with
                   | Some m -> print_endline m
                   | None -> Printf.printf "ok %d %d%s%s\n" !cnt !sil (if crashed !st then " crashed" else "") (if badwake !st then " badwake" else ""))
     | ["abegin"] -> ast := ainit; ln := 0; failed := None; amode := true
     | ["aend"] -> (match !failed with
                    | Some m -> print_endline m
                    | None -> Printf.printf "aok %d %d\n" (ino (nd !ast)) (ino (ns !ast)))
     | _ when !failed <> None -> ()
     | ["acreate"; det; d; k] ->
         (match astep !ast (HCreate (det = "1")) with
          | Some s' ->
              ast := s';
              let a = Stdlib.List.nth (ath s') (Stdlib.List.length (ath s') - 1) in
              if d <> "-" && ino (a_desc a) <> int_of_string d then
                fail (Printf.sprintf "creation got record d%s, the allocator model (free list first, LIFO) gives d%d" d (ino (a_desc a)))
              else if k <> "-" && ino (a_stk a) <> int_of_string k then
                fail (Printf.sprintf "creation got stack s%s, the allocator model gives s%d" k (ino (a_stk a)))
          | None -> fail "create not enabled in the allocator model")
     | [("afinish" | "areap" | "adetach") as k; t] ->
         let e = (match k with "afinish" -> HFinish (ni (int_of_string t)) | "areap" -> HReap (ni (int_of_string t)) | _ -> HDetach (ni (int_of_string t))) in
         (match astep !ast e with
          | Some s' -> ast := s'
          | None -> fail (Printf.sprintf "%s %s not enabled in the allocator model" k t))
     | ["kact"; j] ->
         let x = int_of_string j in
         (match main (gt !st (ni x)) with
          | KTest ->
              if not (would_act x) then Stdlib.List.iter (fun c -> if not (would_act x) then fire_k c "cancel") (pending_cancels x);
              if not (would_act x) then
                fail (Printf.sprintf "t%d terminates itself at a testcancel, but in the model no cancellation of this incarnation is pending (cancelled=%b enabled=%b request-for-this-incarnation=%b)"
                        x (cancelled (gt !st (ni x))) (cancel_enabled (gt !st (ni x))) (creq (gh (gt !st (ni x)))))
              else begin fire_k x "testcancel"; incr cnt end
          | _ -> fail (Printf.sprintf "t%d takes its exit path out of a testcancel, the model is not in one" x))
     | "call" :: j :: o ->
         (match o with "testcancel" :: h :: _ -> Hashtbl.replace hint (int_of_string j) h | _ -> ());
         (match do_step (ni (int_of_string j), ECall (parse_op o)) with
          | Some s' -> st := s'; incr cnt;
              if crashed s' then fail (Printf.sprintf "the model executes undefined behaviour at: t%s %s" j (Stdlib.String.concat " " o))
          | None -> fail (Printf.sprintf "call not enabled in the model: t%s %s" j (Stdlib.String.concat " " o)))
     | "ret" :: j :: v :: rest ->
         let jn = ni (int_of_string j) in
         (match main (gt !st jn) with
          | KCancel t ->
              (* a testcancel of the target that will go on must have read the flag before this store *)
              let x = ino t in
              (match main (gt !st t) with
               | KTest when (try Hashtbl.find hint x with Not_found -> "") = "cont" && would_act x = false -> fire_k x "testcancel"
               | _ -> ());
              fire_k (int_of_string j) "cancel"
          | KTest ->
              if would_act (int_of_string j) then
                fail (Printf.sprintf "t%s returns from testcancel, but the model has a cancellation of this incarnation pending and enabled: it terminates" j)
              else fire_k (int_of_string j) "testcancel"
          | KSet _ -> fire_k (int_of_string j) "setcancelstate"
          | _ -> ());
         (match joined !st jn, rest with
          | Some mv, x :: _ when x <> "-" && sz mv <> x -> fail (Printf.sprintf "t%s: joined value %s, the model expects %s" j x (sz mv))
          | _ -> ());
         (match do_step (jn, ERet (zs v)) with
          | Some s' -> st := s'; incr cnt
          | None -> fail (Printf.sprintf "return value differs or no call complete in the model: t%s returned %s (model pc label %s)" j v (str (label !st jn false))))
     | ["led"; k; t] -> check_led k (int_of_string t) None
     | ["led"; k; t; size] -> check_led k (int_of_string t) (Some size)
     | "tick" :: j :: ctx :: lab :: v :: tgt :: obs ->
         let jn = ni (int_of_string j) and incb = (ctx = "c") in
         (* silent steps (lock acquisition, leaving the wait loop) are not POINTs: fire them as late as possible *)
         let n = ref 0 in
         while not incb && !failed = None && !n < 3 && str (label !st jn false) = "" && silent !st jn do
           incr n;
           (match do_step (jn, ETick) with
            | Some s' -> st := s'; incr sil
            | None -> fail (Printf.sprintf "t%s reaches POINT %s but the silent step before it is not enabled in the model (%s; target %s)" j lab
                              (match main (gt !st jn) with JSpin _ | DSpin _ -> "target status is not FREE_READY2" | _ -> "descriptor lock not free")
                              (match target !st jn false with Some t -> obs_str !st (ino t) | None -> "-")))
         done;
         if !failed = None then begin
           let ml = str (label !st jn incb) in
           if ml <> lab then fail (Printf.sprintf "t%s(%s) executes %s but the model expects %s" j ctx lab (if ml = "" then "<no step>" else ml))
           else begin
             (match lval !st jn incb with
              | Some mv when v <> "-" && sz mv <> v -> fail (Printf.sprintf "t%s %s carries value %s, model expects %s" j lab v (sz mv))
              | _ -> ());
             (match target !st jn incb with
              | Some t when tgt <> "-" && ino t <> int_of_string tgt -> fail (Printf.sprintf "t%s %s acts on t%s, model expects t%d" j lab tgt (ino t))
              | _ -> ());
             (match obs with
              | [o_st; o_jt; o_det; o_lk] when tgt <> "-" ->
                  let t = int_of_string tgt in
                  let th = gt !st (ni t) in
                  let m_jt = (match join_thread th with Some x -> string_of_int (ino x) | None -> "-") in
                  let m_lk = if locked th then "1" else "0" in
                  let lk_ok = (o_lk = m_lk) || (o_lk = "1" && m_lk = "0" && pending_acquire !st (ni t)) in
                  if o_st <> sz (status th) || o_jt <> m_jt || o_det <> (if detached th then "1" else "0") || not lk_ok then
                    fail (Printf.sprintf "before t%s %s: descriptor t%d differs: impl st=%s jt=%s det=%s lk=%s, model %s" j lab t o_st
                            (if o_jt = "-" then "-" else "t" ^ o_jt) o_det o_lk (obs_str !st t))
              | _ -> ());
             (match do_step (jn, if incb then ECbTick else ETick) with
              | Some s' -> st := s'; incr cnt;
                  if badwake s' then fail (Printf.sprintf "t%s %s makes runnable a thread whose context is not saved" j lab);
                  if lab = "free.stack" then check_led "free.stack" (int_of_string j) None
              | None -> fail (Printf.sprintf "step %s of t%s not enabled in the model" lab j))
           end
         end
     | [] -> ()
     | _ -> fail ("unparsable line: " ^ l))
  done with End_of_file -> ()
