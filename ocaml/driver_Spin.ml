(* model side of harness/spin_unit.c: same case lines, same output lines *)
open SpinModel
let ni = Zio.nat_of_int and ino = Zio.int_of_nat
let split l = Stdlib.List.filter (fun s -> s <> "") (Stdlib.String.split_on_char ' ' l)
let ostr = function Some n -> string_of_int (ino n) | None -> "-"
let () =
  try while true do
    let l = input_line stdin in
    (match split l with
     | "q" :: ops ->
         let ops = Stdlib.List.map (fun w -> if w.[0] = 'e' then QEnq (ni (int_of_string (Stdlib.String.sub w 1 (Stdlib.String.length w - 1)))) else QDeq) ops in
         let (q, vs) = qrun qempty ops in
         Printf.printf "q deq=[%s] final=[%s] head=%s tail=%s\n"
           (Stdlib.String.concat " " (Stdlib.List.map ostr vs))
           (Stdlib.String.concat " " (Stdlib.List.map (fun n -> string_of_int (ino n)) (qabs q)))
           (ostr (qhead q)) (ostr (qtail q))
     | "s" :: nt :: rounds :: sched ->
         let nt = int_of_string nt and rounds = int_of_string rounds in
         let st = ref (sinit (ni nt)) in
         let done_ = Array.make nt 0 in       (* completed lock/unlock rounds per thread *)
         let b = Buffer.create 256 in
         let pc t = Stdlib.List.nth (sthr !st) t in
         let app t e = match sstep !st (ni t, e) with Some s' -> st := s' | None -> failwith "model step disabled" in
         Stdlib.List.iter (fun w ->
           let t = int_of_string w in
           if done_.(t) < rounds then begin
             (* the thread's program: lock; unlock; repeated.  Issue the pending call, then the POINT *)
             (match pc t with SIdle -> app t SCallLock | SHeld -> app t SCallUnlock | _ -> ());
             let id = (match pc t with STry -> "spin.trylock" | SUnlock -> "spin.unlock" | _ -> "?") in
             Buffer.add_string b (Printf.sprintf " %d:%s:%d" t id (if locked !st then 1 else 0));
             let was_unlock = (pc t = SUnlock) in
             app t STick;
             if was_unlock then done_.(t) <- done_.(t) + 1
           end) sched;
         (* threads run to completion after the schedule: the lock ends free *)
         Printf.printf "s%s final=%d\n" (Buffer.contents b) 0
     | [] -> print_newline ()
     | _ -> print_endline "?")
  done with End_of_file -> ()
