(* C02 model driver: the extracted transition system of coq/Wsq/WsqModel.v (and TsoModel.v)
   run on the same case language as harness/c02_wsq_unit.c, printing the same lines.

   stdin, one case per line:
     <size> <nthieves> | <owner ops> | <thief 1 ops> | ... | <schedule>          (lock-step run)
     seq <size> | <ops>                                                          (one participant at a time, see below)
     enum <size> <nthieves> | <owner ops> | <thief ops> ... | <prefix schedule>  (all maximal schedules after the prefix)
   Ops: P<tag> push, O pop, U<tag> put, T take, W0/W1 wsapi take (decline/accept), S<tag> trypass,
   K peek (myth_queue_peek), Q wsapi peek (hint cache). *)
open WsqModel
open TsoModel
module SL = Stdlib.List
module SS = Stdlib.String

let zi = Zio.z_of_int and iz = Zio.int_of_z
let ni = Zio.nat_of_int

let bool8 (Ascii.Ascii (b0, b1, b2, b3, b4, b5, b6, b7)) =
  let b x k = if x then 1 lsl k else 0 in
  Char.chr (b b0 0 + b b1 1 + b b2 2 + b b3 3 + b b4 4 + b b5 5 + b b6 6 + b b7 7)
let rec ostring = function
  | String.EmptyString -> ""
  | String.String (c, r) -> SS.make 1 (bool8 c) ^ ostring r

let split_on c s = SL.map SS.trim (SS.split_on_char c s)
let words s = SL.filter (fun w -> w <> "") (SS.split_on_char ' ' (SS.trim s))

let tag w = if SS.length w > 1 then zi (int_of_string (SS.sub w 1 (SS.length w - 1))) else zi 0
let oop_of w = match SS.get w 0 with
  | 'P' -> Push (tag w) | 'O' -> Pop | 'U' -> Put (tag w)
  | _ -> failwith ("bad owner op " ^ w)
let top_of w = match SS.get w 0 with
  | 'T' -> Take | 'W' -> WTake (w = "W1") | 'S' -> Pass (tag w) | 'K' -> Peek | 'Q' -> WPeek
  | _ -> failwith ("bad thief op " ^ w)

let lab s p =
  let (id, v) = label s (ni p) in
  match ostring id with
  | "" -> "-"
  | "ret" -> Printf.sprintf "ret(%d)" (iz v)
  | x -> Printf.sprintf "%s(%d)" x (iz v)

let snapshot who s np =
  let m = s.mm in
  let b = Buffer.create 128 in
  Buffer.add_string b (Printf.sprintf "%d:%d,%d,%d,%d,%d:" who (iz m.top) (iz m.base) (iz m.lck) (iz m.wseq) (iz m.wptr));
  Buffer.add_string b (SS.concat "," (SL.map (fun z -> string_of_int (iz z)) m.ptr));
  Buffer.add_char b ':';
  Buffer.add_string b (SS.concat "/" (SL.init np (fun p -> lab s p)));
  Buffer.contents b

let is_idle s p =
  if p = 0 then (match s.own with OIdle -> true | _ -> false)
  else (match SL.nth_opt s.thv (p - 1) with Some TIdle -> true | None -> true | _ -> false)
let silent s p =
  let (id, _) = label s (ni p) in ostring id = "" && not (is_idle s p)

let stepcap = 6000

(* lock-step run; returns the printed line *)
type tok = One of int | Until of int * int
let sched_tok w =
  if SS.get w 0 = 'u' then
    (match SS.split_on_char '.' (SS.sub w 1 (SS.length w - 1)) with
     | [p; n] -> Until (int_of_string p, int_of_string n)
     | _ -> failwith "bad schedule token")
  else One (int_of_string w)

let run_case size nth oprog tprogs sched =
  let np = nth + 1 in
  let s = ref (init_state (zi size) (ni nth)) in
  let pg = ref { oprog; tprogs } in
  let out = ref [] and steps = ref 0 and ab = ref false in
  let ops_done = Array.make np 0 in
  let do_step p =
    if not !ab then begin
      (if p >= 0 && p < np then begin
         let is_ret = (match sched_event !s !pg (ni p) with Some (Ret, _) -> true | _ -> false) in
         (match sched_step !s !pg (ni p) with
          | Some (s', pg') -> s := s'; pg := pg'; if is_ret then ops_done.(p) <- ops_done.(p) + 1
          | None -> ());
         (* program points without a MYTH_VERIF_POINT (inside the wsapi functions): the harness runs
            through them, so does the model *)
         let guard = ref 0 in
         while silent !s p && !guard < 50 do
           (match sched_step !s !pg (ni p) with
            | Some (s', pg') -> s := s'; pg := pg'
            | None -> guard := 50);
           incr guard
         done
       end);
      if !s.aborted then (ab := true; out := "ABORT" :: !out)
      else out := snapshot p !s np :: !out;
      incr steps
    end in
  SL.iter (function
      | One p -> do_step p
      | Until (p, n) ->
         let guard = ref 0 in
         while p >= 0 && p < np && not !ab && not (finished !s !pg (ni p)) && ops_done.(p) < n && !guard < 400 do
           do_step p; incr guard
         done) sched;
  let fin () = SL.for_all (fun p -> finished !s !pg (ni p)) (SL.init np (fun p -> p)) in
  while not !ab && not (fin ()) && !steps < stepcap do
    for p = 0 to np - 1 do
      if not (finished !s !pg (ni p)) then do_step p
    done
  done;
  SS.concat "|" (SL.rev !out)

let parse_progs flds nth =
  let o = SL.map oop_of (words (SL.nth flds 1)) in
  let ts = SL.init nth (fun i -> SL.map top_of (words (SL.nth flds (2 + i)))) in
  let sched = SL.map sched_tok (words (SL.nth flds (2 + nth))) in
  (o, ts, sched)

(* all maximal schedules after a prefix: depth-first over the participants whose step is enabled *)
let enumerate size nth oprog tprogs prefix limit =
  let np = nth + 1 in
  let s0 = ref (init_state (zi size) (ni nth)) and pg0 = ref { oprog; tprogs } in
  let ops_done = Array.make np 0 in
  let one p =
    let is_ret = (match sched_event !s0 !pg0 (ni p) with Some (Ret, _) -> true | _ -> false) in
    match sched_step !s0 !pg0 (ni p) with
    | Some (s', pg') -> s0 := s'; pg0 := pg'; if is_ret then ops_done.(p) <- ops_done.(p) + 1
    | None -> () in
  SL.iter (function
      | One p -> one p
      | Until (p, n) ->
         let guard = ref 0 in
         while not (finished !s0 !pg0 (ni p)) && ops_done.(p) < n && !guard < 400 do one p; incr guard done) prefix;
  let count = ref 0 in
  let rec go s pg acc depth =
    if !count < limit then begin
      let any = ref false in
      if not s.aborted && depth < 400 then
        for p = 0 to np - 1 do
          match sched_step s pg (ni p) with
          | Some (s', pg') -> any := true; go s' pg' (p :: acc) (depth + 1)
          | None -> ()
        done;
      if not !any then begin
        incr count;
        print_string (SS.concat " " (SL.map string_of_int (SL.rev acc)));
        print_newline ()
      end
    end in
  go !s0 !pg0 [] 0;
  print_endline (if !count >= limit then "TRUNCATED" else "END")

(* ---------------- sequential mode (one operation at a time, to completion) ---------------- *)
(* seq <size> | top base lock seq wptr | slot tags | ops      prints  op=result:snapshot|...  *)
let seq_case size hdr slots ops =
  let z k = zi (SL.nth hdr k) in
  let m = { top = z 0; base = z 1; lck = z 2; ptr = SL.map zi slots; wseq = z 3; wptr = z 4 } in
  let s = ref { (init_state (zi size) (ni 1)) with mm = m } in
  let snap () =
    let m = !s.mm in
    Printf.sprintf "%d,%d,%d,%d,%d:%s" (iz m.top) (iz m.base) (iz m.lck) (iz m.wseq) (iz m.wptr)
      (SS.concat "," (SL.map (fun z -> string_of_int (iz z)) m.ptr)) in
  let exec a = match step !s a with Some s' -> s := s'; true | None -> false in
  let run_op w =
    let p, call = (match SS.get w 0 with
      | 'P' | 'O' | 'U' -> 0, CallO (oop_of w)
      | _ -> 1, CallT (top_of w)) in
    ignore (exec (ni p, call));
    let n = ref 0 in
    while !n < 100 && exec (ni p, Tick) do incr n done;
    let r = (match result !s (ni p) with Some r -> string_of_int (iz r) | None -> if !s.aborted then "ABORT" else "?") in
    ignore (exec (ni p, Ret));
    Printf.sprintf "%s=%s:%s" w r (snap ()) in
  SS.concat "|" (SL.map run_op ops)

(* ---------------- TSO ---------------- *)
let fclass_of = function 'F' -> Full | 'C' -> CompilerOnly | 'N' -> Nothing | c -> failwith "bad fence class"
let table_of w =
  if SS.length w <> 7 then failwith "fence table: 7 letters F/C/N";
  let g i = fclass_of (SS.get w i) in
  { f_push_r = g 0; f_push_w = g 1; f_pop_rw = g 2; f_take_rw = g 3; f_take_r = g 4; f_pass_w = g 5; f_unlock = g 6 }

let zl l = "[" ^ SS.concat "," (SL.map (fun z -> string_of_int (iz z)) l) ^ "]"
let tso_summary (s : tstate) =
  let c = s.sc in
  Printf.sprintf "top=%d base=%d lock=%d slots=%s pushed=%s returned=%s dup=%b aborted=%b"
    (iz c.mm.top) (iz c.mm.base) (iz c.mm.lck) (zl c.mm.ptr) (zl c.pushed) (zl c.returned)
    (has_dup c.returned) c.aborted

(* schedule tokens:  i  = one program step of participant i,  fi = flush the oldest store of i *)
let tok_of w = if SS.get w 0 = 'f' then (int_of_string (SS.sub w 1 (SS.length w - 1)), true)
               else (int_of_string w, false)

let sorted l = SL.sort compare (SL.map iz l)
(* multiset of pushed = returned + what is left in memory (all buffers drained) *)
let conserved (s : tstate) =
  let c = s.sc in
  let rec seg i hi = if i >= hi then [] else SL.nth c.mm.ptr i :: seg (i + 1) hi in
  let b = iz c.mm.base and t = iz c.mm.top in
  b >= 0 && t <= SL.length c.mm.ptr && b <= t &&
  sorted c.pushed = SL.sort compare (SL.map iz c.returned @ SL.map iz (seg b t))

let tso_explore tbl size nth oprog tprogs prefix maxstates =
  let np = nth + 1 in
  let s0 = ref (tso_init (zi size) (ni nth)) and pg0 = ref { oprog; tprogs } in
  SL.iter (fun (p, f) -> match tso_sched_step tbl !s0 !pg0 (ni p) f with
                         | Some (s', pg') -> s0 := s'; pg0 := pg' | None -> ()) prefix;
  let seen = Hashtbl.create 100003 in
  let q = Queue.create () in
  let key s pg = Marshal.to_string (s, pg) [] in
  Hashtbl.replace seen (key !s0 !pg0) ();
  Queue.add (!s0, !pg0, []) q;
  let found = ref None and n = ref 0 in
  (try while not (Queue.is_empty q) do
    let (s, pg, path) = Queue.pop q in
    incr n;
    if !n > maxstates then raise Exit;
    if has_dup s.sc.returned then (found := Some (path, s, "duplicate")); 
    if !found <> None then raise Exit;
    let any = ref false in
    for p = 0 to np - 1 do
      SL.iter (fun f ->
        match tso_sched_step tbl s pg (ni p) f with
        | Some (s', pg') ->
           any := true;
           let k = key s' pg' in
           if not (Hashtbl.mem seen k) then begin
             Hashtbl.replace seen k ();
             Queue.add (s', pg', (p, f) :: path) q
           end
        | None -> ()) [false; true]
    done;
    if not !any && not s.sc.aborted && not (conserved s) then (found := Some (path, s, "lost-or-duplicated"); raise Exit)
  done with Exit -> ());
  match !found with
  | Some (path, s, why) ->
     Printf.printf "FOUND %s | %s | %s\n" why
       (SS.concat " " (SL.map (fun (p, f) -> (if f then "f" else "") ^ string_of_int p) (SL.rev path)))
       (tso_summary s)
  | None -> Printf.printf "NONE states=%d%s\n" (Hashtbl.length seen) (if !n > maxstates then " TRUNCATED" else "")

let () =
  try while true do
    let line = input_line stdin in
    let flds = split_on '|' line in
    let hd = words (SL.hd flds) in
    (match hd with
     | "enum" :: sz :: nth :: rest ->
        let nth = int_of_string nth in
        let (o, ts, prefix) = parse_progs flds nth in
        let limit = match rest with l :: _ -> int_of_string l | [] -> 200000 in
        enumerate (int_of_string sz) nth o ts prefix limit
     | ["seq"; sz] ->
        let hdr = SL.map int_of_string (words (SL.nth flds 1)) in
        let slots = SL.map int_of_string (words (SL.nth flds 2)) in
        print_endline (seq_case (int_of_string sz) hdr slots (words (SL.nth flds 3)))
     | ["tsorun"; sz; nth; tb] ->
        let nth = int_of_string nth in
        let o = SL.map oop_of (words (SL.nth flds 1)) in
        let ts = SL.init nth (fun i -> SL.map top_of (words (SL.nth flds (2 + i)))) in
        let sch = SL.map tok_of (words (SL.nth flds (2 + nth))) in
        let (s, _) = tso_run (table_of tb) (SL.map (fun (p, f) -> (ni p, f)) sch) (tso_init (zi (int_of_string sz)) (ni nth)) { oprog = o; tprogs = ts } in
        print_endline (tso_summary s)
     | ["tsoexplore"; sz; nth; tb; mx] ->
        let nth = int_of_string nth in
        let o = SL.map oop_of (words (SL.nth flds 1)) in
        let ts = SL.init nth (fun i -> SL.map top_of (words (SL.nth flds (2 + i)))) in
        let prefix = SL.map tok_of (words (SL.nth flds (2 + nth))) in
        tso_explore (table_of tb) (int_of_string sz) nth o ts prefix (int_of_string mx)
     | [sz; nth] ->
        let nth = int_of_string nth in
        let (o, ts, sched) = parse_progs flds nth in
        print_endline (run_case (int_of_string sz) nth o ts sched)
     | _ -> print_endline "BADCASE")
  done with End_of_file -> ()
