(* Driver for the join counter model (coq/JoinCounter/JcModel.v).
   Two kinds of input:
   (a) unit lines (one output line each):
         calc <x>     -> "calc <bits>" | "calc none"
         init <n>     -> "init n=<n> bits=<b> mask=<m> state=<s>" | "init none"
         reinit <n1> <a|n> <n2> <a|n> ... -> "reinit n=.. bits=.. mask=.. state=.. ; ..." | "reinit none"
         preset <n> <k> [w] -> "preset n=.. k=.. reg=.. pre=.. dec=0 state=.. released=.. rets=0 q=.." | "preset none"
   (b) trace blocks (one output line per block): "ok <events>" or "FAIL <line-in-block> <reason>"
         begin <nthreads> <N>
         call <t> <wait|dec>
         tick <t> <m|c> <label> <val|-> J <state> <n> <bits> <mask> <k> <q..>
         ret <t> <v>
         obs J <state> <n> <bits> <mask> 0          (the fields right after a jcinit; compared, no step)
         end *)
open JcModel
let zs = Zio.z_of_string and sz = Zio.string_of_z
let ni = Zio.nat_of_int and ino = Zio.int_of_nat
let bit b k = if b then 1 lsl k else 0
let char_of_ascii = function Ascii.Ascii (a,b,c,d,e,f,g,h) ->
  Char.chr (bit a 0 + bit b 1 + bit c 2 + bit d 3 + bit e 4 + bit f 5 + bit g 6 + bit h 7)
let rec str = function String.EmptyString -> "" | String.String (a, r) -> Stdlib.String.make 1 (char_of_ascii a) ^ str r
let split l = Stdlib.List.filter (fun s -> s <> "") (Stdlib.String.split_on_char ' ' l)
let parse_op = function
  | ["wait"] -> Wait | ["dec"] -> Dec
  | l -> failwith ("bad op " ^ Stdlib.String.concat " " l)
let qstr l = "[" ^ Stdlib.String.concat "," (Stdlib.List.map (fun n -> string_of_int (ino n)) l) ^ "]"
let rec take k l = if k = 0 then ([], l) else match l with x :: r -> let (a, b) = take (k - 1) r in (x :: a, b) | [] -> failwith "short obs"
let getq k l = let (a, b) = take k l in ("[" ^ Stdlib.String.concat "," a ^ "]", b)
(* compare the observed words (from the trace) with the model state; None if equal *)
let check_obs s obs =
  match obs with
  | "J" :: st :: n :: bits :: mask :: k :: rest ->
      let (q, _) = getq (int_of_string k) rest in
      let i = Printf.sprintf "state=%s n=%s bits=%s mask=%s q=%s" st n bits mask q in
      let m = Printf.sprintf "state=%s n=%s bits=%s mask=%s q=%s" (sz (word s)) (sz (jn s)) (sz (jbits s)) (sz (jmask s)) (qstr (sq s)) in
      if i = m then None else Some ("join counter words differ: impl " ^ i ^ " model " ^ m)
  | "-" :: _ | [] -> None
  | _ -> Some "unparsable obs"
let dummy = { jn = Zio.z_of_int 0; jbits = Zio.z_of_int 0; jmask = Zio.z_of_int 0; word = Zio.z_of_int 0; sq = []; thr = [];
              gh = { gcalls = Zio.z_of_int 0; gdec = Zio.z_of_int 0; gpush = Zio.z_of_int 0; gfinal = None } }
let () =
  let st = ref dummy and ln = ref 0 and cnt = ref 0 and failed = ref None and inblock = ref false in
  let fail msg = if !failed = None then failed := Some (Printf.sprintf "FAIL %d %s" !ln msg) in
  try while true do
    let l = input_line stdin in
    incr ln;
    (match split l with
     | ["calc"; x] when not !inblock ->
         (match calc_bits (zs x) with Some b -> Printf.printf "calc %s\n" (sz b) | None -> print_endline "calc none")
     | ["init"; n] when not !inblock ->
         (match jc_init (zs n) with
          | Some f -> Printf.printf "init n=%s bits=%s mask=%s state=%s\n" (sz f.f_n) (sz f.f_bits) (sz f.f_mask) (sz f.f_state)
          | None -> print_endline "init none")
     | "reinit" :: spec when not !inblock ->
         (* object lifecycle: the init fields are a function of N only (jc_init), whatever the object held before and
            whatever attr is *)
         let rec go = function
           | n :: _ :: r -> (match jc_init (zs n) with
                             | Some f -> Some (Printf.sprintf "n=%s bits=%s mask=%s state=%s" (sz f.f_n) (sz f.f_bits) (sz f.f_mask) (sz f.f_state))
                             | None -> None) :: go r
           | _ -> [] in
         let l = go spec in
         if Stdlib.List.exists (fun x -> x = None) l then print_endline "reinit none"
         else print_endline ("reinit " ^ Stdlib.String.concat " ; " (Stdlib.List.map (function Some x -> x | None -> "") l))
     | "preset" :: n :: k :: _ when not !inblock ->
         (* the wide-value scenario of harness/c07_unit.c: k threads register and fall asleep, the word is
            preset by N-1 (white-box, standing for N-1 decrements), thread k performs the final decrement,
            the waiters run again.  Every step goes through the extracted [step]. *)
         let kk = int_of_string k and nz = zs n in
         (match init_state nz (ni (kk + 1)) with
          | None -> print_endline "preset none"
          | Some s0 ->
              let st = ref s0 and ok = ref true in
              let go t e = if !ok then (match step !st (ni t, e) with Some s' -> st := s' | None -> ok := false) in
              for t = 0 to kk - 1 do go t (ECall Wait); go t ETick; go t ETick; go t ECbTick done;
              let reg = word !st in
              let nm1 = BinInt.Z.add nz (Zio.z_of_int (-1)) in
              st := { !st with word = BinInt.Z.add (word !st) nm1;
                               gh = { gcalls = nm1; gdec = nm1; gpush = Zio.z_of_int 0; gfinal = None } };
              let pre = word !st in
              go kk (ECall Dec); go kk ETick; go kk ETick;
              let fuel = ref (4 * kk + 8) in
              while !ok && !fuel > 0 && (let l = str (label !st (ni kk) false) in l = "wakemany.deq" || l = "wakemany.push") do
                go kk ETick; decr fuel done;
              let dec_ok = !ok && ret_ok !st (ni kk) (Zio.z_of_int 0) in
              go kk (ERet (Zio.z_of_int 0));
              let released = ref 0 in
              for t = 0 to kk - 1 do
                if !ok then begin
                  (match step !st (ni t, ETick) with
                   | Some s' -> if ret_ok s' (ni t) (Zio.z_of_int 0) then
                                  (match step s' (ni t, ERet (Zio.z_of_int 0)) with Some s2 -> st := s2; incr released | None -> st := s')
                                else st := s'
                   | None -> ())
                end
              done;
              if not !ok || not dec_ok then print_endline "preset none"
              else Printf.printf "preset n=%s k=%d reg=%s pre=%s dec=0 state=%s released=%d rets=0 q=%d\n"
                     n kk (sz reg) (sz pre) (sz (word !st)) !released (Stdlib.List.length (sq !st)))
     | ["begin"; nt; n] ->
         inblock := true; ln := 0; cnt := 0; failed := None;
         (match init_state (zs n) (ni (int_of_string nt)) with
          | Some s -> st := s
          | None -> st := dummy; fail ("N = " ^ n ^ " is outside the representable range of the model"))
     | ["end"] -> inblock := false; (match !failed with Some m -> print_endline m | None -> Printf.printf "ok %d\n" !cnt)
     | _ when !failed <> None -> ()
     | "obs" :: obs ->
         (* words reported outside a POINT (the init fields on the return line of jcinit) *)
         (match obs with
          | "?" :: why -> fail (Stdlib.String.concat " " why)
          | _ -> (match check_obs !st obs with Some m -> fail ("after (re-)initialisation: " ^ m) | None -> incr cnt))
     | "call" :: t :: o ->
         (match step !st (ni (int_of_string t), ECall (parse_op o)) with
          | Some s' -> st := s'; incr cnt
          | None -> fail (Printf.sprintf "call not enabled in the model: t%s %s" t (Stdlib.String.concat " " o)))
     | "ret" :: t :: v :: _ ->
         (match step !st (ni (int_of_string t), ERet (zs v)) with
          | Some s' -> st := s'; incr cnt
          | None -> fail (Printf.sprintf "return value differs or no call complete in the model: t%s returned %s%s" t v
                            (if in_excess !st (ni (int_of_string t)) then " (model: excess decrement, exit(1))" else "")))
     | "tick" :: t :: ctx :: lab :: v :: obs ->
         let tn = ni (int_of_string t) and incb = (ctx = "c") in
         let ml = str (label !st tn incb) in
         if ml <> lab then fail (Printf.sprintf "t%s(%s) executes POINT %s but the model expects %s" t ctx lab (if ml = "" then "<no step>" else ml))
         else begin
           (match lval !st tn incb with
            | Some mv when v <> "-" && sz mv <> v -> fail (Printf.sprintf "t%s POINT %s carries value %s, model expects %s" t lab v (sz mv))
            | _ -> ());
           (match check_obs !st obs with Some m -> fail (Printf.sprintf "before t%s %s: %s" t lab m) | None -> ());
           (match step !st (tn, if incb then ECbTick else ETick) with
            | Some s' -> st := s'; incr cnt
            | None -> fail (Printf.sprintf "step %s of t%s not enabled in the model" lab t))
         end
     | [] -> ()
     | _ -> fail ("unparsable line: " ^ l))
  done with End_of_file -> ()
