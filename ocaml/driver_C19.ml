(* C19 model driver.  Input: a LAYOUT line (as printed by harness/c19_dump --layout), then blocks
     CASE <id> / TREE <sc> <nw> <preorder tree> / CONV <umin> <cmax> <cmc> / FILE <hex>|- / FILE3 <hex>|- /
     EV .. / EV2 .. / END
   Output: the same G/N/E/S/EV lines the harness prints for the real library, computed by the extracted
   model (flattening of the same tree, shrinking copy, replay fed with the observed event order), the
   model writer's bytes (WFILE) and the model reader's decoding of the real file (RG/RN/RE/RS). *)
open FlattenModel
open PruneModel
open CodecModel
open ChronoModel
open DagSpec
module L = Stdlib.List

let zs = Zio.z_of_string and sz = Zio.string_of_z
let zi = Zio.z_of_int

let split_ws s = L.filter (fun x -> x <> "") (String.split_on_char ' ' s)

let hex_to_bytes s =
  let n = String.length s / 2 in
  L.init n (fun i -> zi (int_of_string ("0x" ^ String.sub s (2 * i) 2)))
let bytes_to_hex l =
  let b = Buffer.create 1024 in
  L.iter (fun z -> Buffer.add_string b (Printf.sprintf "%02x" (Zio.int_of_z z))) l; Buffer.contents b
let name_of_tok t = (* x<hex> or - *)
  if t = "-" then [] else hex_to_bytes (String.sub t 1 (String.length t - 1))
let tok_of_name n = "x" ^ bytes_to_hex n

(* ---- layout ---- *)
let parse_layout toks =
  let a = Array.of_list toks in
  let pos = ref 0 in
  let nx () = let t = a.(!pos) in Stdlib.incr pos; t in
  let expect s = let t = nx () in if t <> s then failwith ("layout: expected " ^ s ^ " got " ^ t) in
  let ni () = int_of_string (nx ()) in
  expect "LAYOUT"; expect "le"; let le = ni () in
  expect "long"; let lg = ni () in expect "ptr"; let pt = ni () in
  expect "top"; let nt = ni () in let top = L.init nt (fun _ -> zi (ni ())) in
  let sdesc tag =
    expect tag; let size = ni () in let nf = ni () in
    let fs = L.init nf (fun _ -> let o = ni () in let s = ni () in let g = ni () in
                                 { f_off = zi o; f_size = zi s; f_signed = (g <> 0) }) in
    { s_size = zi size; s_fields = fs } in
  let nd = sdesc "node" in let ed = sdesc "edge" in let st = sdesc "strtab" in
  (* skip to hdr *)
  while a.(!pos) <> "hdr" do Stdlib.incr pos done;
  expect "hdr"; let _ = ni () in let hdr = hex_to_bytes (nx ()) in
  { l_le = (le = 1); l_long = zi lg; l_ptr = zi pt; l_top = top; l_node = nd; l_edge = ed; l_strtab = st; l_hdr = hdr }

(* ---- tree ---- *)
let parse_tree toks =
  let a = Array.of_list toks in
  let pos = ref 0 in
  let nx () = let t = a.(!pos) in Stdlib.incr pos; t in
  let rec go () =
    let k = int_of_string (nx ()) in
    let nch = int_of_string (nx ()) in
    let fs = name_of_tok (nx ()) in let fe = name_of_tok (nx ()) in
    let vals = L.init 54 (fun _ -> zs (nx ())) in
    let d = { ti = vals; tfs = fs; tfe = fe } in
    let ch = L.init nch (fun _ -> ()) |> L.map (fun () -> go ()) in
    if k = 0 then (match ch with [c] -> Create (d, c) | _ -> failwith "create_task node without child task")
    else if k >= 4 then Sub (d, ch) else Leaf d in
  let t = go () in
  if !pos <> Array.length a then failwith "trailing tree tokens";
  t

(* ---- printing ---- *)
let pr_list l = String.concat " " (L.map sz l)
let split_strings chars offs =
  let arr = Array.of_list chars in
  L.map (fun o -> let o = Zio.int_of_z o in
                  let rec go i acc = if i >= Array.length arr || arr.(i) = BinNums.Z0 then L.rev acc else go (i + 1) (arr.(i) :: acc) in
                  if o < 0 then [] else go o []) offs
let print_dag sfx g =
  Printf.printf "G%s %s %s %s %s\n" sfx (sz g.gn) (sz g.gm) (sz g.gsc) (sz g.gnw);
  L.iteri (fun i x -> Printf.printf "N%s %d %s\n" sfx i (pr_list x)) g.gT;
  L.iteri (fun i e -> Printf.printf "E%s %d %s %s %s\n" sfx i (sz e.ek) (sz e.eu) (sz e.ev)) g.gE;
  let s = g.gS in
  Printf.printf "S%s %s %s" sfx (sz s.sn) (sz s.ssz);
  L.iter (fun o -> Printf.printf " %s" (sz o)) s.sI;
  L.iter (fun n -> Printf.printf " %s" (tok_of_name n)) (split_strings s.sC s.sI);
  print_newline ()

let ev_of_toks = function
  | [t; k; u; p; e] -> { et = zs t; ekind = zs k; enode = zs u; epred = zs p; eek = zs e }
  | _ -> failwith "bad EV line"
let print_ev sfx e = Printf.printf "EV%s %s %s %s %s %s\n" sfx (sz e.et) (sz e.ekind) (sz e.enode) (sz e.epred) (sz e.eek)

let replay sfx g (order : event list) =
  match chrono_init g with
  | None -> Printf.printf "EVFAIL%s init\n" sfx
  | Some st0 ->
    let rest = ref order in
    let choose st =
      match !rest with
      | [] -> Zio.nat_of_int (Zio.int_of_nat (choose_min st))
      | e :: r ->
        rest := r;
        let rec find i = function [] -> 1000000 | x :: xs -> if x = e then i else find (i + 1) xs in
        Zio.nat_of_int (find 0 st.pend) in
    let fuel = Zio.nat_of_int (4 * L.length g.gT + 8) in
    let fin st tag =
      L.iter (print_ev sfx) (L.rev st.elog);
      Printf.printf "EVEND%s %d %s %s%s\n" sfx (L.length st.elog) (sz (n_running st.elog)) (sz (n_ready st.elog)) tag in
    (match chrono_run fuel choose g st0 with
     | Finished st -> fin st (if !rest = [] then "" else " UNCONSUMED")
     | Failed st -> fin st " FAILED"
     | OutOfFuel st -> fin st " OUTOFFUEL")

let () =
  let layout = ref None in
  let cur_id = ref "" and tree = ref None and sc = ref BinNums.Z0 and nw = ref BinNums.Z0 in
  let conv = ref { po_umin = BinNums.Z0; po_cmax = BinNums.Z0; po_cmc = BinNums.Z0 } in
  let file1 = ref None and file3 = ref None and ev1 = ref [] and ev2 = ref [] in
  let lay () = match !layout with Some l -> l | None -> failwith "no layout" in
  let run_case () =
    let l = lay () in
    Printf.printf "BEGIN %s\n" !cur_id;
    (match !tree with
     | None -> print_string "NOTREE\n"
     | Some t ->
       Printf.printf "WFTREE %b\n" (wf_root t);
       Printf.printf "T1OK %b\n" (t1_ok t);
       (match entries_stack t with
        | Some es when es = entries t -> print_string "STACK same\n"
        | Some _ -> print_string "STACK differ\n"
        | None -> print_string "STACK outoffuel\n");
       let hdr = l.l_strtab.s_size and ptr = l.l_ptr in
       (match make_pi_dag hdr ptr !sc !nw t with
        | EdgeFailure -> print_string "MODEL EdgeFailure\n"
        | CountMismatch -> print_string "MODEL CountMismatch\n"
        | Ok g ->
          print_dag "" g;
          (match !file1 with
           | None -> ()
           | Some bytes ->
             Printf.printf "WFILE %s\n" (bytes_to_hex (write_dag l BinNums.Z0 BinNums.Z0 g));
             (match read_dag l bytes with
              | None -> print_string "RFAIL\n"
              | Some rg -> print_dag "R" rg));
          replay "" g (L.rev !ev1);
          (match copy_pi_dag (decide !conv) hdr ptr g with
           | EdgeFailure -> print_string "MODEL2 EdgeFailure\n"
           | CountMismatch -> print_string "MODEL2 CountMismatch\n"
           | Ok g2 ->
             print_dag "2" g2;
             replay "2" g2 (L.rev !ev2);
             (match !file3 with
              | None -> ()
              | Some bytes ->
                Printf.printf "WFILE3 %s\n" (bytes_to_hex (write_dag l BinNums.Z0 BinNums.Z0 g2));
                (match read_dag l bytes with
                 | None -> print_string "RFAIL3\n"
                 | Some rg -> print_dag "R3" rg)))));
    Printf.printf "END %s\n" !cur_id;
    flush stdout in
  try while true do
    let line = input_line stdin in
    match split_ws line with
    | [] -> ()
    | "LAYOUT" :: _ as toks ->
      let l = parse_layout toks in
      layout := Some l;
      Printf.printf "LAYOUT_WF %b\n" (layout_wf l)
    | ["CASE"; id] -> cur_id := id; tree := None; file1 := None; file3 := None; ev1 := []; ev2 := []
    | "TREE" :: s :: w :: rest -> sc := zs s; nw := zs w; tree := Some (parse_tree rest)
    | ["CONV"; a; b; c] -> conv := { po_umin = zs a; po_cmax = zs b; po_cmc = zs c }
    | ["FILE"; h] -> file1 := (if h = "-" then None else Some (hex_to_bytes h))
    | ["FILE3"; h] -> file3 := (if h = "-" then None else Some (hex_to_bytes h))
    | "EV" :: r -> ev1 := ev_of_toks r :: !ev1
    | "EV2" :: r -> ev2 := ev_of_toks r :: !ev2
    | ["END"] -> (try run_case () with Failure m -> Printf.printf "DRIVER-ERROR %s\nEND %s\n" m !cur_id; flush stdout)
    | t :: _ -> failwith ("bad line " ^ t)
  done with End_of_file -> ()
