(* Lock-step validator for the PRODUCT of a blocking protocol model with the scheduler machine
   (coq/Compose/GenericModel.v; instances in coq/Compose/Instances.v: Sync, barrier, join counter, uncond).
   Input blocks (ONE stream, in trace order, built from both projections of the same trace):
     begin sync <nworkers> <nthreads> <nconds>  |  begin barrier <nworkers> <nthreads> <N>
     begin jc <nworkers> <nthreads> <N>         |  begin uncond <nworkers> <nthreads>
     snap <cur_0> .. <cur_{W-1}> | <dq_0 base..top> | <dq_1> | ...           machine component must equal this
     sync <w> call <t> <op> [arg]                                            GSync w t (ECall op)
     sync <w> ret <t> <v>                                                    GSync w t (ERet v)
     sync <w> announce <t>                                                   GSync w t EAnnounce   (uncond)
     sync <w> tick <t> <m|c> <label> [<val|-> <obs>]   (Sync obs: M.. | Q.. | F <status> <state> <k> <mq..> <k> <c0..> <k> <c1..>)                         GSync w t ETick / ECbTick, after comparing the
                                                                             label (Sync: also hook value and the Sync words)
     move <w> <CreateCF c|CreatePF c|PopOwn|Steal v|TakeJoiner j|SaveCtx|FinishCtx|PutBase|PushTop x|EndCb|RunHand>   GMach w m
     autopop <w>            GMach w PopOwn if the hand is empty and the own queue is not
     stealfind <w> <x>      GMach w (Steal v) for the worker v whose queue base is x
     end
   Output per block: "ok <sync steps> <free moves> <snaps>" or "FAIL <line> <reason>". *)
open MachineModel
open GenericModel
let zs = Zio.z_of_string and sz = Zio.string_of_z
let ni = Zio.nat_of_int and ino = Zio.int_of_nat
let bit b k = if b then 1 lsl k else 0
let char_of_ascii = function Ascii.Ascii (a,b,c,d,e,f,g,h) ->
  Char.chr (bit a 0 + bit b 1 + bit c 2 + bit d 3 + bit e 4 + bit f 5 + bit g 6 + bit h 7)
let rec str = function String.EmptyString -> "" | String.String (a, r) -> Stdlib.String.make 1 (char_of_ascii a) ^ str r
let split l = Stdlib.List.filter (fun s -> s <> "") (Stdlib.String.split_on_char ' ' l)
let mode_str = function Sched -> "-" | Run t -> "t" ^ string_of_int (ino t) | Cb t -> "cb:t" ^ string_of_int (ino t)
let q_str q = Stdlib.String.concat " " (Stdlib.List.map (fun t -> "t" ^ string_of_int (ino t)) q)
let mstate_str s =
  Stdlib.String.concat " " (Stdlib.List.map mode_str (cur s)) ^ " | " ^ Stdlib.String.concat " | " (Stdlib.List.map q_str (dq s))
let canon l = Stdlib.String.concat " " (split l)
let tnum x = int_of_string (Stdlib.String.sub x 1 (Stdlib.String.length x - 1))

(* what the generic loop needs from an instance: the machine component, a free move, a protocol line *)
type inst = {
  machine : unit -> mstate;
  free : int -> move -> bool;                       (* GMach w m; false = not enabled *)
  proto : int -> string list -> string option;      (* "sync <w> ..." line (words after the worker); Some reason = failure *)
}

(* ---- Sync instance: full comparison of label, hook value and Sync words, callbacks mapped to list positions by worker ---- *)
let sync_inst nw nt nc =
  let open SyncModel in
  let st = ref (Instances.SyncI.pinit (ni nw) (ni nt) (ni nc)) in
  let cbw : (int, int list) Hashtbl.t = Hashtbl.create 16 in
  let workers t = try Hashtbl.find cbw t with Not_found -> [] in
  let rec index x = function [] -> None | y :: r -> if x = y then Some 0 else (match index x r with Some i -> Some (i + 1) | None -> None) in
  let rec drop i = function [] -> [] | y :: r -> if i = 0 then r else y :: drop (i - 1) r in
  let parse_op = function
    | ["lock"] -> Lock | ["trylock"] -> TryLock | ["timedlock"] -> TimedLock | ["unlock"] -> Unlock
    | ["cwait"; c] -> CondWait (ni (int_of_string c)) | ["signal"; c] -> Signal (ni (int_of_string c))
    | ["bcast"; c] -> Broadcast (ni (int_of_string c))
    | ["fewl"; s] -> FeWL (zs s) | ["fems"; s] -> FeMS (zs s)
    | l -> failwith ("bad op " ^ Stdlib.String.concat " " l) in
  let qstr l = "[" ^ Stdlib.String.concat "," (Stdlib.List.map (fun n -> string_of_int (ino n)) l) ^ "]" in
  let rec take k l = if k = 0 then ([], l) else match l with x :: r -> let (a, b) = take (k - 1) r in (x :: a, b) | [] -> failwith "short obs" in
  let getq k l = let (a, b) = take k l in ("[" ^ Stdlib.String.concat "," a ^ "]", b) in
  let nthq s c = try Stdlib.List.nth (cqs s) c with _ -> [] in
  let check_obs s obs =
    match obs with
    | "M" :: stt :: k :: rest ->
        let (q, _) = getq (int_of_string k) rest in
        let ms = sz (mword s) and mqs = qstr (mq s) in
        if stt = ms && q = mqs then None else Some (Printf.sprintf "mutex words differ: impl state=%s q=%s model state=%s q=%s" stt q ms mqs)
    | "Q" :: c :: k :: rest ->
        let (q, _) = getq (int_of_string k) rest in
        let mqs = qstr (nthq s (int_of_string c)) in
        if q = mqs then None else Some (Printf.sprintf "cond %s queue differs: impl %s model %s" c q mqs)
    | "F" :: fs :: stt :: k :: rest ->
        let (q, rest) = getq (int_of_string k) rest in
        let (c0, rest) = (match rest with k0 :: r -> getq (int_of_string k0) r | [] -> failwith "short F") in
        let (c1, _) = (match rest with k1 :: r -> getq (int_of_string k1) r | [] -> failwith "short F") in
        let m = Printf.sprintf "status=%s state=%s q=%s c0=%s c1=%s" (sz (festat s)) (sz (mword s)) (qstr (mq s)) (qstr (nthq s 0)) (qstr (nthq s 1)) in
        let i = Printf.sprintf "status=%s state=%s q=%s c0=%s c1=%s" fs stt q c0 c1 in
        if i = m then None else Some ("felock words differ: impl " ^ i ^ " model " ^ m)
    | "-" :: _ | [] -> None
    | _ -> Some "unparsable obs" in
  let step w t e desc = match Instances.SyncI.pstep !st (GSync (ni w, ni t, e)) with
    | Some s' -> st := s'; None
    | None -> Some (Printf.sprintf "product step %s of t%d on w%d not enabled; machine: %s" desc t w (mstate_str (gm !st))) in
  { machine = (fun () -> gm !st);
    free = (fun w m -> match Instances.SyncI.pstep !st (GMach (ni w, m)) with Some s' -> st := s'; true | None -> false);
    proto = (fun w words -> match words with
      | "call" :: t :: o -> step w (int_of_string t) (ECall (parse_op o)) ("call " ^ Stdlib.String.concat " " o)
      | "ret" :: t :: v :: _ -> step w (int_of_string t) (ERet (zs v)) ("ret " ^ v)
      | "tick" :: t :: ctx :: lab :: v :: obs ->
          let ti = int_of_string t in
          let tn = ni ti and s = gp !st in
          let slot =
            if ctx <> "c" then Some None
            else match index w (workers ti) with
              | Some i -> Some (Some i)
              | None ->
                  let n = ino (ncbs s tn) and k = Stdlib.List.length (workers ti) in
                  if n = k + 1 then (Hashtbl.replace cbw ti (workers ti @ [w]); Some (Some k)) else None in
          (match slot with
           | None -> Some (Printf.sprintf "t%s starts a callback on w%d (POINT %s) but the model has no new callback for it" t w lab)
           | Some sl ->
             let incb = (match sl with Some i -> Some (ni i) | None -> None) in
             let ml = str (label s tn incb) in
             if ml <> lab then Some (Printf.sprintf "t%s(%s) executes POINT %s but the model expects %s" t ctx lab (if ml = "" then "<no step>" else ml))
             else match (match lval s tn incb with
                         | Some mv when v <> "-" && sz mv <> v -> Some (Printf.sprintf "t%s POINT %s carries value %s, model expects %s" t lab v (sz mv))
                         | _ -> None) with
               | Some m -> Some m
               | None ->
                 match check_obs s obs with
                 | Some m -> Some (Printf.sprintf "before t%s %s: %s" t lab m)
                 | None ->
                   let before = ino (ncbs s tn) in
                   let r = step w ti (match sl with Some i -> ECbTick (ni i) | None -> ETick) lab in
                   (if r = None then match sl with
                      | Some i when ino (ncbs (gp !st) tn) < before -> Hashtbl.replace cbw ti (drop i (workers ti))
                      | _ -> ());
                   r)
      | _ -> Some "unparsable sync line") }

(* ---- single-callback instances: label compared, then the product step ---- *)
let simple_inst ~(pstep : 'c -> 'e gev -> 'c option) ~(init : 'c) ~(gmc : 'c -> mstate)
                ~(label : 'c -> int -> bool -> string) ~(call_ev : string list -> 'e) ~(ret_ev : string -> 'e)
                ~(tick_ev : 'e) ~(cb_ev : 'e) ~(extra : string list -> 'e option) =
  let st = ref init in
  let step w t e desc = match pstep !st (GSync (ni w, ni t, e)) with
    | Some s' -> st := s'; None
    | None -> Some (Printf.sprintf "product step %s of t%d on w%d not enabled; machine: %s" desc t w (mstate_str (gmc !st))) in
  { machine = (fun () -> gmc !st);
    free = (fun w m -> match pstep !st (GMach (ni w, m)) with Some s' -> st := s'; true | None -> false);
    proto = (fun w words -> match words with
      | "call" :: t :: o -> step w (int_of_string t) (call_ev o) ("call " ^ Stdlib.String.concat " " o)
      | "ret" :: t :: v :: _ -> step w (int_of_string t) (ret_ev v) ("ret " ^ v)
      | "tick" :: t :: ctx :: lab :: _ ->
          let ti = int_of_string t in
          let ml = label !st ti (ctx = "c") in
          if ml <> lab then Some (Printf.sprintf "t%s(%s) executes POINT %s but the model expects %s" t ctx lab (if ml = "" then "<no step>" else ml))
          else step w ti (if ctx = "c" then cb_ev else tick_ev) lab
      | kw :: t :: _ -> (match extra [kw] with
                         | Some e -> step w (int_of_string t) e kw
                         | None -> Some ("unparsable sync line: " ^ kw))
      | _ -> Some "unparsable sync line") }

let barrier_inst nw nt n =
  let open BarrierModel in
  simple_inst ~pstep:Instances.BarrierI.pstep ~init:(Instances.BarrierI.pinit (ni nw) (ni nt) (zs n)) ~gmc:gm
    ~label:(fun c t b -> str (label (gp c) (ni t) b))
    ~call_ev:(fun _ -> ECall) ~ret_ev:(fun v -> ERet (zs v)) ~tick_ev:ETick ~cb_ev:ECbTick ~extra:(fun _ -> None)

let jc_inst nw nt n =
  let open JcModel in
  match init_state (zs n) (ni nt) with
  | None -> failwith "join counter parameter outside the representable range"
  | Some s0 ->
  simple_inst ~pstep:Instances.JcI.pstep ~init:(Instances.JcI.pinit (ni nw) s0) ~gmc:gm
    ~label:(fun c t b -> str (label (gp c) (ni t) b))
    ~call_ev:(function ["wait"] -> ECall Wait | ["dec"] -> ECall Dec | l -> failwith ("bad op " ^ Stdlib.String.concat " " l))
    ~ret_ev:(fun v -> ERet (zs v)) ~tick_ev:ETick ~cb_ev:ECbTick ~extra:(fun _ -> None)

let uncond_inst nw nt =
  let open UncondModel in
  simple_inst ~pstep:Instances.UncondI.pstep ~init:(Instances.UncondI.pinit (ni nw) (ni nt)) ~gmc:gm
    ~label:(fun c t b -> str (label (gp c) (ni t) b))
    ~call_ev:(function ["wait"] -> ECall Wait | ["signal"] -> ECall Signal | l -> failwith ("bad op " ^ Stdlib.String.concat " " l))
    ~ret_ev:(fun v -> ERet (zs v)) ~tick_ev:ETick ~cb_ev:ECbTick
    ~extra:(function ["announce"] -> Some EAnnounce | _ -> None)

let () =
  let inst = ref None and ln = ref 0 and nsync = ref 0 and nfree = ref 0 and nsnap = ref 0 and failed = ref None in
  let fail msg = if !failed = None then failed := Some (Printf.sprintf "FAIL %d %s" !ln msg) in
  let get () = match !inst with Some i -> i | None -> failwith "no begin line" in
  let free w m desc =
    let i = get () in
    if i.free w m then incr nfree
    else fail (Printf.sprintf "free move %s of w%d not enabled in the product; machine: %s" desc w (mstate_str (i.machine ()))) in
  try while true do
    let l = input_line stdin in
    incr ln;
    (match split l with
     | "begin" :: kind :: rest ->
         ln := 0; nsync := 0; nfree := 0; nsnap := 0; failed := None;
         (try inst := Some (match kind, rest with
            | "sync", [nw; nt; nc] -> sync_inst (int_of_string nw) (int_of_string nt) (int_of_string nc)
            | "barrier", [nw; nt; n] -> barrier_inst (int_of_string nw) (int_of_string nt) n
            | "jc", [nw; nt; n] -> jc_inst (int_of_string nw) (int_of_string nt) n
            | "uncond", [nw; nt] -> uncond_inst (int_of_string nw) (int_of_string nt)
            | _ -> failwith ("bad begin line: " ^ l))
          with Failure m -> inst := Some (sync_inst 0 0 0); fail m)
     | ["end"] -> (match !failed with Some m -> print_endline m | None -> Printf.printf "ok %d %d %d\n" !nsync !nfree !nsnap)
     | _ when !failed <> None -> ()
     | "snap" :: rest ->
         let obs = canon (Stdlib.String.concat " " rest) and mdl = canon (mstate_str ((get ()).machine ())) in
         incr nsnap;
         if obs <> mdl then fail (Printf.sprintf "machine component differs: impl [%s] model [%s]" obs mdl)
     | "sync" :: w :: words ->
         (match (try (get ()).proto (int_of_string w) words with Failure m -> Some m) with
          | None -> incr nsync
          | Some m -> fail m)
     | ["autopop"; w] ->
         let w = int_of_string w in
         let m = (get ()).machine () in
         let h = (try Stdlib.List.nth (hand m) w with _ -> None) and q = (try Stdlib.List.nth (dq m) w with _ -> []) in
         if h = None && q <> [] then free w PopOwn "PopOwn"
     | ["stealfind"; w; x] ->
         let w = int_of_string w and x = tnum x in
         let rec find i = function
           | [] -> None
           | (y :: _) :: r when ino y = x && i <> w -> Some i
           | _ :: r -> find (i + 1) r in
         (match find 0 (dq ((get ()).machine ())) with
          | Some v -> free w (Steal (ni v)) (Printf.sprintf "Steal from w%d" v)
          | None -> fail (Printf.sprintf "w%d stole t%d but it is at the base of no run queue in the model: %s" w x (mstate_str ((get ()).machine ()))))
     | "move" :: w :: m ->
         let w = int_of_string w in
         let mv = (match m with
           | ["CreateCF"; c] -> CreateCF (ni (tnum c)) | ["CreatePF"; c] -> CreatePF (ni (tnum c))
           | ["PopOwn"] -> PopOwn | ["Steal"; v] -> Steal (ni (int_of_string v))
           | ["TakeJoiner"; j] -> TakeJoiner (ni (tnum j)) | ["SaveCtx"] -> SaveCtx | ["FinishCtx"] -> FinishCtx
           | ["PutBase"] -> PutBase | ["PushTop"; x] -> PushTop (ni (tnum x)) | ["EndCb"] -> EndCb | ["RunHand"] -> RunHand
           | _ -> failwith ("bad move " ^ l)) in
         free w mv (Stdlib.String.concat " " m)
     | [] -> ()
     | _ -> fail ("unparsable line: " ^ l))
  done with End_of_file -> ()
