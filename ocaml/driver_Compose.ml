(* Lock-step validator for the PRODUCT Abs(mutex, conds) x scheduler machine (coq/Compose/ComposeModel.v).
   Input blocks (ONE stream, in trace order, built from both projections of the same trace):
     begin <nworkers> <nthreads> <nconds>
     snap <cur_0> .. <cur_{W-1}> | <dq_0 base..top> | <dq_1> | ...           machine component must equal this
     sync <w> call <t> <op> [arg]                                            CSync w t (ECall op)
     sync <w> ret <t> <v>                                                    CSync w t (ERet v)
     sync <w> tick <t> <m|c> <label> <val|-> <obs>                           CSync w t ETick / (ECbTick i), after comparing
                                                                             label, hook value and the Sync words
     move <w> <CreateCF c|CreatePF c|PopOwn|Steal v|TakeJoiner j|SaveCtx|FinishCtx|PutBase|PushTop x|EndCb|RunHand>   CMach w m
     autopop <w>            CMach w PopOwn if the hand is empty and the own queue is not
     stealfind <w> <x>      CMach w (Steal v) for the worker v whose queue base is x
     end
   Output per block: "ok <sync steps> <free moves> <snaps>" or "FAIL <line> <reason>". *)
open SyncModel
open MachineModel
open ComposeModel
let zs = Zio.z_of_string and sz = Zio.string_of_z
let ni = Zio.nat_of_int and ino = Zio.int_of_nat
let bit b k = if b then 1 lsl k else 0
let char_of_ascii = function Ascii.Ascii (a,b,c,d,e,f,g,h) ->
  Char.chr (bit a 0 + bit b 1 + bit c 2 + bit d 3 + bit e 4 + bit f 5 + bit g 6 + bit h 7)
let rec str = function String.EmptyString -> "" | String.String (a, r) -> Stdlib.String.make 1 (char_of_ascii a) ^ str r
let split l = Stdlib.List.filter (fun s -> s <> "") (Stdlib.String.split_on_char ' ' l)
let parse_op = function
  | ["lock"] -> Lock | ["trylock"] -> TryLock | ["timedlock"] -> TimedLock | ["unlock"] -> Unlock
  | ["cwait"; c] -> CondWait (ni (int_of_string c)) | ["signal"; c] -> Signal (ni (int_of_string c))
  | ["bcast"; c] -> Broadcast (ni (int_of_string c))
  | l -> failwith ("bad op " ^ Stdlib.String.concat " " l)
let qstr l = "[" ^ Stdlib.String.concat "," (Stdlib.List.map (fun n -> string_of_int (ino n)) l) ^ "]"
let rec take k l = if k = 0 then ([], l) else match l with x :: r -> let (a, b) = take (k - 1) r in (x :: a, b) | [] -> failwith "short obs"
let getq k l = let (a, b) = take k l in ("[" ^ Stdlib.String.concat "," a ^ "]", b)
let nthq s c = try Stdlib.List.nth (cqs s) c with _ -> []
let check_obs s obs =
  match obs with
  | "M" :: st :: k :: rest ->
      let (q, _) = getq (int_of_string k) rest in
      let ms = sz (mword s) and mqs = qstr (mq s) in
      if st = ms && q = mqs then None else Some (Printf.sprintf "mutex words differ: impl state=%s q=%s model state=%s q=%s" st q ms mqs)
  | "Q" :: c :: k :: rest ->
      let (q, _) = getq (int_of_string k) rest in
      let mqs = qstr (nthq s (int_of_string c)) in
      if q = mqs then None else Some (Printf.sprintf "cond %s queue differs: impl %s model %s" c q mqs)
  | "-" :: _ | [] -> None
  | _ -> Some "unparsable obs"
let mode_str = function Sched -> "-" | Run t -> "t" ^ string_of_int (ino t) | Cb t -> "cb:t" ^ string_of_int (ino t)
let q_str q = Stdlib.String.concat " " (Stdlib.List.map (fun t -> "t" ^ string_of_int (ino t)) q)
let mstate_str s =
  Stdlib.String.concat " " (Stdlib.List.map mode_str (cur s)) ^ " | " ^ Stdlib.String.concat " | " (Stdlib.List.map q_str (dq s))
let canon l = Stdlib.String.concat " " (split l)
let tnum x = int_of_string (Stdlib.String.sub x 1 (Stdlib.String.length x - 1))
let () =
  let st = ref (cinit (ni 0) (ni 0) (ni 0)) and ln = ref 0 and nsync = ref 0 and nfree = ref 0 and nsnap = ref 0 and failed = ref None in
  let cbw : (int, int list) Hashtbl.t = Hashtbl.create 16 in
  let workers t = try Hashtbl.find cbw t with Not_found -> [] in
  let rec index x = function [] -> None | y :: r -> if x = y then Some 0 else (match index x r with Some i -> Some (i + 1) | None -> None) in
  let rec drop i = function [] -> [] | y :: r -> if i = 0 then r else y :: drop (i - 1) r in
  let fail msg = if !failed = None then failed := Some (Printf.sprintf "FAIL %d %s" !ln msg) in
  let free w m desc = match cstep !st (CMach (ni w, m)) with
    | Some s' -> st := s'; incr nfree
    | None -> fail (Printf.sprintf "free move %s of w%d not enabled in the product; machine: %s" desc w (mstate_str (ma !st))) in
  let sync w t e desc = match cstep !st (CSync (ni w, ni t, e)) with
    | Some s' -> st := s'; incr nsync; true
    | None -> fail (Printf.sprintf "product step %s of t%d on w%d not enabled; machine: %s" desc t w (mstate_str (ma !st))); false in
  try while true do
    let l = input_line stdin in
    incr ln;
    (match split l with
     | ["begin"; nw; nt; nc] ->
         st := cinit (ni (int_of_string nw)) (ni (int_of_string nt)) (ni (int_of_string nc));
         ln := 0; nsync := 0; nfree := 0; nsnap := 0; failed := None; Hashtbl.reset cbw
     | ["end"] -> (match !failed with Some m -> print_endline m | None -> Printf.printf "ok %d %d %d\n" !nsync !nfree !nsnap)
     | _ when !failed <> None -> ()
     | "snap" :: rest ->
         let obs = canon (Stdlib.String.concat " " rest) and mdl = canon (mstate_str (ma !st)) in
         incr nsnap;
         if obs <> mdl then fail (Printf.sprintf "machine component differs: impl [%s] model [%s]" obs mdl)
     | "sync" :: w :: "call" :: t :: o ->
         ignore (sync (int_of_string w) (int_of_string t) (ECall (parse_op o)) ("call " ^ Stdlib.String.concat " " o))
     | "sync" :: w :: "ret" :: t :: v :: _ ->
         ignore (sync (int_of_string w) (int_of_string t) (ERet (zs v)) ("ret " ^ v))
     | "sync" :: wk :: "tick" :: t :: ctx :: lab :: v :: obs ->
         let ti = int_of_string t and w = int_of_string wk in
         let tn = ni ti and s = sy !st in
         let slot =
           if ctx <> "c" then Some None
           else match index w (workers ti) with
             | Some i -> Some (Some i)
             | None ->
                 let n = ino (ncbs s tn) and k = Stdlib.List.length (workers ti) in
                 if n = k + 1 then (Hashtbl.replace cbw ti (workers ti @ [w]); Some (Some k)) else None in
         (match slot with
          | None -> fail (Printf.sprintf "t%s starts a callback on w%s (POINT %s) but the model has no new callback for it" t wk lab)
          | Some sl ->
            let incb = (match sl with Some i -> Some (ni i) | None -> None) in
            let ml = str (label s tn incb) in
            if ml <> lab then fail (Printf.sprintf "t%s(%s) executes POINT %s but the model expects %s" t ctx lab (if ml = "" then "<no step>" else ml))
            else begin
              (match lval s tn incb with
               | Some mv when v <> "-" && sz mv <> v -> fail (Printf.sprintf "t%s POINT %s carries value %s, model expects %s" t lab v (sz mv))
               | _ -> ());
              (match check_obs s obs with Some m -> fail (Printf.sprintf "before t%s %s: %s" t lab m) | None -> ());
              let before = ino (ncbs s tn) in
              if sync w ti (match sl with Some i -> ECbTick (ni i) | None -> ETick) lab then
                (match sl with Some i when ino (ncbs (sy !st) tn) < before -> Hashtbl.replace cbw ti (drop i (workers ti)) | _ -> ())
            end)
     | ["autopop"; w] ->
         let w = int_of_string w in
         let m = ma !st in
         let h = (try Stdlib.List.nth (hand m) w with _ -> None) and q = (try Stdlib.List.nth (dq m) w with _ -> []) in
         if h = None && q <> [] then free w PopOwn "PopOwn"
     | ["stealfind"; w; x] ->
         let w = int_of_string w and x = tnum x in
         let rec find i = function
           | [] -> None
           | (y :: _) :: r when ino y = x && i <> w -> Some i
           | _ :: r -> find (i + 1) r in
         (match find 0 (dq (ma !st)) with
          | Some v -> free w (Steal (ni v)) (Printf.sprintf "Steal from w%d" v)
          | None -> fail (Printf.sprintf "w%d stole t%d but it is at the base of no run queue in the model: %s" w x (mstate_str (ma !st))))
     | "move" :: w :: m ->
         let w = int_of_string w in
         let mv = (match m with
           | ["CreateCF"; c] -> CreateCF (ni (tnum c)) | ["CreatePF"; c] -> CreatePF (ni (tnum c))
           | ["PopOwn"] -> PopOwn | ["Steal"; v] -> Steal (ni (int_of_string v))
           | ["TakeJoiner"; j] -> TakeJoiner (ni (tnum j)) | ["SaveCtx"] -> SaveCtx | ["FinishCtx"] -> FinishCtx
           | ["PutBase"] -> PutBase | ["PushTop"; x] -> PushTop (ni (tnum x)) | ["EndCb"] -> EndCb | ["RunHand"] -> RunHand
           | _ -> failwith ("bad move " ^ l)) in
         free w mv (Stdlib.String.concat " " m)
     | [] -> ()
     | _ -> fail ("unparsable line: " ^ l))
  done with End_of_file -> ()
