(* Trace validator for Abs(once control) (coq/Once/OnceModel.v), property C14.
   Input: blocks, one per once control of a run
     begin <nthreads>
     call <t>
     tick <t> <m|c> <label> <state>        state = o->state immediately before the access
     ibegin <t> | istep <t> | iend <t>     the init routine: begins / one operation of the script / returns
     ret <t> <v> <state>                   state = o->state read by the caller right after myth_once returned
     end
   Output: one line per block: "ok <events> runs=.. fins=.. rets=.. word=.." or "FAIL <line-in-block> <reason>". *)
open OnceModel
let zs = Zio.z_of_string and sz = Zio.string_of_z
let ni = Zio.nat_of_int and ino = Zio.int_of_nat
let bit b k = if b then 1 lsl k else 0
let char_of_ascii = function Ascii.Ascii (a,b,c,d,e,f,g,h) ->
  Char.chr (bit a 0 + bit b 1 + bit c 2 + bit d 3 + bit e 4 + bit f 5 + bit g 6 + bit h 7)
let rec str = function String.EmptyString -> "" | String.String (a, r) -> Stdlib.String.make 1 (char_of_ascii a) ^ str r
let split l = Stdlib.List.filter (fun s -> s <> "") (Stdlib.String.split_on_char ' ' l)
let () =
  let st = ref (init_state (ni 0)) and ln = ref 0 and cnt = ref 0 and failed = ref None in
  let fail msg = if !failed = None then failed := Some (Printf.sprintf "FAIL %d %s" !ln msg) in
  let go t e what =
    match step !st (ni (int_of_string t), e) with
    | Some s' -> st := s'; incr cnt
    | None -> fail (what ()) in
  try while true do
    let l = input_line stdin in
    incr ln;
    (match split l with
     | ["begin"; nt] -> st := init_state (ni (int_of_string nt)); ln := 0; cnt := 0; failed := None
     | ["end"] ->
         (match !failed with
          | Some m -> print_endline m
          | None -> Printf.printf "ok %d runs=%d fins=%d rets=%d word=%s\n" !cnt (ino (runs !st)) (ino (fins !st))
                      (ino (rets !st)) (sz (word !st)))
     | _ when !failed <> None -> ()
     | ["call"; t] -> go t ECall (fun () -> Printf.sprintf "t%s calls once while the model has it inside a call" t)
     | ["ibegin"; t] -> go t EInitBegin (fun () -> Printf.sprintf "t%s enters the init routine but in the model it did not win the CAS (or the routine already ran)" t)
     | ["istep"; t] -> go t EInitStep (fun () -> Printf.sprintf "t%s runs a script operation outside the init routine" t)
     | ["iend"; t] -> go t EInitEnd (fun () -> Printf.sprintf "t%s leaves the init routine without being inside it" t)
     | ["ret"; t; v; obs] ->
         if obs <> "-" && obs <> sz (word !st) then
           fail (Printf.sprintf "at the return of t%s: o->state differs: impl %s model %s" t obs (sz (word !st)))
         else go t (ERet (zs v)) (fun () -> Printf.sprintf "t%s returned %s but in the model its call is not complete (state not completed) or returns another value" t v)
     | ["tick"; t; ctx; lab; obs] ->
         let tn = ni (int_of_string t) in
         let ml = if ctx = "c" then "" else str (label !st tn) in
         if ml <> lab then fail (Printf.sprintf "t%s(%s) executes POINT %s but the model expects %s" t ctx lab (if ml = "" then "<no step>" else ml))
         else if obs <> sz (word !st) then
           fail (Printf.sprintf "before t%s %s: o->state differs: impl %s model %s" t lab obs (sz (word !st)))
         else go t ETick (fun () -> Printf.sprintf "step %s of t%s not enabled in the model" lab t)
     | [] -> ()
     | _ -> fail ("unparsable line: " ^ l))
  done with End_of_file -> ()
