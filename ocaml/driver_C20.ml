(* C20 model driver: same case language as harness/c20_unit.c, same output lines. *)
open TimeModel
let zs = Zio.z_of_string and sz = Zio.string_of_z
let toks = ref []
let rec next () = match !toks with
  | t :: r -> toks := r; t
  | [] -> let l = input_line stdin in
          toks := Stdlib.List.filter (fun s -> s <> "") (String.split_on_char ' ' l); next ()
let nexti () = int_of_string (next ())
let read_clock () = let k = nexti () in Stdlib.List.init k (fun _ -> let s = zs (next ()) in let n = zs (next ()) in (s, n))
let fuel = Zio.nat_of_int 5000
let pr_out = function
  | Ret (c, r, y) -> Printf.printf "ret %s reads %d yields %d" (sz c) (Zio.int_of_nat r) (Zio.int_of_nat y)
  | OutOfFuel -> Printf.printf "outoffuel"
let pr_ev l =
  print_string " ev ";
  if l = [] then print_string "-";
  Stdlib.List.iter (function PRead _ -> print_char 'R' | PAttempt _ -> print_char 'A' | PYield -> print_char 'Y') l
let () =
  try while true do
    let op = next () in
    (match op with
     | "add" | "gt" ->
        let a_s = zs (next ()) in let a_n = zs (next ()) in let b_s = zs (next ()) in let b_n = zs (next ()) in
        if op = "add" then (let (s, n) = ts_add (a_s, a_n) (b_s, b_n) in Printf.printf "add %s %s\n" (sz s) (sz n))
        else Printf.printf "gt %d\n" (if ts_gt (a_s, a_n) (b_s, b_n) then 1 else 0)
     | "nsleep" -> let rs = zs (next ()) in let rn = zs (next ()) in let c = read_clock () in
                   pr_out (nanosleep (clk_of c) fuel (rs, rn)); print_newline ()
     (* myth_nanosleep(req, rem): object 0 is the request, object 1 a separate rem object holding (ps, pn);
        mode 0: rem = NULL, 1: rem = object 1, 2: rem = the request object.  After the call: *rem and *req *)
     | "nsleepr" | "libsleepr" ->
        let mode = nexti () in
        let rs = zs (next ()) in let rn = zs (next ()) in let ps = zs (next ()) in let pn = zs (next ()) in
        let c = read_clock () in
        let m l = if Zio.int_of_nat l = 0 then (rs, rn) else (ps, pn) in
        let prem = if mode = 0 then None else Some (Zio.nat_of_int (if mode = 1 then 1 else 0)) in
        let (o, m') = nanosleep_mem (clk_of c) fuel m (Zio.nat_of_int 0) prem in
        pr_out o;
        (if op = "libsleepr" then pr_ev (snd (nanosleep_ev (clk_of c) fuel (m (Zio.nat_of_int 0)))));
        (match prem with None -> Printf.printf " rem none" | Some l -> let (a, b) = m' l in Printf.printf " rem %s %s" (sz a) (sz b));
        (let (a, b) = m' (Zio.nat_of_int 0) in Printf.printf " req %s %s" (sz a) (sz b));
        print_newline ()
     | "usleep" -> let u = zs (next ()) in let c = read_clock () in pr_out (usleep (clk_of c) fuel u); print_newline ()
     | "sleep" -> let u = zs (next ()) in let c = read_clock () in pr_out (sleep (clk_of c) fuel u); print_newline ()
     | "tlock" | "tjoin" ->
        let ds = zs (next ()) in let dn = zs (next ()) in let f = nexti () in
        let attf i = f >= 0 && Zio.int_of_nat i >= f in
        let c = read_clock () in
        let o = (if op = "tlock" then timedlock else timedjoin) (clk_of c) attf fuel (ds, dn) in
        pr_out o;
        (if op = "tjoin" then match o with Ret (Z0, _, _) -> Printf.printf " val 5a5a" | Ret _ -> Printf.printf " val 0" | _ -> ());
        print_newline ()
     (* library tier: the clock script and the attempt script are the ones OBSERVED in a controlled run of the real
        library; outcome from [nanosleep] / [timed], order of actions from [nanosleep_ev] / [timed_ev] *)
     | "libsleep" ->
        let rs = zs (next ()) in let rn = zs (next ()) in let c = read_clock () in
        let o = nanosleep (clk_of c) fuel (rs, rn) in
        let (o2, l) = nanosleep_ev (clk_of c) fuel (rs, rn) in
        pr_out o; pr_ev l; (if o <> o2 then Printf.printf " INTERNAL-MISMATCH"); print_newline ()
     | "libtimed" ->
        let kind = next () in
        let ds = zs (next ()) in let dn = zs (next ()) in
        let na = nexti () in let a = Stdlib.List.init na (fun _ -> nexti () <> 0) in
        let c = read_clock () in
        let code = if kind = "lock" then coq_ETIMEDOUT else coq_EBUSY in
        let o = timed (clk_of c) (att_of a) code fuel (ds, dn) in
        let (o2, l) = timed_ev (clk_of c) (att_of a) code fuel (ds, dn) in
        pr_out o; pr_ev l; (if o <> o2 then Printf.printf " INTERNAL-MISMATCH"); print_newline ()
     | _ -> failwith ("bad op " ^ op))
  done with End_of_file -> ()
