(* Whole-machine lock-step validator (coq/Machine/MachineModel.v).
   Input blocks:
     begin <nworkers> <nthreads>
     snap <cur_0> .. <cur_{W-1}> | <dq_0 base..top> | <dq_1> | ...     cur_w = - | t<N> | cb:t<N>
     move <w> <CreateCF c|CreatePF c|PopOwn|Steal v|TakeJoiner j|SaveCtx|FinishCtx|PutBase|PushTop x|EndCb|RunHand>
     autopop <w>            PopOwn if the hand is empty and the own queue is not
     passhand <w> <v> <x>   PassBase v; the hand of w must hold x (x = - : the hand must be empty, no move)
     stealfind <w> <x>      Steal from the worker whose queue base is x
     end
   Output per block: "ok <moves> <snaps>" or "FAIL <line> <reason>". *)
open MachineModel
let ni = Zio.nat_of_int and ino = Zio.int_of_nat
let split l = Stdlib.List.filter (fun s -> s <> "") (Stdlib.String.split_on_char ' ' l)
let mode_str = function Sched -> "-" | Run t -> "t" ^ string_of_int (ino t) | Cb t -> "cb:t" ^ string_of_int (ino t)
let q_str q = Stdlib.String.concat " " (Stdlib.List.map (fun t -> "t" ^ string_of_int (ino t)) q)
let state_str s =
  Stdlib.String.concat " " (Stdlib.List.map mode_str (cur s)) ^ " | " ^ Stdlib.String.concat " | " (Stdlib.List.map q_str (dq s))
let canon l = Stdlib.String.concat " " (split l)
let tnum x = int_of_string (Stdlib.String.sub x 1 (Stdlib.String.length x - 1))
(* victim selection: lines "v <n> <rank> <r> <victim>" are answered with the model's victim *)
let victim_line n rank r =
  match VictimModel.victim (ni n) (ni rank) (ni r) with
  | Some v -> Printf.printf "v %d %d %d %d\n" n rank r (ino v)
  | None -> Printf.printf "v %d %d %d -1\n" n rank r
let () =
  let st = ref (minit (ni 0) (ni 0)) and ln = ref 0 and nm = ref 0 and ns = ref 0 and failed = ref None in
  let fail msg = if !failed = None then failed := Some (Printf.sprintf "FAIL %d %s" !ln msg) in
  let apply w m desc = match mmove !st (ni w) m with
    | Some s' -> st := s'; incr nm
    | None -> fail (Printf.sprintf "move %s of w%d not enabled in the model; model state: %s" desc w (state_str !st)) in
  try while true do
    let l = input_line stdin in
    incr ln;
    (match split l with
     | ["v"; n; rank; r; _] -> victim_line (int_of_string n) (int_of_string rank) (int_of_string r)
     | ["begin"; nw; nt] -> st := minit (ni (int_of_string nw)) (ni (int_of_string nt)); ln := 0; nm := 0; ns := 0; failed := None
     | ["end"] -> (match !failed with Some m -> print_endline m | None -> Printf.printf "ok %d %d\n" !nm !ns)
     | _ when !failed <> None -> ()
     | "snap" :: rest ->
         let obs = canon (Stdlib.String.concat " " rest) and mdl = canon (state_str !st) in
         incr ns;
         if obs <> mdl then fail (Printf.sprintf "machine state differs: impl [%s] model [%s]" obs mdl)
     | ["autopop"; w] ->
         let w = int_of_string w in
         let h = (try Stdlib.List.nth (hand !st) w with _ -> None) and q = (try Stdlib.List.nth (dq !st) w with _ -> []) in
         if h = None && q <> [] then apply w PopOwn "PopOwn"
     | ["passhand"; w; v; x] ->
         let w = int_of_string w and v = int_of_string v in
         let h = (try Stdlib.List.nth (hand !st) w with _ -> None) in
         (match h, x with
          | None, "-" -> ()
          | Some y, _ when x <> "-" && ino y = tnum x -> apply w (PassBase (ni v)) (Printf.sprintf "PassBase %d" v)
          | _, _ -> fail (Printf.sprintf "w%d passes %s but the model's hand holds %s" w x
                            (match h with None -> "nothing" | Some y -> "t" ^ string_of_int (ino y))))
     | ["stealfind"; w; x] ->
         let w = int_of_string w and x = tnum x in
         let rec find i = function
           | [] -> None
           | (y :: _) :: r when ino y = x && i <> w -> Some i
           | _ :: r -> find (i + 1) r in
         (match find 0 (dq !st) with
          | Some v -> apply w (Steal (ni v)) (Printf.sprintf "Steal from w%d" v)
          | None -> fail (Printf.sprintf "w%d stole t%d but it is at the base of no run queue in the model: %s" w x (state_str !st)))
     | "move" :: w :: m ->
         let w = int_of_string w in
         let mv = (match m with
           | ["CreateCF"; c] -> CreateCF (ni (tnum c)) | ["CreatePF"; c] -> CreatePF (ni (tnum c))
           | ["PopOwn"] -> PopOwn | ["Steal"; v] -> Steal (ni (int_of_string v))
           | ["TakeJoiner"; j] -> TakeJoiner (ni (tnum j)) | ["SaveCtx"] -> SaveCtx | ["FinishCtx"] -> FinishCtx
           | ["PutBase"] -> PutBase | ["PushTop"; x] -> PushTop (ni (tnum x)) | ["EndCb"] -> EndCb | ["RunHand"] -> RunHand | ["PassBase"; v] -> PassBase (ni (int_of_string v))
           | _ -> failwith ("bad move " ^ l)) in
         apply w mv (Stdlib.String.concat " " m)
     | [] -> ()
     | _ -> fail ("unparsable line: " ^ l))
  done with End_of_file -> ()
