(* C11 model driver: the "fini" cases of harness/c10_tls_unit.c over the extracted
   Tls/TlsTreeModel.v + Tls/TlsDestroyModel.v.
     variant <tagged> <locked>   model variant (generation tags or not), probed by the check
     fini    DT NS (k v)*NS      the walk of the current source
     finiold DT NS (k v)*NS      the walk as it was before commit 90cf288 (every cell past the table
                                 holds a destructor, like the harness' guard cells)
     finib   DT N op*N           op = s k v | b k : stores interleaved with generation bumps of key k
                                 (what a delete + create of the index does to the key table)
   output: "calls k:v ... | frees H<id> ... | mallocs n"   (a call through a cell past the table: oob:v) *)
module T = TlsTreeModel
module D = TlsDestroyModel
let zs = Zio.z_of_string and sz = Zio.string_of_z
let iz = Zio.int_of_z and zi = Zio.z_of_int
let toks = ref []
let rec next () = match !toks with
  | t :: r -> toks := r; t
  | [] -> let l = input_line stdin in
          toks := Stdlib.List.filter (fun s -> s <> "") (Stdlib.String.split_on_char ' ' l); next ()
let nexti () = int_of_string (next ())
let b = Buffer.create 65536
let out s = Buffer.add_string b s
let flush_line () = print_string (Buffer.contents b); print_newline (); Buffer.clear b
let tagged = ref false
let cfg () = if !tagged then T.cfg_tagged else T.cfg_plain

let run_fini old with_ops =
  let dts = next () in
  let tbl = Array.make 1024 false in
  (match dts with
   | "all" -> Array.fill tbl 0 1024 true
   | "none" -> ()
   | "list" -> let n = nexti () in
               for _ = 1 to n do let k = nexti () in if k >= 0 && k < 1024 then tbl.(k) <- true done
   | _ -> failwith "bad dt");
  let dt z = let k = iz z in
    if k >= 0 && k < 1024 then (if tbl.(k) then zi 1 else BinNums.Z0)
    else zi 1 in
  let kg = Array.make 1024 0 in
  let kgf z = let k = iz z in if k >= 0 && k < 1024 then zi kg.(k) else BinNums.Z0 in
  let ns = nexti () in
  let t = ref T.empty and bad = ref false in
  for _ = 1 to ns do
    let opc = if with_ops then (next ()).[0] else 's' in
    if opc = 's' then begin
      let k = zs (next ()) in let v = zs (next ()) in
      if not !bad then (match T.set (cfg ()) kgf !t k v with Some (t', _) -> t := t' | None -> bad := true)
    end else begin
      let k = nexti () in
      let n = if opc = 'r' then nexti () else 1 in
      if !tagged && k >= 0 && k < 1024 then kg.(k) <- (kg.(k) + n) land 0xFFFFFFFF
    end
  done;
  (match (if !bad then None else D.fini old (cfg ()) dt kgf !t) with
   | None -> out "ASSERT"
   | Some evs ->
      out "calls";
      Stdlib.List.iter (fun (k, v) ->
          let ki = iz k in
          if ki >= 0 && ki < 1024 then out (Printf.sprintf " %d:%s" ki (sz v)) else out (" oob:" ^ sz v))
        (D.calls_of evs);
      out " | frees";
      Stdlib.List.iter (function T.Heap i -> out (" H" ^ sz i) | T.Pool o -> out (" P" ^ sz o)) (D.frees_of evs);
      out (" | mallocs " ^ sz (!t).T.nheap));
  flush_line ()

let () =
  try while true do
    let op = next () in
    (match op with
     | "variant" ->
        tagged := (nexti () <> 0); let l = nexti () in
        out (Printf.sprintf "variant %d %d" (if !tagged then 1 else 0) l); flush_line ()
     | "widths" -> out (if !tagged then "widths 4 4" else "widths 0 0"); flush_line ()
     | "consts" -> out "consts"; Stdlib.List.iter (fun z -> out (" " ^ sz z)) (T.consts (cfg ())); flush_line ()
     | "fini" -> run_fini false false
     | "finiold" -> run_fini true false
     | "finib" -> run_fini false true
     | _ -> failwith ("bad op " ^ op))
  done with End_of_file -> ()
