(** C17 - model of mtbb::parallel_for (src/mtbb/parallel_for.h).

    [Index] is a signed machine integer of [bits] bits.  Signed overflow is
    undefined behaviour in C++, so no wrap-around is modelled: every function
    computes in Z and the front ends come with a boolean guard listing exactly
    the intermediate values of the C++ expressions that must be representable;
    the theorems assume the guard, the correspondence driver prints "overflow"
    when it fails.  C++ [/] truncates toward zero: [Z.quot].

    A result is the list of arguments the user's body is called with, in the
    order a single worker (work first, depth first) produces them; a parallel
    execution performs the same calls in some interleaving. *)
From Coq Require Import ZArith List Bool.
Import ListNotations.
Local Open Scope Z_scope.

Inductive pfout := PDone (calls : list Z) | POutOfFuel.

(** parallel_for_aux after commit 9a6e214 *)
Fixpoint pf_aux (fuel : nat) (first a b step : Z) : pfout :=
  match fuel with
  | O => POutOfFuel
  | S f =>
    if b - a <=? 0 then PDone []
    else if b - a =? 1 then PDone [first + a * step]
    else
      let c := a + Z.quot (b - a) 2 in
      match pf_aux f first a c step, pf_aux f first c b step with
      | PDone l, PDone r => PDone (l ++ r)
      | _, _ => POutOfFuel
      end
  end.

(** parallel_for_aux as it was before that commit: [b - a == 1] is the only base case *)
Fixpoint pf_aux_prefix (fuel : nat) (first a b step : Z) : pfout :=
  match fuel with
  | O => POutOfFuel
  | S f =>
    if b - a =? 1 then PDone [first + a * step]
    else
      let c := a + Z.quot (b - a) 2 in
      match pf_aux_prefix f first a c step, pf_aux_prefix f first c b step with
      | PDone l, PDone r => PDone (l ++ r)
      | _, _ => POutOfFuel
      end
  end.

(** [(last - first + step - 1) / step] *)
Definition count3 (first last step : Z) : Z := Z.quot (last - first + step - 1) step.

(** parallel_for(first, last, step, f) *)
Definition pf3 (fuel : nat) (first last step : Z) : pfout :=
  pf_aux fuel first 0 (count3 first last step) step.

(** parallel_for(first, last, f) *)
Definition pf2 (fuel : nat) (first last : Z) : pfout :=
  pf_aux fuel first 0 (last - first) 1.

(** ** grain-size variant: the body receives a pair [(first + a*step, first + b*step)];
       we keep the index pair [(a, b)] next to it *)
Inductive goutcome := GDone (calls : list ((Z * Z) * (Z * Z))) | GOutOfFuel.

(** parallel_for_grainsize_aux after commit fa6ed3f: a range of at most one
    index is a leaf whatever the grain size *)
Fixpoint pg_aux (fuel : nat) (first a b step grain : Z) : goutcome :=
  match fuel with
  | O => GOutOfFuel
  | S f =>
    if (b - a <=? grain) || (b - a <=? 1) then GDone [((a, b), (first + a * step, first + b * step))]
    else
      let c := a + Z.quot (b - a) 2 in
      match pg_aux f first a c step grain, pg_aux f first c b step grain with
      | GDone l, GDone r => GDone (l ++ r)
      | _, _ => GOutOfFuel
      end
  end.

(** parallel_for_grainsize_aux as it was before that commit: [b - a <= grainsize] only *)
Fixpoint pg_aux_prefix (fuel : nat) (first a b step grain : Z) : goutcome :=
  match fuel with
  | O => GOutOfFuel
  | S f =>
    if b - a <=? grain then GDone [((a, b), (first + a * step, first + b * step))]
    else
      let c := a + Z.quot (b - a) 2 in
      match pg_aux_prefix f first a c step grain, pg_aux_prefix f first c b step grain with
      | GDone l, GDone r => GDone (l ++ r)
      | _, _ => GOutOfFuel
      end
  end.

(** parallel_for(first, last, step, grainsize, f) *)
Definition pf_grain (fuel : nat) (first last step grain : Z) : goutcome :=
  pg_aux fuel first 0 (count3 first last step) step grain.

(** ** range-based variant (the branch compiled without USE_OLD_RANGE_BASED_PARALLEL_FOR)
       over a blocked_range-like [Range(begin, end, grainsize)] with
       [empty() = !(begin < end)] and [is_divisible() = grainsize < end - begin];
       the body receives the sub-range [(a, b)] *)
Inductive routcome := RDone (calls : list (Z * Z)) | ROutOfFuel.

Fixpoint pr_aux (fuel : nat) (a b grain : Z) : routcome :=
  match fuel with
  | O => ROutOfFuel
  | S f =>
    if negb (a <? b) then RDone []
    else if negb (grain <? b - a) then RDone [(a, b)]
    else
      let c := a + Z.quot (b - a) 2 in
      match pr_aux f a c grain, pr_aux f c b grain with
      | RDone l, RDone r => RDone (l ++ r)
      | _, _ => ROutOfFuel
      end
  end.

(** ** representability guards *)
Definition in_range (bits x : Z) : bool :=
  (- 2 ^ (bits - 1) <=? x) && (x <=? 2 ^ (bits - 1) - 1).

(** [(last - first + step - 1) / step] evaluates left to right *)
Definition pf3_guard (bits first last step : Z) : bool :=
  in_range bits first && in_range bits last && in_range bits step && (1 <=? step) &&
  in_range bits (last - first) && in_range bits (last - first + step) &&
  in_range bits (last - first + step - 1).

Definition pf2_guard (bits first last : Z) : bool :=
  in_range bits first && in_range bits last && in_range bits (last - first).

(** the grain-size variant also evaluates [first + b * step] for [b] = the
    number of iterations, which may lie beyond [last]; any representable grain
    size is allowed, zero and negative ones included *)
Definition pg_guard (bits first last step grain : Z) : bool :=
  pf3_guard bits first last step && in_range bits grain &&
  in_range bits (count3 first last step * step) &&
  in_range bits (first + count3 first last step * step).

Definition pr_guard (bits a b grain : Z) : bool :=
  in_range bits a && in_range bits b && in_range bits grain && (1 <=? grain) &&
  in_range bits (b - a).
